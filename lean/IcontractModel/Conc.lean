/-
  Concurrency: the in-progress state lives in a `contextvars.ContextVar`
  (icontract/_checkers.py `_IN_PROGRESS` and the six wrappers that read / update it).

  A *context* maps the variable to a value.  Asyncio tasks, `asyncio.to_thread` and
  `Context.run` start from a **copy** of the parent's mapping; plain threads start empty.
  Upstream stored a *mutable* `set` object in the variable and mutated it in place, so a context
  copied after the variable had been set shares that object with its parent (`shared`); the repaired
  code binds an immutable value per context and restores the entry value on exit (`perContext`).

  Tasks execute calls of one contracted function as micro-steps; a schedule says which task
  steps next.  User-code suspension points (awaits inside conditions / bodies, or preemption
  between user-code points for threads) are step boundaries.
-/
namespace Icontract.Conc

abbrev Id := Nat

inductive Discipline where
  | shared        -- upstream: one mutable set object per first-use, shared through context copies
  | perContext    -- repaired: immutable value per context, restored on exit
deriving DecidableEq, Repr, Inhabited

/-- one call of the contracted function `f` -/
structure CallSpec where
  f : Id
  preTruthy : Bool          -- truth of its precondition for this call's arguments
  condYields : Nat          -- suspension points while the precondition is evaluated
  bodyYields : Nat          -- suspension points while the body runs
deriving DecidableEq, Repr, Inhabited

inductive Verdict where
  | returned          -- the call returned the body's result
  | violation         -- the precondition's error was raised
deriving DecidableEq, Repr, Inhabited

/-- where a task is inside its current call -/
inductive Pc where
  | idle                                  -- about to start the next call
  | inCond (left : Nat) (entry : List Id)   -- checked path, precondition being evaluated; `entry` = value at entry
  | inBody (left : Nat) (checked : Bool) (entry : List Id)
deriving DecidableEq, Repr, Inhabited

structure Task where
  ctx : Nat                         -- index of the set object (shared) / of its own binding (perContext)
  calls : List CallSpec
  pc : Pc := .idle
  verdicts : List Verdict := []
deriving DecidableEq, Repr, Inhabited

structure World where
  sets : List (List Id)             -- `shared`: the set objects; `perContext`: the value bound in context i
  tasks : List Task
deriving DecidableEq, Repr, Inhabited

def getSet (w : World) (c : Nat) : List Id := (w.sets[c]?).getD []
def putSet (w : World) (c : Nat) (s : List Id) : World :=
  { w with sets := w.sets.mapIdx (fun i x => if i = c then s else x) }
def putTask (w : World) (i : Nat) (t : Task) : World :=
  { w with tasks := w.tasks.mapIdx (fun j x => if j = i then t else x) }

def addId (s : List Id) (x : Id) : List Id := if s.contains x then s else x :: s
def dropId (s : List Id) (x : Id) : List Id := s.filter (· != x)

/-- one micro-step of task `i` (no-op if it has finished) -/
def microStep (d : Discipline) (w : World) (i : Nat) : World :=
  match w.tasks[i]? with
  | none => w
  | some t =>
    match t.pc, t.calls with
    | .idle, [] => w
    | .idle, c :: _ =>
      -- wrapper entry: get the value, test membership, add
      let cur := getSet w t.ctx
      if cur.contains c.f then
        putTask w i { t with pc := .inBody c.bodyYields false cur }
      else
        putTask (putSet w t.ctx (addId cur c.f)) i { t with pc := .inCond c.condYields cur }
    | .inCond (n + 1) e, _ => putTask w i { t with pc := .inCond n e }
    | .inCond 0 e, c :: rest =>
      -- the precondition has been evaluated
      if c.preTruthy then
        -- suspended only while the contracts are evaluated: removed for the body
        let w' := match d with
          | .shared => putSet w t.ctx (dropId (getSet w t.ctx) c.f)
          | .perContext => putSet w t.ctx e
        putTask w' i { t with pc := .inBody c.bodyYields true e }
      else
        -- violation: `finally` discards / restores
        let w' := match d with
          | .shared => putSet w t.ctx (dropId (getSet w t.ctx) c.f)
          | .perContext => putSet w t.ctx e
        putTask w' i { t with pc := .idle, calls := rest, verdicts := t.verdicts ++ [.violation] }
    | .inCond 0 _, [] => w
    | .inBody (n + 1) ck e, _ => putTask w i { t with pc := .inBody n ck e }
    | .inBody 0 ck e, c :: rest =>
      -- body finished (no postconditions in this model): `finally` on the checked path
      let w' := if ck then (match d with
          | .shared => putSet w t.ctx (dropId (getSet w t.ctx) c.f)
          | .perContext => putSet w t.ctx e) else w
      putTask w' i { t with pc := .idle, calls := rest, verdicts := t.verdicts ++ [.returned] }
    | .inBody 0 _ _, [] => w

/-- did the micro-step from `t` end at a suspension point (a yield inside a condition / body, or the
task boundary after a finished call)? -/
def suspendsAfter (t : Task) : Bool :=
  match t.pc, t.calls with
  | .inCond (_ + 1) _, _ => true
  | .inBody (_ + 1) _ _, _ => true
  | .inBody 0 _ _, _ :: _ => true
  | .inCond 0 _, c :: _ => !c.preTruthy         -- a violation ends the call
  | _, _ => false

/-- a scheduling step: task `i` runs from one suspension point to the next (at most `fuel` micro-steps) -/
def stepFuel (d : Discipline) : Nat → World → Nat → World
  | 0, w, _ => w
  | fuel + 1, w, i =>
    match w.tasks[i]? with
    | none => w
    | some t =>
      if t.calls.isEmpty then w
      else
        let w' := microStep d w i
        if suspendsAfter t then w' else stepFuel d fuel w' i

def step (d : Discipline) (w : World) (i : Nat) : World := stepFuel d 4 w i

def runSchedule (d : Discipline) (w : World) (sched : List Nat) : World := sched.foldl (step d) w

/-- the verdict the property demands for a call: a function of the call alone -/
def CallSpec.expected (c : CallSpec) : Verdict := if c.preTruthy then .returned else .violation

/-- number of micro-steps a call takes -/
def CallSpec.steps (c : CallSpec) : Nat := c.condYields + c.bodyYields + 3

end Icontract.Conc
