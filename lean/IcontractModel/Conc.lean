/-
  Concurrency: the in-progress state lives in a `contextvars.ContextVar`
  (icontract/_checkers.py `_IN_PROGRESS` and the six wrappers that read / update it).

  A *context* maps the variable to a value.  Asyncio tasks, `asyncio.to_thread` and
  `Context.run` start from a **copy** of the parent's mapping; plain threads start empty.
  Upstream stored a *mutable* `set` object in the variable and mutated it in place, so a context
  copied after the variable had been set shares that object with its parent (`shared`); the repaired
  code binds an immutable value per context and restores the entry value on exit (`perContext`).

  Second version.  A call is a call of one of the THREE kinds of wrapper that mark something in
  progress:
    * `function` - `decorate_with_checker`: the mark is the id of the function; it is set while the
      preconditions (and snapshots) are evaluated, lifted for the body, set again for the postconditions;
    * `method`   - `_decorate_with_invariants` of a public method: the mark is the id of the INSTANCE; it
      is set on entry, stays while the invariants are checked before the body, during the body and while
      they are checked after it;
    * `ctor`     - `_decorate_with_invariants` of `__init__`: the mark is the id of the instance; body
      first, invariants after it; nothing is evaluated before the body.
  Every wrapper restores the value it found on entry (`finally`).

  Tasks execute their calls as micro-steps; a schedule is a list of operations: "task i runs to its next
  suspension point", "a new task is created whose context is a COPY of task p's current context"
  (`asyncio.create_task`, `asyncio.to_thread`, `copy_context().run`), "a plain thread starts with an empty
  context".  User-code suspension points (awaits inside conditions / bodies, or preemption
  between user-code points for threads) are step boundaries.
-/
namespace Icontract.Conc

abbrev Id := Nat

inductive Discipline where
  | shared        -- upstream: one mutable set object per first-use, shared through context copies
  | perContext    -- repaired: immutable value per context, restored on exit
deriving DecidableEq, Repr, Inhabited

/-- which wrapper the call goes through -/
inductive Kind where
  | function
  | method
  | ctor
deriving DecidableEq, Repr, Inhabited

/-- one call; `f` is what the wrapper marks in progress: the id of the contracted function, or the id of
the instance the method / constructor is called on -/
structure CallSpec where
  f : Id
  preTruthy : Bool          -- function: truth of its preconditions; method: of the invariants BEFORE the body
  condYields : Nat          -- suspension points while they are evaluated
  bodyYields : Nat          -- suspension points while the body runs
  kind : Kind := .function
  postTruthy : Bool := true -- function: truth of its postconditions; method / ctor: of the invariants AFTER the body
  postYields : Nat := 0     -- suspension points while they are evaluated
deriving DecidableEq, Repr, Inhabited

inductive Verdict where
  | returned          -- the call returned the body's result
  | violation         -- the error of the precondition / of the invariant before the body was raised
  | postViolation     -- the error of the postcondition / of the invariant after the body was raised
deriving DecidableEq, Repr, Inhabited

/-- where a task is inside its current call -/
inductive Pc where
  | idle                                  -- about to start the next call
  | inCond (left : Nat) (entry : List Id)   -- checked path, contracts before the body being evaluated; `entry` = value at entry
  | inBody (left : Nat) (checked : Bool) (entry : List Id)
  | inPost (left : Nat) (entry : List Id)   -- checked path, contracts after the body being evaluated
deriving DecidableEq, Repr, Inhabited

structure Task where
  ctx : Nat                         -- index of the set object (shared) / of its own binding (perContext)
  calls : List CallSpec             -- the calls still to make (the head is the one in flight when `pc ≠ idle`)
  pc : Pc := .idle
  verdicts : List Verdict := []
  program : List CallSpec := []     -- the calls the task was created with (never changes)
deriving DecidableEq, Repr, Inhabited

structure World where
  sets : List (List Id)             -- `shared`: the set objects; `perContext`: the value bound in context i
  tasks : List Task
deriving DecidableEq, Repr, Inhabited

def getSet (w : World) (c : Nat) : List Id := (w.sets[c]?).getD []
def putSet (w : World) (c : Nat) (s : List Id) : World :=
  { w with sets := w.sets.mapIdx (fun i x => if i = c then s else x) }
def putTask (w : World) (i : Nat) (t : Task) : World :=
  { w with tasks := w.tasks.mapIdx (fun j x => if j = i then t else x) }

def addId (s : List Id) (x : Id) : List Id := if s.contains x then s else x :: s
def dropId (s : List Id) (x : Id) : List Id := s.filter (· != x)

/-- the wrapper's `finally` / the lifting of the mark: upstream discards the id from the shared object, the
repaired code re-binds the value found on entry -/
def restore (d : Discipline) (w : World) (ctx : Nat) (f : Id) (entry : List Id) : World :=
  match d with
  | .shared => putSet w ctx (dropId (getSet w ctx) f)
  | .perContext => putSet w ctx entry

/-- the mark is set (again) -/
def mark (d : Discipline) (w : World) (ctx : Nat) (f : Id) (entry : List Id) : World :=
  match d with
  | .shared => putSet w ctx (addId (getSet w ctx) f)
  | .perContext => putSet w ctx (addId entry f)

/-- one micro-step of task `i` (no-op if it has finished) -/
def microStep (d : Discipline) (w : World) (i : Nat) : World :=
  match w.tasks[i]? with
  | none => w
  | some t =>
    match t.pc, t.calls with
    | .idle, [] => w
    | .idle, c :: _ =>
      -- wrapper entry: get the value, test membership, add
      let cur := getSet w t.ctx
      if cur.contains c.f then
        putTask w i { t with pc := .inBody c.bodyYields false cur }
      else
        let w' := putSet w t.ctx (addId cur c.f)
        match c.kind with
        | .ctor => putTask w' i { t with pc := .inBody c.bodyYields true cur }
        | _ => putTask w' i { t with pc := .inCond c.condYields cur }
    | .inCond (n + 1) e, _ => putTask w i { t with pc := .inCond n e }
    | .inCond 0 e, c :: rest =>
      -- the contracts before the body have been evaluated
      if c.preTruthy then
        -- a function is suspended only while its contracts are evaluated: the mark is lifted for the body;
        -- an instance stays marked during the body of its method
        let w' := match c.kind with
          | .function => restore d w t.ctx c.f e
          | _ => w
        putTask w' i { t with pc := .inBody c.bodyYields true e }
      else
        -- violation: `finally` discards / restores
        putTask (restore d w t.ctx c.f e) i { t with pc := .idle, calls := rest, verdicts := t.verdicts ++ [.violation] }
    | .inCond 0 _, [] => w
    | .inBody (n + 1) ck e, _ => putTask w i { t with pc := .inBody n ck e }
    | .inBody 0 ck e, c :: rest =>
      if ck then
        -- body finished on the checked path: the function is marked again for its postconditions
        let w' := match c.kind with
          | .function => mark d w t.ctx c.f e
          | _ => w
        putTask w' i { t with pc := .inPost c.postYields e }
      else
        -- the unchecked (re-entrant) path: the bare body's result
        putTask w i { t with pc := .idle, calls := rest, verdicts := t.verdicts ++ [.returned] }
    | .inBody 0 _ _, [] => w
    | .inPost (n + 1) e, _ => putTask w i { t with pc := .inPost n e }
    | .inPost 0 e, c :: rest =>
      putTask (restore d w t.ctx c.f e) i
        { t with pc := .idle, calls := rest,
                 verdicts := t.verdicts ++ [if c.postTruthy then .returned else .postViolation] }
    | .inPost 0 _, [] => w

/-- did the micro-step from `t` end at a suspension point (a yield inside a condition / body, or the
task boundary after a finished call)? -/
def suspendsAfter (t : Task) : Bool :=
  match t.pc, t.calls with
  | .inCond (_ + 1) _, _ => true
  | .inBody (_ + 1) _ _, _ => true
  | .inPost (_ + 1) _, _ => true
  | .inPost 0 _, _ :: _ => true                 -- the call ends
  | .inBody 0 false _, _ :: _ => true           -- the unchecked call ends
  | .inCond 0 _, c :: _ => !c.preTruthy         -- a violation ends the call
  | _, _ => false

/-- a scheduling step: task `i` runs from one suspension point to the next (at most `fuel` micro-steps) -/
def stepFuel (d : Discipline) : Nat → World → Nat → World
  | 0, w, _ => w
  | fuel + 1, w, i =>
    match w.tasks[i]? with
    | none => w
    | some t =>
      if t.calls.isEmpty then w
      else
        let w' := microStep d w i
        if suspendsAfter t then w' else stepFuel d fuel w' i

def step (d : Discipline) (w : World) (i : Nat) : World := stepFuel d 5 w i

/-- what a schedule is made of -/
inductive Op where
  | run (i : Nat)                                  -- task i runs to its next suspension point
  | fork (parent : Nat) (calls : List CallSpec)    -- a new task in a COPY of the parent's current context
  | thread (calls : List CallSpec)                 -- a new plain thread: empty context
deriving DecidableEq, Repr, Inhabited

/-- a new task; under the repaired discipline a copied context has its own binding with the parent's current
VALUE, under the upstream discipline it refers to the parent's set OBJECT -/
def spawn (d : Discipline) (w : World) (parent : Option Nat) (calls : List CallSpec) : World :=
  let fresh : World := { sets := w.sets ++ [[]],
                         tasks := w.tasks ++ [{ ctx := w.sets.length, calls := calls, program := calls }] }
  match parent with
  | none => fresh
  | some p =>
    match w.tasks[p]? with
    | none => fresh
    | some tp =>
      match d with
      | .shared => { w with tasks := w.tasks ++ [{ ctx := tp.ctx, calls := calls, program := calls }] }
      | .perContext =>
        { sets := w.sets ++ [getSet w tp.ctx],
          tasks := w.tasks ++ [{ ctx := w.sets.length, calls := calls, program := calls }] }

def applyOp (d : Discipline) (w : World) : Op → World
  | .run i => step d w i
  | .fork p calls => spawn d w (some p) calls
  | .thread calls => spawn d w none calls

def runOps (d : Discipline) (w : World) (ops : List Op) : World := ops.foldl (applyOp d) w

/-- schedules without creation of tasks -/
def runSchedule (d : Discipline) (w : World) (sched : List Nat) : World := runOps d w (sched.map .run)

/-- a context is copied OUTSIDE the evaluations it would disable: the parent's current value marks nothing the
new task is going to call (in particular: the parent is between two calls, or in the body of a function) -/
def opSafe (w : World) : Op → Bool
  | .fork p calls =>
    match w.tasks[p]? with
    | none => true
    | some tp => calls.all (fun c => !(getSet w tp.ctx).contains c.f)
  | _ => true

/-- every copy of a context in the schedule is made outside the evaluations it would disable -/
def safeOps (d : Discipline) : World → List Op → Bool
  | _, [] => true
  | w, op :: rest => opSafe w op && safeOps d (applyOp d w op) rest

/-- the verdict the property demands for a call: a function of the call alone -/
def CallSpec.expected (c : CallSpec) : Verdict :=
  if c.kind != .ctor && !c.preTruthy then .violation
  else if c.postTruthy then .returned else .postViolation

/-- the world a process starts in: one task per program, each in its own empty context -/
def World.start (programs : List (List CallSpec)) : World :=
  { sets := programs.map (fun _ => []),
    tasks := programs.zipIdx.map (fun (p, i) => { ctx := i, calls := p, program := p }) }

end Icontract.Conc
