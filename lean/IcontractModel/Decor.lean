/-
  Decoration-time logic of the decorator objects (icontract/_decorators.py,
  icontract/_types.py:100-123, icontract/_checkers.py:655-681, 875-932):
  `enabled`, validation of `error`, of invariant conditions, of snapshots, of
  reserved parameter names.  Three hand-copied validations of `error` exist in
  the code (require / ensure / invariant): three definitions here.
-/
import IcontractModel.Sig
namespace Icontract

/-- What a user may pass as `error=`. -/
inductive ErrArg where
  | none
  | excClass          -- a class that is a subclass of BaseException
  | otherClass        -- any other class (int, str, object, a user class)
  | excInstance       -- an instance of BaseException
  | function          -- a Python function or lambda
  | method            -- a bound method
  | callableObject    -- an object with `__call__` (functools.partial, a class instance, a builtin)
  | otherValue        -- an int, a str, ...
deriving DecidableEq, Repr, Inhabited

inductive DefErr where
  | valueError (why : String)
  | typeError (why : String)
deriving DecidableEq, Repr, Inhabited

/-- `require.__init__`, lines 68-89 -/
def validateErrorRequire : ErrArg → Except DefErr Unit
  | .none => .ok ()
  | .excClass => .ok ()
  | .otherClass => .error (.valueError "type does not inherit from BaseException")
  | .excInstance => .ok ()
  | .function => .ok ()
  | .method => .ok ()
  | .callableObject => .error (.valueError "must be a callable, a class or an instance of BaseException")
  | .otherValue => .error (.valueError "must be a callable, a class or an instance of BaseException")

/-- `ensure.__init__`, lines 269-290 -/
def validateErrorEnsure : ErrArg → Except DefErr Unit
  | .none => .ok ()
  | .excClass => .ok ()
  | .otherClass => .error (.valueError "type does not inherit from BaseException")
  | .excInstance => .ok ()
  | .function => .ok ()
  | .method => .ok ()
  | .callableObject => .error (.valueError "must be a callable, a class or an instance of BaseException")
  | .otherValue => .error (.valueError "must be a callable, a class or an instance of BaseException")

/-- `invariant.__init__`, lines 409-430 -/
def validateErrorInvariant : ErrArg → Except DefErr Unit
  | .none => .ok ()
  | .excClass => .ok ()
  | .otherClass => .error (.valueError "type does not inherit from BaseException")
  | .excInstance => .ok ()
  | .function => .ok ()
  | .method => .ok ()
  | .callableObject => .error (.valueError "must be a callable, a class or an instance of BaseException")
  | .otherValue => .error (.valueError "must be a callable, a class or an instance of BaseException")

/-- what is known about a condition / capture callable at decoration time -/
structure CondInfo where
  args : List String
  mandatory : List String
  coroFn : Bool
deriving DecidableEq, Repr, Inhabited

/-- `require(...)` / `ensure(...)` construction: `none` = disabled (nothing is even validated) -/
def requireInit (enabled : Bool) (err : ErrArg) : Except DefErr Bool :=
  if !enabled then .ok false else do
    validateErrorRequire err
    pure true

def ensureInit (enabled : Bool) (err : ErrArg) : Except DefErr Bool :=
  if !enabled then .ok false else do
    validateErrorEnsure err
    pure true

/-- `invariant(...)` construction (lines 403-461) -/
def invariantInit (enabled : Bool) (err : ErrArg) (cond : CondInfo) : Except DefErr Bool :=
  if !enabled then .ok false else do
    validateErrorInvariant err
    if cond.coroFn then .error (.valueError "Async conditions are not possible in invariants")
    else if !cond.mandatory.isEmpty && cond.mandatory != ["self"] then
      .error (.valueError "Expected an invariant condition with at most an argument 'self'")
    else pure true

/-- `Snapshot.__init__` (icontract/_types.py:100-123): the inferred name -/
def snapshotName (name : Option String) (captureArgs : List String) : Except DefErr String :=
  match name with
  | some n => .ok n
  | none =>
    match captureArgs with
    | [] => .error (.valueError "You must name a snapshot if no argument was given in the capture function.")
    | [a] => .ok a
    | _ => .error (.valueError "You must name a snapshot if multiple arguments were given in the capture function.")

/-- `snapshot(...)` construction -/
def snapshotInit (enabled : Bool) (name : Option String) (captureArgs : List String) : Except DefErr (Option String) :=
  if !enabled then .ok none else do
    let n ← snapshotName name captureArgs
    pure (some n)

/-- `decorate_with_checker`: reserved parameter names (lines 670-681) -/
def checkReservedParams (sig : Signature) : Except DefErr Unit :=
  if (sig.map (·.name)).contains "_ARGS" then .error (.typeError "_ARGS is a reserved placeholder")
  else if (sig.map (·.name)).contains "_KWARGS" then .error (.typeError "_KWARGS is a reserved placeholder")
  else .ok ()

/-- What the decorator stack below a new decorator looks like to `find_checker`:
is there a checker, and which snapshot names / how many postconditions does it carry. -/
structure Below where
  hasChecker : Bool
  nPosts : Nat
  snapNames : List String
deriving DecidableEq, Repr, Inhabited

/-- `snapshot.__call__` (lines 186-215) + `add_snapshot_to_checker` (899-919) -/
def snapshotApply (enabledName : Option String) (below : Below) : Except DefErr Below :=
  match enabledName with
  | none => .ok below                    -- disabled: `return func`
  | some n =>
    if !below.hasChecker || below.nPosts == 0 then
      .error (.valueError "You are decorating a function with a snapshot, but no postcondition was defined on the function before.")
    else if below.snapNames.contains n then
      .error (.valueError "There are conflicting snapshots with the name")
    else .ok { below with snapNames := below.snapNames ++ [n] }

end Icontract
