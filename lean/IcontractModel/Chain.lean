/-
  Effective contracts of a member along a *linear* override chain on the
  contract-inheriting base (what `_decorate_namespace_function` produces when
  every class has one base): `base + own` at every level.  The general DAG
  case lives in `Meta.lean`; `Props/C04.lean` relates the two.
-/
import IcontractModel.Checker
namespace Icontract

/-- What one class of the chain declares on the member. -/
structure Level where
  pre : List Contract := []       -- own conditions, in list order (innermost decorator first)
  snaps : List Snapshot := []
  posts : List Contract := []
deriving Repr, Inhabited

def chainPre : List Level → List (List Contract)
  | [] => []
  | l :: ls => (if l.pre.isEmpty then [] else [l.pre]) ++ chainPre ls

def chainSnaps (ls : List Level) : List Snapshot := ls.flatMap (·.snaps)
def chainPosts (ls : List Level) : List Contract := ls.flatMap (·.posts)

end Icontract
