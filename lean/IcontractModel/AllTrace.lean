/-
  `all(<element> for <targets> in <iteration>)` in a violated condition
  (icontract/_recompute.py `_trace_all_with_generator` / `FirstExceptionInAll`): the re-evaluator re-runs the
  generator and reports the assignment of the loop variables at which the element first tests falsy.
  The iteration (after its filters) is a finite list of assignments `A`, in the order Python produces them;
  `elt a` is the truth test of the element under assignment `a` (it may raise).
-/
namespace Icontract.Ex

/-- Python's own `all(...)`: stops at the first falsy element -/
def pyAll {A : Type} (elt : A → Except String Bool) : List A → Except String Bool
  | [] => .ok true
  | a :: rest => do
      let b ← elt a
      if b then pyAll elt rest else pure false

/-- the tracing re-execution: `none` if every element is truthy, otherwise the first falsifying assignment -/
def traceAll {A : Type} (elt : A → Except String Bool) : List A → Except String (Option A)
  | [] => .ok none
  | a :: rest => do
      let b ← elt a
      if b then traceAll elt rest else pure (some a)

/-- index of the reported assignment (for the correspondence run) -/
def traceAllIdx {A : Type} (elt : A → Except String Bool) : Nat → List A → Except String (Option Nat)
  | _, [] => .ok none
  | i, a :: rest => do
      let b ← elt a
      if b then traceAllIdx elt (i + 1) rest else pure (some i)

end Icontract.Ex
