/-
  Which re-computed nodes get a `<expression> was <value>` line, and how the lines are assembled
  (icontract/_represent.py: `_representable` 30-45, `Visitor` 48-182, `repr_values` 485-569).
-/
import IcontractModel.Recompute
namespace Icontract.Ex

/-- classes, functions, methods, modules and builtins are not shown -/
def representable : Val → Bool
  | .fn _ => false
  | _ => true

/-- the value recorded for node `i`, if any (`recomputed_values` is a dict: the last write wins) -/
def recorded (R : Log) (i : Nat) : Option Val :=
  match R.reverse.find? (fun p => p.1 == i) with
  | some p => some p.2
  | none => none

/-- `reprs[text] = value`: overwrite an existing key, otherwise append -/
def putLine (m : List (String × Val)) (k : String) (v : Val) : List (String × Val) :=
  if m.any (fun p => p.1 == k) then m.map (fun p => if p.1 == k then (k, v) else p) else m ++ [(k, v)]

mutual
/-- `_represent.Visitor`: node kinds that get a line, in traversal order; `text` gives the source text of a
node, `isLookupName` tells whether a name is an argument / closure / global (otherwise it is a builtin) -/
def collectLines (text : Nat → String) (isLookupName : String → Bool) (R : Log) (m : List (String × Val)) :
    Expr → List (String × Val)
  | .const _ _ => m
  | .name i n =>
      match recorded R i with
      | some v => if isLookupName n && representable v then putLine m (text i) v else m
      | none => m
  | .attr i e _ =>
      let m := (match recorded R i with
        | some v => if representable v then putLine m (text i) v else m
        | none => m)
      collectLines text isLookupName R m e
  | .subscr i e ix =>
      let m := (match recorded R i with | some v => putLine m (text i) v | none => m)
      collectLines text isLookupName R (collectLines text isLookupName R m e) ix
  | .call i f args =>
      let m := (match recorded R i with | some v => putLine m (text i) v | none => m)
      collectLinesList text isLookupName R (collectLines text isLookupName R m f) args
  | .unary _ _ e => collectLines text isLookupName R m e
  | .bin _ _ l r => collectLines text isLookupName R (collectLines text isLookupName R m l) r
  | .boolop _ _ es => collectLinesList text isLookupName R m es
  | .compare _ left rest => collectLinesCmp text isLookupName R (collectLines text isLookupName R m left) rest
  | .ifexp _ c t e =>
      collectLines text isLookupName R (collectLines text isLookupName R (collectLines text isLookupName R m c) t) e
  | .display _ es => collectLinesList text isLookupName R m es
  | .comp i _ first inner =>
      let m := (match recorded R i with | some v => putLine m (text i) v | none => m)
      collectLinesList text isLookupName R (collectLines text isLookupName R m first) inner
  -- second version: `generic_visit` walks the children in field order; a call gets a line; an f-string gets a line
  -- for the whole string and is NOT descended into (`visit_JoinedStr`)
  | .starred _ e => collectLines text isLookupName R m e
  | .coll _ _ es => collectLinesList text isLookupName R m es
  | .dict _ items => collectLinesVals text isLookupName R (collectLinesKeys text isLookupName R m items) items
  | .slice _ lo hi step =>
      collectLinesOpt text isLookupName R (collectLinesOpt text isLookupName R (collectLinesOpt text isLookupName R m lo) hi) step
  | .callkw i f args kws =>
      let m := (match recorded R i with | some v => putLine m (text i) v | none => m)
      collectLinesKws text isLookupName R (collectLinesList text isLookupName R (collectLines text isLookupName R m f) args) kws
  | .fvalue _ e _ spec => collectLinesOpt text isLookupName R (collectLines text isLookupName R m e) spec
  | .fstring i _ =>
      match recorded R i with
      | some v => if representable v then putLine m (text i) v else m
      | none => m
def collectLinesList (text : Nat → String) (isLookupName : String → Bool) (R : Log) (m : List (String × Val)) :
    List Expr → List (String × Val)
  | [] => m
  | e :: rest => collectLinesList text isLookupName R (collectLines text isLookupName R m e) rest
def collectLinesCmp (text : Nat → String) (isLookupName : String → Bool) (R : Log) (m : List (String × Val)) :
    List (CmpOp × Expr) → List (String × Val)
  | [] => m
  | (_, e) :: rest => collectLinesCmp text isLookupName R (collectLines text isLookupName R m e) rest
/-- `ast.Dict` has the fields `keys`, `values`: all keys are walked first, then all values -/
def collectLinesKeys (text : Nat → String) (isLookupName : String → Bool) (R : Log) (m : List (String × Val)) :
    List (Option Expr × Expr) → List (String × Val)
  | [] => m
  | (none, _) :: rest => collectLinesKeys text isLookupName R m rest
  | (some k, _) :: rest => collectLinesKeys text isLookupName R (collectLines text isLookupName R m k) rest
def collectLinesVals (text : Nat → String) (isLookupName : String → Bool) (R : Log) (m : List (String × Val)) :
    List (Option Expr × Expr) → List (String × Val)
  | [] => m
  | (_, e) :: rest => collectLinesVals text isLookupName R (collectLines text isLookupName R m e) rest
def collectLinesKws (text : Nat → String) (isLookupName : String → Bool) (R : Log) (m : List (String × Val)) :
    List (Option String × Expr) → List (String × Val)
  | [] => m
  | (_, e) :: rest => collectLinesKws text isLookupName R (collectLines text isLookupName R m e) rest
def collectLinesOpt (text : Nat → String) (isLookupName : String → Bool) (R : Log) (m : List (String × Val)) :
    Option Expr → List (String × Val)
  | none => m
  | some e => collectLines text isLookupName R m e
end

/-- `_ARGS` / `_KWARGS` are shown only if the condition names them -/
def selectKwargs (condParams : List String) (kw : List (String × Val)) : List (String × Val) :=
  kw.filter (fun p => !((p.1 == "_ARGS" && !condParams.contains "_ARGS") || (p.1 == "_KWARGS" && !condParams.contains "_KWARGS")))

def keyLe (a b : String × Val) : Bool := decide (a.1 ≤ b.1)

/-- the remaining arguments are added in sorted key order, unless already shown or not representable -/
def addArguments (m : List (String × Val)) (kw : List (String × Val)) : List (String × Val) :=
  (kw.mergeSort keyLe).foldl (fun m p => if m.any (fun q => q.1 == p.1) || !representable p.2 then m else m ++ [p]) m

/-- the (key, value) pairs of the message, sorted by expression text -/
def reprPairs (lines : List (String × Val)) (condParams : List String) (kw : List (String × Val)) : List (String × Val) :=
  (addArguments lines (selectKwargs condParams kw)).mergeSort keyLe

/-- `repr_values`: every value goes through the contract's own `a_repr` -/
def reprValues (aRepr : Val → String) (lines : List (String × Val)) (condParams : List String)
    (kw : List (String × Val)) : List String :=
  (reprPairs lines condParams kw).map (fun p => p.1 ++ " was " ++ aRepr p.2)

end Icontract.Ex
