/-
  The contract-inheriting metaclass and the `invariant` class decorator over a
  *heap of mutable lists* (icontract/_metaclass.py, icontract/_decorators.py:463-517,
  icontract/_checkers.py:875-932).

  Python lists are heap cells (`Ref`); attributes hold references; `a + b` and
  `[]` allocate, `append`/`extend` mutate a cell in place; `hasattr/getattr` on a
  class resolve along its MRO to a *reference*.  That is what makes aliasing
  between a class and its bases visible (C17).
-/
namespace Icontract.Meta

abbrev Ref := Nat
abbrev FnId := Nat
abbrev ClsId := Nat
abbrev CId := Nat

/-- the heap: cell `r` holds a Python list of ids (contract ids, snapshot ids or, for the outer
precondition list, references to group cells) -/
abbrev Heap := List (List Nat)

def Heap.get (h : Heap) (r : Ref) : List Nat := (h[r]?).getD []
def Heap.alloc (h : Heap) (xs : List Nat) : Heap × Ref := (h ++ [xs], h.length)
def Heap.set (h : Heap) (r : Ref) (xs : List Nat) : Heap :=
  h.mapIdx (fun i c => if i = r then xs else c)
def Heap.append (h : Heap) (r : Ref) (x : Nat) : Heap := h.set r (h.get r ++ [x])

/-- the three list attributes of a contract checker (rebindable) -/
structure CheckerObj where
  pre : Ref       -- outer list: references to the group cells
  snaps : Ref
  posts : Ref
deriving DecidableEq, Repr, Inhabited

inductive Member where
  | func (f : FnId)
  | static (f : FnId)
  | classm (f : FnId)
  | prop (fget fset fdel : Option FnId)
  | other
deriving DecidableEq, Repr, Inhabited

structure Cls where
  id : ClsId
  bases : List ClsId
  ns : List (String × Member)
  inv : Option Ref := none          -- `__invariants__` in the class's own `__dict__`
  invCall : Option Ref := none      -- `__invariants_on_call__`
  invSetattr : Option Ref := none   -- `__invariants_on_setattr__`
  dbc : Bool := true
  mro : List ClsId := []
  wrapped : List String := []       -- own members that are invariant-checking wrappers
  declared : List String := []      -- names the class body itself declares (before any copy-down)
deriving Repr, Inhabited

/-- when an invariant is checked -/
structure CheckOn where
  call : Bool
  setattr : Bool
deriving DecidableEq, Repr, Inhabited

structure World where
  heap : Heap := []
  checkers : List (FnId × CheckerObj) := []   -- `find_checker` of a function object
  classes : List Cls := []
  snapNames : List (Nat × String) := []       -- snapshot id ↦ name
  hookCalls : List ClsId := []                -- calls of `_register_for_hypothesis`
  invCheckOn : List (CId × CheckOn) := []     -- `check_on` of every invariant created so far
deriving Repr, Inhabited

def World.cls? (w : World) (k : ClsId) : Option Cls := w.classes.find? (·.id == k)
def World.checker? (w : World) (f : FnId) : Option CheckerObj := (w.checkers.find? (·.1 == f)).map (·.2)

/-! ### C3 linearisation -/

def inTail (x : ClsId) (seqs : List (List ClsId)) : Bool := seqs.any (fun s => (s.drop 1).contains x)

def pickHead (seqs : List (List ClsId)) (all : List (List ClsId)) : Option ClsId :=
  match seqs with
  | [] => none
  | [] :: rest => pickHead rest all
  | (x :: _) :: rest => if inTail x all then pickHead rest all else some x

def c3merge (fuel : Nat) (seqs : List (List ClsId)) : Option (List ClsId) :=
  match fuel with
  | 0 => none
  | fuel + 1 =>
    let seqs := seqs.filter (fun s => !s.isEmpty)
    if seqs.isEmpty then some [] else
    match pickHead seqs seqs with
    | none => none
    | some x =>
      match c3merge fuel (seqs.map (fun s => s.filter (· != x))) with
      | some rest => some (x :: rest)
      | none => none

/-- MRO of a new class `k` with the given bases (whose MROs are known) -/
def computeMro (w : World) (k : ClsId) (bases : List ClsId) : Option (List ClsId) :=
  let baseMros := bases.map (fun b => match w.cls? b with | some c => c.mro | none => [b])
  let total := (baseMros.map List.length).sum + bases.length + 1
  match c3merge (total + 1) (baseMros ++ [bases]) with
  | some rest => some (k :: rest)
  | none => none

/-! ### attribute lookup along the MRO -/

def lookupMember (w : World) (k : ClsId) (key : String) : Option Member :=
  match w.cls? k with
  | none => none
  | some c =>
    c.mro.findSome? (fun a => match w.cls? a with
      | some ca => (ca.ns.find? (·.1 == key)).map (·.2)
      | none => none)

inductive InvDunder where
  | all | onCall | onSetattr
deriving DecidableEq, Repr, Inhabited

def Cls.invRef (c : Cls) : InvDunder → Option Ref
  | .all => c.inv
  | .onCall => c.invCall
  | .onSetattr => c.invSetattr

/-- `getattr(cls, dunder)` when it exists: the first class of the MRO that has it in its own dict -/
def lookupInv (w : World) (k : ClsId) (d : InvDunder) : Option Ref :=
  match w.cls? k with
  | none => none
  | some c => c.mro.findSome? (fun a => match w.cls? a with | some ca => ca.invRef d | none => none)

/-! ### function-level decorators (before the class is created) -/

/-- `decorate_with_checker`: three fresh empty lists -/
def ensureChecker (w : World) (f : FnId) : World × CheckerObj :=
  match w.checker? f with
  | some ck => (w, ck)
  | none =>
    let (h1, r1) := w.heap.alloc []
    let (h2, r2) := h1.alloc []
    let (h3, r3) := h2.alloc []
    let ck : CheckerObj := { pre := r1, snaps := r2, posts := r3 }
    ({ w with heap := h3, checkers := w.checkers ++ [(f, ck)] }, ck)

/-- `@require`: `add_precondition_to_checker` - appends to group 0 **in place**, creating it if needed -/
def addPre (w : World) (f : FnId) (c : CId) : World :=
  let (w, ck) := ensureChecker w f
  match w.heap.get ck.pre with
  | [] =>
    let (h, g) := w.heap.alloc [c]
    { w with heap := h.append ck.pre g }
  | g :: _ => { w with heap := w.heap.append g c }

/-- `@ensure` -/
def addPost (w : World) (f : FnId) (c : CId) : World :=
  let (w, ck) := ensureChecker w f
  { w with heap := w.heap.append ck.posts c }

inductive DefErr where
  | typeErrorWeaken (key : String)
  | valueErrorDuplicateSnapshot (name : String)
  | valueErrorNoChecker
  | mroConflict
deriving DecidableEq, Repr, Inhabited

def snapName (w : World) (s : Nat) : String := ((w.snapNames.find? (·.1 == s)).map (·.2)).getD ""

/-- `@snapshot`: needs a checker with a postcondition below it; duplicate names rejected -/
def addSnap (w : World) (f : FnId) (s : Nat) : Except DefErr World :=
  match w.checker? f with
  | none => .error .valueErrorNoChecker
  | some ck =>
    if (w.heap.get ck.posts).isEmpty then .error .valueErrorNoChecker
    else if (w.heap.get ck.snaps).any (fun t => snapName w t == snapName w s) then
      .error (.valueErrorDuplicateSnapshot (snapName w s))
    else .ok { w with heap := w.heap.append ck.snaps s }

/-! ### the namespace pass of `DBCMeta.__new__` -/

/-- the function object behind `getattr(base, key)` as `find_checker` sees it -/
def Member.asFunc : Member → Option FnId
  | .func f => some f
  | .static f => some f
  | .classm f => some f
  | _ => none

/-- the function object behind accessor `which` of a member (functions: any `which`) -/
def memberFnId (m : Member) (which : Nat) : Option FnId :=
  match m with
  | .func f | .static f | .classm f => some f
  | .prop g s d => if which = 0 then g else if which = 1 then s else d
  | .other => none

/-- lists collected from the direct bases for a function member:
(bases_have_func, groups, snaps, posts); a base that provides the member without any precondition
(no checker, or an empty `__preconditions__`) accepts every call and empties the collected groups -/
structure BaseAcc where
  haveFunc : Bool := false
  acceptAll : Bool := false
  pre : List Nat := []
  snaps : List Nat := []
  posts : List Nat := []

def BaseAcc.result (a : BaseAcc) : Bool × List Nat × List Nat × List Nat :=
  (a.haveFunc, if a.acceptAll then [] else a.pre, a.snaps, a.posts)

def BaseAcc.add (w : World) (a : BaseAcc) (ck : Option CheckerObj) : BaseAcc :=
  match ck with
  | none => { a with haveFunc := true, acceptAll := true }
  | some ck =>
    { haveFunc := true, acceptAll := a.acceptAll || (w.heap.get ck.pre).isEmpty,
      pre := a.pre ++ w.heap.get ck.pre, snaps := a.snaps ++ w.heap.get ck.snaps, posts := a.posts ++ w.heap.get ck.posts }

def collectBases (w : World) (bases : List ClsId) (key : String) : Bool × List Nat × List Nat × List Nat :=
  (bases.foldl (fun (acc : BaseAcc) b =>
    match lookupMember w b key with
    | none => acc
    | some m => acc.add w (m.asFunc.bind w.checker?)) {}).result

/-- the accessor `which` (0 = fget, 1 = fset, 2 = fdel) of a property member -/
def Member.accessor (m : Member) (which : Nat) : Option FnId :=
  match m with
  | .prop g s d => if which = 0 then g else if which = 1 then s else d
  | _ => none

/-- the contracts of the bases' accessors; a base whose accessor IS the function `self` - the derived property took it over
unchanged (`@Base.prop.setter` keeps the base's getter object) - has nothing to hand down to it -/
def collectBasesProp (w : World) (bases : List ClsId) (key : String) (which : Nat) (self : FnId) :
    Bool × List Nat × List Nat × List Nat :=
  (bases.foldl (fun (acc : BaseAcc) b =>
    match lookupMember w b key with
    | none => acc
    | some m =>
      match m.accessor which with
      | none => acc
      | some f => if f == self then acc else acc.add w (w.checker? f)) {}).result

def firstDuplicate (w : World) (snaps : List Nat) : Option String :=
  let rec go (seen : List String) : List Nat → Option String
    | [] => none
    | s :: rest => if seen.contains (snapName w s) then some (snapName w s) else go (snapName w s :: seen) rest
  go [] snaps

/-- fresh cells holding the contents of the given cells -/
def copyCells (w : World) : List Ref → World × List Ref
  | [] => (w, [])
  | r :: rest =>
    let (h, r') := w.heap.alloc (w.heap.get r)
    let (w', rs) := copyCells { w with heap := h } rest
    (w', r' :: rs)

/-- `_decorate_namespace_function` / one accessor of `_decorate_namespace_property` for function `f` -/
def decorateOne (w : World) (key : String) (f : FnId) (inherit : Bool)
    (base : Bool × List Nat × List Nat × List Nat) : Except DefErr World :=
  let own := w.checker? f
  let ownPre := match own with | some ck => w.heap.get ck.pre | none => []
  let ownSnaps := match own with | some ck => w.heap.get ck.snaps | none => []
  let ownPosts := match own with | some ck => w.heap.get ck.posts | none => []
  if !inherit then
    -- `__init__` / `__new__`: nothing is collapsed; the attributes are re-bound to the very same lists
    .ok w
  else
    let (basesHaveFunc, bPre, bSnaps, bPosts) := base
    if bPre.isEmpty && basesHaveFunc && !ownPre.isEmpty then .error (.typeErrorWeaken key) else
    -- the groups collected from the bases are COPIED (`[list(group) for group in ...]`): the member never shares a
    -- group list with a base, so a later in-place `@require` on it cannot reach the base
    let (w, bCopies) := copyCells w bPre
    let pre := bCopies ++ ownPre
    let snaps := bSnaps ++ ownSnaps
    match firstDuplicate w snaps with
    | some n => .error (.valueErrorDuplicateSnapshot n)
    | none =>
    let posts := bPosts ++ ownPosts
    if pre.isEmpty && posts.isEmpty then .ok w else
    let (w, _) := ensureChecker w f
    let (h1, r1) := w.heap.alloc pre
    let (h2, r2) := h1.alloc snaps
    let (h3, r3) := h2.alloc posts
    .ok { w with heap := h3,
                 checkers := w.checkers.map (fun p => if p.1 == f then (f, { pre := r1, snaps := r2, posts := r3 }) else p) }

/-- the bases that have something to hand down to the function `f` bound under `key`: a base in which `key` IS `f` - the
member was taken over as it is (`m = Base.m`) - has not -/
def basesFor (w : World) (bases : List ClsId) (key : String) (f : FnId) : List ClsId :=
  bases.filter (fun b => (lookupMember w b key).bind Member.asFunc != some f)

def decorateMember (w : World) (bases : List ClsId) (key : String) (m : Member) : Except DefErr World :=
  match m with
  | .func f | .static f | .classm f =>
      decorateOne w key f (key != "__init__" && key != "__new__") (collectBases w (basesFor w bases key f) key)
  | .prop g s d => do
      let w ← (match g with | some f => decorateOne w key f true (collectBasesProp w bases key 0 f) | none => .ok w)
      let w ← (match s with | some f => decorateOne w key f true (collectBasesProp w bases key 1 f) | none => .ok w)
      (match d with | some f => decorateOne w key f true (collectBasesProp w bases key 2 f) | none => .ok w)
  | .other => .ok w

/-- `_collapse_invariants` for one dunder: a **fresh** merged list, stored whenever it is non-empty
or some base has the attribute (so the class never shares a list object with a base) -/
def collapseInv (w : World) (bases : List ClsId) (d : InvDunder) : World × Option Ref :=
  let merged := bases.foldl (fun acc b => match lookupInv w b d with
    | some r => acc ++ w.heap.get r
    | none => acc) []
  let basesHave := bases.any (fun b => (lookupInv w b d).isSome)
  if merged.isEmpty && !basesHave then (w, none)
  else
    let (h, r) := w.heap.alloc merged
    ({ w with heap := h }, some r)

/-! ### `add_invariant_checks`: which members get (re-)bound on the class -/

def setCls (w : World) (c : Cls) : World :=
  { w with classes := w.classes.map (fun x => if x.id == c.id then c else x) }

/-- the class that provides `key` for `k` (first in the MRO) together with the member -/
def lookupOwner (w : World) (k : ClsId) (key : String) : Option (ClsId × Member) :=
  match w.cls? k with
  | none => none
  | some c =>
    c.mro.findSome? (fun a => match w.cls? a with
      | some ca => (ca.ns.find? (·.1 == key)).map (fun p => (a, p.2))
      | none => none)

def isDunderName (s : String) : Bool := s.startsWith "__" && s.endsWith "__"

/-- would `add_invariant_checks` consider this directory entry for wrapping, given the union of the
`check_on` of the class's invariants (lines 1209-1273) -/
def wrapCandidate (last : CheckOn) (key : String) (m : Member) : Bool :=
  if key == "__new__" || key == "__repr__" || key == "__getattribute__" then false
  else if key == "__init__" then (match m with | .func _ => true | _ => false)
  else if key != "__setattr__" && !last.call then false
  else if key == "__setattr__" && !last.setattr then false
  else if key.startsWith "_" && !isDunderName key then false
  else match m with
    | .func _ => true
    | .prop _ _ _ => true
    | _ => false            -- static methods, class methods and other values are skipped

/-- all names `dir(cls)` shows that come from the modelled namespaces -/
def dirKeys (w : World) (c : Cls) : List String :=
  ((c.mro.map (fun a => match w.cls? a with | some ca => ca.ns.map (·.1) | none => [])).flatten).eraseDups

/-- `add_invariant_checks(cls)`: every candidate that is not yet an invariant wrapper is wrapped and
bound on `cls` itself - an inherited one is thereby copied down into `cls`'s namespace -/
def addInvariantChecks (w : World) (k : ClsId) : World :=
  match w.cls? k with
  | none => w
  | some c =>
    -- the union of the `check_on` of all invariants of the class decides what is wrapped
    let allOn : List CheckOn :=
      (match lookupInv w k .all with | some r => w.heap.get r | none => []).map (fun (cid : Nat) =>
        (match w.invCheckOn.find? (fun (p : CId × CheckOn) => p.1 == cid) with
         | some p => p.2
         | none => ({ call := true, setattr := false } : CheckOn)))
    let lastOn : CheckOn := { call := allOn.any (·.call), setattr := allOn.any (·.setattr) }
    let c' := (dirKeys w c).foldl (fun (c : Cls) key =>
      match lookupOwner (setCls w c) k key with
      | none => c
      | some (owner, m) =>
        if !wrapCandidate lastOn key m then c
        else
          let ownerWrapped := if owner == k then c.wrapped.contains key
            else match w.cls? owner with | some oc => oc.wrapped.contains key | none => false
          if ownerWrapped then c
          else if owner == k then { c with wrapped := c.wrapped ++ [key] }
          else { c with ns := c.ns ++ [(key, m)], wrapped := c.wrapped ++ [key] }) c
    setCls w c'

/-- `class K(*bases, metaclass=DBCMeta)` with the given namespace -/
def defineClass (w : World) (k : ClsId) (bases : List ClsId) (ns : List (String × Member)) (dbc : Bool)
    (registerHook : Bool := true) : Except DefErr World :=
  if !dbc then
    match computeMro w k bases with
    | none => .error .mroConflict
    | some mro => .ok { w with classes := w.classes ++ [{ id := k, bases := bases, ns := ns, dbc := false, mro := mro,
                                                          declared := ns.map (·.1) }] }
  else do
    let (w, i1) := collapseInv w bases .all
    let (w, i2) := collapseInv w bases .onCall
    let (w, i3) := collapseInv w bases .onSetattr
    let w ← ns.foldlM (fun w (p : String × Member) => decorateMember w bases p.1 p.2) w
    match computeMro w k bases with
    | none => .error .mroConflict
    | some mro =>
      .ok (
        let w' := { w with
          classes := w.classes ++ [{ id := k, bases := bases, ns := ns, inv := i1, invCall := i2, invSetattr := i3,
                                     dbc := true, mro := mro, declared := ns.map (·.1) }],
          hookCalls := if registerHook then w.hookCalls ++ [k] else w.hookCalls }
        -- `if hasattr(cls, "__invariants__"): add_invariant_checks(cls)`
        if (lookupInv w' k .all).isSome then addInvariantChecks w' k else w')

/-- What a REJECTED class statement leaves behind.  `DBCMeta.__new__` decorates the namespace BEFORE the class object is
created: the lists of a member function that already carried a checker are re-bound on that very checker, member by
member in namespace order, until a member is refused (weakening, duplicate snapshot names) - or for all of them when only
`type.__new__` fails afterwards (an inconsistent MRO).  Checkers newly created for functions without contracts live in the
abandoned namespace only.  (Not used by `defineClass` and its theorems: the driver applies it after a rejection so that
later operations on those functions see what the library sees.) -/
def defineClassResidue (w : World) (bases : List ClsId) : List (String × Member) → World
  | [] => w
  | (key, m) :: rest =>
    match decorateMember w bases key m with
    | .error _ => w
    | .ok w' =>
      -- keep the new lists only for the functions that had a checker before
      let w'' := { w' with checkers := w'.checkers.filter (fun p => (w.checker? p.1).isSome) }
      defineClassResidue w'' bases rest

/-! ### the `invariant` class decorator -/

/-- `invariant.__call__`: create the three lists if `__invariants__` is not reachable, otherwise
use whatever `getattr` finds (possibly a base's list), then append in place -/
def addInvariant (w : World) (k : ClsId) (c : CId) (on : CheckOn) : World :=
  match w.cls? k with
  | none => w
  | some cls =>
    let (w, rAll, rCall, rSet) :=
      match lookupInv w k .all with
      | none =>
        let (h1, r1) := w.heap.alloc []
        let (h2, r2) := h1.alloc []
        let (h3, r3) := h2.alloc []
        (setCls { w with heap := h3 } { cls with inv := some r1, invCall := some r2, invSetattr := some r3 }, r1, r2, r3)
      | some r1 =>
        (w, r1, (lookupInv w k .onCall).getD 0, (lookupInv w k .onSetattr).getD 0)
    let h := w.heap.append rAll c
    let h := if on.call then h.append rCall c else h
    let h := if on.setattr then h.append rSet c else h
    addInvariantChecks { w with heap := h, invCheckOn := w.invCheckOn ++ [(c, on)] } k

/-! ### observation: what introspection shows -/

/-- `__preconditions__` of function `f` as a list of groups of contract ids -/
def preOf (w : World) (f : FnId) : List (List Nat) :=
  match w.checker? f with
  | some ck => (w.heap.get ck.pre).map w.heap.get
  | none => []

def postsOf (w : World) (f : FnId) : List Nat :=
  match w.checker? f with | some ck => w.heap.get ck.posts | none => []

def snapsOf (w : World) (f : FnId) : List Nat :=
  match w.checker? f with | some ck => w.heap.get ck.snaps | none => []

def invOf (w : World) (k : ClsId) (d : InvDunder) : List Nat :=
  match lookupInv w k d with | some r => w.heap.get r | none => []

end Icontract.Meta
