/-
  Recovering the text of a decorator from the source file (icontract/_represent.py `inspect_decorator`, lines 249-289).
  The library knows one line number inside the decorator call (the frame's current line) and finds the extent of the
  decorator by two scans over the file's lines: upwards for a line that starts a decorator, downwards for the next
  line that starts a decorator, a `def` or a `class`.  Lines are classified by the library's own regular expressions
  (`_DECORATOR_RE`, `_DEF_CLASS_RE`); the classification is an input of the model.
-/
namespace Icontract.Src

inductive LineKind where
  | deco        -- `^\s*@[a-zA-Z_]`
  | defcls      -- `^\s*(async\s+def|def |class )`
  | other
deriving DecidableEq, Repr, Inhabited

inductive ScanErr where
  | badLineno        -- ValueError: the line number is outside the file
  | noDecorator      -- SyntaxError: no decorator line at or above the given line
  | noEnd            -- SyntaxError: no following statement
deriving DecidableEq, Repr, Inhabited

/-- `for i in range(lineno, -1, -1): if _DECORATOR_RE.match(lines[i])` -/
def findUp (ks : List LineKind) : Nat → Option Nat
  | 0 => if ks[0]? = some .deco then some 0 else none
  | i + 1 => if ks[i + 1]? = some .deco then some (i + 1) else findUp ks i

/-- `for i in range(start, len(lines)): if _DECORATOR_RE.match(line) or _DEF_CLASS_RE.match(line)` -/
def findDownAux : List LineKind → Nat → Option Nat
  | [], _ => none
  | k :: rest, i => if k = .deco ∨ k = .defcls then some i else findDownAux rest (i + 1)

def findDown (ks : List LineKind) (start : Nat) : Option Nat := findDownAux (ks.drop start) start

/-- the extent `[start, end)` of the decorator that contains line `lineno` -/
def scan (ks : List LineKind) (lineno : Nat) : Except ScanErr (Nat × Nat) :=
  if lineno ≥ ks.length then .error .badLineno else
  match findUp ks lineno with
  | none => .error .noDecorator
  | some s =>
    match findDown ks (lineno + 1) with
    | none => .error .noEnd
    | some e => .ok (s, e)

end Icontract.Src
