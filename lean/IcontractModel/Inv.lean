/-
  Which operations on an instance are guarded by invariant checks, and by which invariants
  (icontract/_checkers.py:1182-1303 `add_invariant_checks`, 1118-1122 selection of the list).
  Uses `Meta.wrapCandidate` - the same definition the class-history model uses for copy-down.
-/
import IcontractModel.Meta
namespace Icontract.Inv
open Icontract.Meta

inductive Guard where
  | none         -- not wrapped: no invariant is evaluated around the operation
  | onCall       -- wrapped; evaluates `__invariants_on_call__`
  | onSetattr    -- wrapped (`__setattr__`); evaluates `__invariants_on_setattr__`
  | ctor         -- constructor: all invariants once after it returns
deriving DecidableEq, Repr, Inhabited

/-- union of the `check_on` of the class's invariants -/
def unionOn (invs : List CheckOn) : CheckOn :=
  { call := invs.any (·.call), setattr := invs.any (·.setattr) }

/-- how a member of a class that the library processes (decorated, or created by the metaclass) is guarded -/
def guardOf (invs : List CheckOn) (name : String) (m : Member) : Guard :=
  if invs.isEmpty then .none
  else if !wrapCandidate (unionOn invs) name m then .none
  else if name == "__init__" then .ctor
  else if name == "__setattr__" then .onSetattr
  else .onCall

/-- indices of the invariants evaluated once around an operation with the given guard -/
def evaluatedOnce (invs : List CheckOn) : Guard → List Nat
  | .none => []
  | .onCall => (List.range invs.length).filter (fun i => match invs[i]? with | some c => c.call | none => false)
  | .onSetattr => (List.range invs.length).filter (fun i => match invs[i]? with | some c => c.setattr | none => false)
  | .ctor => List.range invs.length

/-- attribute assignment on a class without a Python-defined `__setattr__`: `object.__setattr__` (a slot
wrapper, dunder) is wrapped iff attribute-set checking was requested -/
def assignGuard (invs : List CheckOn) : Guard :=
  if (unionOn invs).setattr then .onSetattr else .none

/-! the property's own reading (Spec) -/

def isPublicOrDunder (name : String) : Bool := !name.startsWith "_" || isDunderName name

def exemptNames : List String := ["__new__", "__repr__", "__getattribute__"]

/-- must calls of this member be guarded by the on-call invariants? -/
def mustGuardOnCall (name : String) (m : Member) : Bool :=
  (match m with | .func _ => true | .prop _ _ _ => true | _ => false) &&
  isPublicOrDunder name && !exemptNames.contains name && name != "__init__" && name != "__setattr__"

end Icontract.Inv
