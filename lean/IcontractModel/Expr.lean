/-
  Condition expressions (the body of a lambda condition) for the re-evaluator model.
  Every node carries its identity `id` (the harness numbers the nodes of the real AST);
  operator, call, attribute, subscript and truth semantics are a parameter `Ops`
  (pure functions: the claims are about side-effect-free conditions), so that every theorem
  holds for all user types.
-/
namespace Icontract.Ex

inductive Val where
  | int (i : Int)
  | bool (b : Bool)
  | none
  | str (s : String)
  | list (xs : List Val)
  | obj (id : Nat)
  | fn (name : String)            -- functions, classes, modules, builtins: "not representable" values
  | tuple (xs : List Val)
  | set (xs : List Val)           -- produced by `Ops.mkSet` only (element order: whatever the instance chooses)
  | dict (ks : List Val) (vs : List Val)   -- produced by `Ops.dictSet` / `Ops.dictUpdate` only
  | slice (lo : Val) (hi : Val) (step : Val)
deriving Repr, Inhabited, BEq

abbrev Exc := String

inductive UnOp where
  | neg | pos | inv | not
deriving DecidableEq, Repr, Inhabited

/-- the kind of a display `[...]`, `(...)`, `{...}` -/
inductive CollKind where
  | list | tuple | set
deriving DecidableEq, Repr, Inhabited

/-- the conversion of a formatted value: none, `!s`, `!r`, `!a` -/
inductive Conv where
  | none | s | r | a
deriving DecidableEq, Repr, Inhabited

abbrev BinOp := String     -- "+", "-", "*", "//", "%", ...
abbrev CmpOp := String     -- "<", "<=", "==", "!=", "is", "in", ...

inductive Expr where
  | const (id : Nat) (v : Val)
  | name (id : Nat) (n : String)
  | attr (id : Nat) (e : Expr) (a : String)
  | subscr (id : Nat) (e : Expr) (i : Expr)
  | call (id : Nat) (f : Expr) (args : List Expr)
  | unary (id : Nat) (op : UnOp) (e : Expr)
  | bin (id : Nat) (op : BinOp) (l : Expr) (r : Expr)
  | boolop (id : Nat) (isAnd : Bool) (es : List Expr)
  | compare (id : Nat) (left : Expr) (rest : List (CmpOp × Expr))
  | ifexp (id : Nat) (c : Expr) (t : Expr) (e : Expr)
  | display (id : Nat) (es : List Expr)                       -- list display
  | comp (id : Nat) (targets : List String) (first : Expr) (inner : List Expr)
      -- comprehension: executed natively; `first` = the iterable of its first `for` (Python evaluates it in the ENCLOSING
      -- scope), `inner` = its other parts (element, filters, later iterables: evaluated in the comprehension's own scope)
  -- forms added in the second version of the model (`_recompute.py`: `_visit_elts`, `visit_Tuple`, `visit_Set`,
  -- `visit_Dict`, `visit_Slice`, the starred / keyword part of `visit_Call`, `visit_FormattedValue`, `visit_JoinedStr`)
  | starred (id : Nat) (e : Expr)                               -- `*e`: only meaningful as an element of `coll` / an argument of `callkw`
  | coll (id : Nat) (kind : CollKind) (es : List Expr)          -- tuple / set display, list display with starred elements
  | dict (id : Nat) (items : List (Option Expr × Expr))         -- `{k: v, **u}`: key `none` is an unpacking
  | slice (id : Nat) (lo : Option Expr) (hi : Option Expr) (step : Option Expr)
  | callkw (id : Nat) (f : Expr) (args : List Expr) (kws : List (Option String × Expr))   -- `f(a, *b, k=c, **d)`
  | fvalue (id : Nat) (e : Expr) (conv : Conv) (spec : Option Expr)   -- `{e!r:spec}` inside an f-string; `spec` is an f-string
  | fstring (id : Nat) (parts : List Expr)                      -- `f"..."`: constants and formatted values
deriving Repr, Inhabited

def Expr.id : Expr → Nat
  | .const i _ | .name i _ | .attr i _ _ | .subscr i _ _ | .call i _ _ | .unary i _ _ | .bin i _ _ _
  | .boolop i _ _ | .compare i _ _ | .ifexp i _ _ _ | .display i _ | .comp i _ _ _
  | .starred i _ | .coll i _ _ | .dict i _ | .slice i _ _ _ | .callkw i _ _ _ | .fvalue i _ _ _ | .fstring i _ => i

/-- the semantics of everything the expression does to values -/
structure Ops where
  unary : UnOp → Val → Except Exc Val           -- `not` goes through `truth`
  bin : BinOp → Val → Val → Except Exc Val
  cmp : CmpOp → Val → Val → Except Exc Val
  truth : Val → Except Exc Bool
  attr : Val → String → Except Exc Val
  subscr : Val → Val → Except Exc Val
  call : Val → List Val → Except Exc Val
  comp : Nat → List (String × Val) → Except Exc Val   -- native execution of comprehension `id` in a name table
  -- second version
  mkSet : List Val → Except Exc Val                   -- `set(xs)` (may raise: unhashable element)
  iter : Val → Except Exc (List Val)                  -- the elements of `*v`
  dictEmpty : Val                                     -- `{}`
  dictSet : Val → Val → Val → Except Exc Val          -- `d[k] = v` (may raise: unhashable key)
  dictUpdate : Val → Val → Except Exc Val             -- `d.update(u)` for `**u` in a dictionary display
  kwItems : Val → Except Exc (List (String × Val))    -- the pairs of `**v` in a call
  callkw : Val → List Val → List (String × Val) → Except Exc Val
  format : Val → Conv → Option Val → Except Exc Val   -- `"{!conv:spec}".format(v)`
  join : List Val → Except Exc Val                    -- `"".join(parts)`

/-- names: arguments > closure > globals (already merged by precedence), then the builtins -/
structure Env where
  names : List (String × Val)
  builtins : List (String × Val)

def lookup (l : List (String × Val)) (n : String) : Option Val :=
  match l with
  | [] => none
  | (k, v) :: rest => if k == n then some v else lookup rest n

abbrev Log := List (Nat × Val)

end Icontract.Ex
