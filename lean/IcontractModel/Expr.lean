/-
  Condition expressions (the body of a lambda condition) for the re-evaluator model.
  Every node carries its identity `id` (the harness numbers the nodes of the real AST);
  operator, call, attribute, subscript and truth semantics are a parameter `Ops`
  (pure functions: the claims are about side-effect-free conditions), so that every theorem
  holds for all user types.
-/
namespace Icontract.Ex

inductive Val where
  | int (i : Int)
  | bool (b : Bool)
  | none
  | str (s : String)
  | list (xs : List Val)
  | obj (id : Nat)
  | fn (name : String)            -- functions, classes, modules, builtins: "not representable" values
deriving Repr, Inhabited, BEq

abbrev Exc := String

inductive UnOp where
  | neg | pos | inv | not
deriving DecidableEq, Repr, Inhabited

abbrev BinOp := String     -- "+", "-", "*", "//", "%", ...
abbrev CmpOp := String     -- "<", "<=", "==", "!=", "is", "in", ...

inductive Expr where
  | const (id : Nat) (v : Val)
  | name (id : Nat) (n : String)
  | attr (id : Nat) (e : Expr) (a : String)
  | subscr (id : Nat) (e : Expr) (i : Expr)
  | call (id : Nat) (f : Expr) (args : List Expr)
  | unary (id : Nat) (op : UnOp) (e : Expr)
  | bin (id : Nat) (op : BinOp) (l : Expr) (r : Expr)
  | boolop (id : Nat) (isAnd : Bool) (es : List Expr)
  | compare (id : Nat) (left : Expr) (rest : List (CmpOp × Expr))
  | ifexp (id : Nat) (c : Expr) (t : Expr) (e : Expr)
  | display (id : Nat) (es : List Expr)                       -- list display
  | comp (id : Nat) (targets : List String) (inner : List Expr)  -- comprehension: executed natively, `inner` = its parts
deriving Repr, Inhabited

def Expr.id : Expr → Nat
  | .const i _ | .name i _ | .attr i _ _ | .subscr i _ _ | .call i _ _ | .unary i _ _ | .bin i _ _ _
  | .boolop i _ _ | .compare i _ _ | .ifexp i _ _ _ | .display i _ | .comp i _ _ => i

/-- the semantics of everything the expression does to values -/
structure Ops where
  unary : UnOp → Val → Except Exc Val           -- `not` goes through `truth`
  bin : BinOp → Val → Val → Except Exc Val
  cmp : CmpOp → Val → Val → Except Exc Val
  truth : Val → Except Exc Bool
  attr : Val → String → Except Exc Val
  subscr : Val → Val → Except Exc Val
  call : Val → List Val → Except Exc Val
  comp : Nat → List (String × Val) → Except Exc Val   -- native execution of comprehension `id` in a name table

/-- names: arguments > closure > globals (already merged by precedence), then the builtins -/
structure Env where
  names : List (String × Val)
  builtins : List (String × Val)

def lookup (l : List (String × Val)) (n : String) : Option Val :=
  match l with
  | [] => none
  | (k, v) :: rest => if k == n then some v else lookup rest n

abbrev Log := List (Nat × Val)

end Icontract.Ex
