/-
  Vocabulary about traces used by the statements of C02/C08/C11/C13/C16.
-/
import IcontractModel.Spec.Post
namespace Icontract

def Event.captureId : Event → Option SId
  | .capture s _ => some s
  | _ => none

/-- ids of the snapshots captured, in order -/
def capturesOf (t : Trace) : List SId := t.filterMap Event.captureId

def Event.isAwait : Event → Bool
  | .awaitCond _ | .awaitCapture _ => true
  | _ => false

/-- a computation with its await events removed -/
def Res.stripAwait (r : Res α) : Res α := ⟨r.trace.filter (fun e => !e.isAwait), r.out⟩

def Event.errFacId : Event → Option CId
  | .errFac c _ => some c
  | _ => none

def Event.msgId : Event → Option CId
  | .msg c => some c
  | _ => none

/-- all contracts a checker carries -/
def Checker.contracts (ck : Checker) : List Contract := ck.pre.flatten ++ ck.posts

/-- the same checker with every condition / capture declared as a plain (non-coroutine) function -/
def Checker.plain (ck : Checker) : Checker :=
  { ck with
    pre := ck.pre.map (fun g => g.map (fun c => { c with coroFn := false })),
    posts := ck.posts.map (fun c => { c with coroFn := false }),
    snaps := ck.snaps.map (fun s => { s with coroFn := false }) }

def Ans.awaited : Ans → Ans
  | .coro a => a
  | a => a

def Ans.isCoro : Ans → Bool
  | .coro _ => true
  | _ => false

/-- `o'` is `o` with every awaitable already awaited, relative to the checker `ck` -/
structure AwaitedOracle (ck : Checker) (o o' : Oracle) : Prop where
  cond : ∀ c ∈ ck.contracts, o'.cond c.id = if c.coroFn then o.cond c.id else (o.cond c.id).awaited
  capture : ∀ s ∈ ck.snaps, o'.capture s.id = if s.coroFn then o.capture s.id else (o.capture s.id).awaited
  condPlain : ∀ c ∈ ck.contracts, (o'.cond c.id).isCoro = false
  capturePlain : ∀ s ∈ ck.snaps, (o'.capture s.id).isCoro = false
  body : o'.body = o.body
  fac : o'.fac = o.fac
  msg : o'.msg = o.msg

end Icontract
