/-
  The program stripped of its contracts (reference point of the general C10 termination theorem:
  contracts add no divergence).
-/
import IcontractModel.Reentry
namespace Icontract.Re
/-- the same program with every contract removed: no preconditions, postconditions or invariants; bodies unchanged -/
def Program.bare (p : Program) : Program :=
  { p with fns := p.fns.map (fun d => { d with pre := [], post := [] }),
           classes := p.classes.map (fun c => { c with invs := [] }) }
end Icontract.Re
