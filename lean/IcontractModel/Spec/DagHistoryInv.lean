/-
  Class histories of arbitrary shape with class invariants, for the C04 / C17 invariant theorem: as
  Spec/DagHistory.lean, and every class is decorated with its own `@invariant`s right after it was created (the usual
  way of writing them: decorators on the class statement), i.e. before any subclass of it exists.
-/
import IcontractModel.Spec.DagHistory
namespace Icontract.Meta

structure ClassDefI where
  bases : List ClsId
  members : List (String × ChainLevel)
  invs : List (CId × CheckOn)          -- the class's own invariants, innermost decorator first
deriving Repr, Inhabited

def buildHistI : World → ClsId → List ClassDefI → Except DefErr World
  | w, _, [] => .ok w
  | w, k, d :: rest =>
      match defineClass (declareAll w d.members) k d.bases (d.members.map (fun p => (p.1, Member.func p.2.f))) true with
      | .error e => .error e
      | .ok w' => buildHistI (d.invs.foldl (fun w p => addInvariant w k p.1 p.2) w') (k + 1) rest

def allLevelsI (ds : List ClassDefI) : List ChainLevel := ds.flatMap (fun d => d.members.map (·.2))

/-- the invariants class `j + 1` declares, restricted to those checked on the given event -/
def ownInvOn (ds : List ClassDefI) (j : Nat) (d : InvDunder) : List CId :=
  match ds[j]? with
  | none => []
  | some c => (c.invs.filter (fun p => match d with
      | .all => true
      | .onCall => p.2.call
      | .onSetattr => p.2.setattr)).map (·.1)

def mroOf (w : World) (k : ClsId) : List ClsId := ((w.cls? k).map (·.mro)).getD []

def HistWfI (ds : List ClassDefI) : Prop :=
  ((allLevelsI ds).map (·.f)).Nodup ∧
  ((ds.flatMap (fun d => d.invs.map (·.1)))).Nodup ∧
  ∀ i (hi : i < ds.length),
    ((ds[i]).members.map (·.1)).Nodup ∧
    (∀ p ∈ (ds[i]).members, p.1 ≠ "__init__" ∧ p.1 ≠ "__new__") ∧
    (ds[i]).bases.Nodup ∧
    ∀ b ∈ (ds[i]).bases, 1 ≤ b ∧ b ≤ i

end Icontract.Meta
