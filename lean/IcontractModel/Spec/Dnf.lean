/-
  Reference semantics for C01/C02/C16: what "the effective precondition holds"
  means, stated without the wrapper's loops.
-/
import IcontractModel.Checker
namespace Icontract

/-- The object that is finally truth-tested: on a sync callable the condition's
return value (coroutine-function conditions and coroutine results are rejected,
`none`); on an async callable the awaited value. -/
def finalAns (isAsync : Bool) (c : Contract) (a : Ans) : Option Ans :=
  if isAsync then
    if c.coroFn then some a
    else match a with
      | .coro inner => some inner
      | a => some a
  else
    if c.coroFn then none
    else match a with
      | .coro _ => none
      | a => some a

/-- Python truthiness of the finally tested object (a coroutine object is truthy). -/
def ansTruthy : Ans → Bool
  | .val _ .truthy => true
  | .coro _ => true
  | _ => false

def ansFalsy : Ans → Bool
  | .val _ .falsy => true
  | _ => false

/-- The condition can be evaluated for this call and answers truthy. -/
def condTruthy (isAsync : Bool) (o : Oracle) (kw : Kwargs) (c : Contract) : Bool :=
  (missingNames c.mandatory kw).isEmpty &&
  match finalAns isAsync c (o.cond c.id) with
  | some a => ansTruthy a
  | none => false

/-- The condition can be evaluated for this call and answers falsy. -/
def condFalsy (isAsync : Bool) (o : Oracle) (kw : Kwargs) (c : Contract) : Bool :=
  (missingNames c.mandatory kw).isEmpty &&
  match finalAns isAsync c (o.cond c.id) with
  | some a => ansFalsy a
  | none => false

/-- Effective precondition: own conditions conjoined, groups as alternatives;
no precondition at all accepts every call. -/
def dnfHolds (isAsync : Bool) (o : Oracle) (kw : Kwargs) (groups : List (List Contract)) : Prop :=
  groups = [] ∨ ∃ g ∈ groups, ∀ c ∈ g, condTruthy isAsync o kw c = true

/-- Every condition answers with a plain truth value. -/
def totalOn (isAsync : Bool) (o : Oracle) (kw : Kwargs) (cs : List Contract) : Prop :=
  ∀ c ∈ cs, condTruthy isAsync o kw c = true ∨ condFalsy isAsync o kw c = true

/-- first condition of a group that does not answer truthy -/
def firstFalsy (isAsync : Bool) (o : Oracle) (kw : Kwargs) (g : List Contract) : Option Contract :=
  g.find? (fun c => !condTruthy isAsync o kw c)

/-- What building the error of `c` yields when nothing goes wrong in user code:
the contract's configured error (C09). `none` when the factory / message
generation raises, the factory returns a non-exception, or it asks for a name the call lacks. -/
def errorOf (o : Oracle) (kw : Kwargs) (c : Contract) : Option Raised :=
  match c.err with
  | .none => match o.msg c.id with | .ok => some (.viol c.id true) | _ => none
  | .fac args =>
      if (missingNames args kw).isEmpty then
        match o.fac c.id with | .exc e => some (.user e) | _ => none
      else none
  | .cls true t => match o.msg c.id with | .ok => some (.viol c.id t) | _ => none
  | .inst e => some (.user e)
  | _ => none

/-- the resolved keyword arguments of a call -/
def resolved (ck : Checker) (call : Call) : Kwargs :=
  kwargsFromCall ck.paramNames ck.kwdefaults call.args call.kwargs ck.posOnly

/-- The capture can be evaluated for this call and returns a value. -/
def captureTotal (isAsync : Bool) (o : Oracle) (kw : Kwargs) (s : Snapshot) : Bool :=
  (missingNames s.args kw).isEmpty &&
  if isAsync then
    (if s.coroFn then (match o.capture s.id with | .raises _ => false | _ => true)
     else match o.capture s.id with
       | .raises _ => false
       | .coro (.raises _) => false
       | _ => true)
  else
    !s.coroFn && (match o.capture s.id with | .val _ _ => true | _ => false)

def Event.isBody : Event → Bool
  | .body _ _ => true
  | _ => false

def Event.isCapture : Event → Bool
  | .capture _ _ => true
  | .awaitCapture _ => true
  | _ => false

/-- events that belong to evaluating a condition or building its error -/
def Event.isCheck : Event → Bool
  | .cond _ _ | .boolTest _ | .awaitCond _ | .errFac _ _ | .msg _ => true
  | _ => false

def bodyEntered (t : Trace) : Prop := ∃ ev ∈ t, ev.isBody = true
def captured (t : Trace) : Prop := ∃ ev ∈ t, ev.isCapture = true

end Icontract
