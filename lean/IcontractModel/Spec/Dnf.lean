/-
  Reference semantics for C01/C02/C16: what "the effective precondition holds"
  means, stated without the wrapper's loops.
-/
import IcontractModel.Checker
namespace Icontract

/-- The condition can be evaluated for this call and answers truthy. -/
def condTruthy (o : Oracle) (kw : Kwargs) (c : Contract) : Bool :=
  (missingNames c.mandatory kw).isEmpty && !c.coroFn &&
  match o.cond c.id with
  | .val _ .truthy => true
  | _ => false

/-- The condition can be evaluated for this call and answers falsy. -/
def condFalsy (o : Oracle) (kw : Kwargs) (c : Contract) : Bool :=
  (missingNames c.mandatory kw).isEmpty && !c.coroFn &&
  match o.cond c.id with
  | .val _ .falsy => true
  | _ => false

/-- Effective precondition: own conditions conjoined, groups as alternatives;
no precondition at all accepts every call. -/
def dnfHolds (o : Oracle) (kw : Kwargs) (groups : List (List Contract)) : Prop :=
  groups = [] ∨ ∃ g ∈ groups, ∀ c ∈ g, condTruthy o kw c = true

/-- Every condition answers with a plain truth value. -/
def totalOn (o : Oracle) (kw : Kwargs) (cs : List Contract) : Prop :=
  ∀ c ∈ cs, condTruthy o kw c = true ∨ condFalsy o kw c = true

/-- first falsy condition of a group -/
def firstFalsy (o : Oracle) (kw : Kwargs) : List Contract → Option Contract
  | [] => none
  | c :: cs => if condTruthy o kw c then firstFalsy o kw cs else some c

/-- Building the error of `c` neither raises nor yields a falsy exception object;
`errorOf` is what is built. -/
def errorOf (o : Oracle) (c : Contract) : Option Raised :=
  match c.err with
  | .none => match o.msg c.id with | .ok => some (.viol c.id true) | _ => none
  | .fac _ => match o.fac c.id with | .exc e => some (.user e) | _ => none
  | .cls true t => match o.msg c.id with | .ok => some (.viol c.id t) | _ => none
  | .inst e => some (.user e)
  | _ => none

def Event.isBody : Event → Bool
  | .body _ _ => true
  | _ => false

def Event.isCapture : Event → Bool
  | .capture _ _ => true
  | .awaitCapture _ => true
  | _ => false

/-- events that belong to evaluating a condition or building its error -/
def Event.isCheck : Event → Bool
  | .cond _ _ | .boolTest _ | .awaitCond _ | .errFac _ _ | .msg _ => true
  | _ => false

def bodyEntered (t : Trace) : Prop := ∃ ev ∈ t, ev.isBody = true
def captured (t : Trace) : Prop := ∃ ev ∈ t, ev.isCapture = true

end Icontract
