/-
  Reference semantics for C05: CPython's own binding of a call to a signature,
  stated declaratively (which calls are accepted, and which object each
  non-variadic parameter receives).  Validated on every run against
  `inspect.signature(f).bind` and against what an instrumented body receives.
-/
import IcontractModel.Sig
namespace Icontract

/-- well-formed signatures (what `def` accepts): kinds in order, at most one `*`/`**`
parameter, distinct names, positional defaults trailing -/
def Signature.kindsOrdered : Signature → Bool
  | [] => true
  | [_] => true
  | p :: q :: rest => p.kind.rank ≤ q.kind.rank && Signature.kindsOrdered (q :: rest)

def Signature.positional (sig : Signature) : List Param := sig.filter (·.isPositional)

def defaultsTrailing : List Param → Bool
  | [] => true
  | p :: rest => (if p.default.isSome then rest.all (·.default.isSome) else defaultsTrailing rest)

def Signature.wf (sig : Signature) : Bool :=
  sig.kindsOrdered &&
  (sig.filter (·.kind == .varPos)).length ≤ 1 &&
  (sig.filter (·.kind == .varKw)).length ≤ 1 &&
  (sig.map (·.name)).Nodup &&
  defaultsTrailing sig.positional &&
  sig.all (fun p => p.isVariadic → p.default.isNone)

def Signature.hasVarPos (sig : Signature) : Bool := sig.any (·.kind == .varPos)
def Signature.hasVarKw (sig : Signature) : Bool := sig.any (·.kind == .varKw)

def kwLookup (kwargs : List (String × Id)) (n : String) : Option Id :=
  match kwargs with
  | [] => none
  | (k, v) :: rest => if k == n then some v else kwLookup rest n

/-- index of a parameter among the positional ones -/
def posIndex (sig : Signature) (n : String) : Option Nat :=
  let names := sig.positional.map (·.name)
  if names.contains n then some (names.idxOf n) else none

/-- the object Python binds to the non-variadic parameter `p` (when the call is accepted) -/
def pyValue (sig : Signature) (args : List Id) (kwargs : List (String × Id)) (p : Param) : Option Id :=
  match p.kind with
  | .posOnly =>
      (match posIndex sig p.name with
       | some i => if i < args.length then args[i]? else p.default
       | none => p.default)
  | .posOrKw =>
      (match posIndex sig p.name with
       | some i => if i < args.length then args[i]? else
           (match kwLookup kwargs p.name with | some v => some v | none => p.default)
       | none => p.default)
  | .kwOnly => (match kwLookup kwargs p.name with | some v => some v | none => p.default)
  | _ => none

/-- does Python accept the call? -/
def pyAccepts (sig : Signature) (args : List Id) (kwargs : List (String × Id)) : Bool :=
  -- not too many positionals
  (args.length ≤ sig.positional.length || sig.hasVarPos) &&
  -- keyword keys are distinct (a dict)
  (kwargs.map (·.1)).Nodup &&
  -- every keyword is wanted exactly once
  kwargs.all (fun kv =>
    match sig.find? (fun p => p.name == kv.1 && !p.isVariadic) with
    | some p =>
        (match p.kind with
         | .posOrKw => (match posIndex sig p.name with | some i => args.length ≤ i | none => false)
         | .kwOnly => true
         | .posOnly => sig.hasVarKw          -- lands in `**kwargs`
         | _ => false)
    | none => sig.hasVarKw) &&
  -- every non-variadic parameter receives a value
  sig.all (fun p => p.isVariadic || (pyValue sig args kwargs p).isSome)

def reservedNames : List String := ["_ARGS", "_KWARGS", "result", "OLD"]

end Icontract
