/-
  Class histories of arbitrary shape (multiple inheritance, diamonds, gaps), for the general C04 theorem:
  classes `1, 2, ...` are defined one after the other; each names earlier classes as its bases and binds
  plain functions (each a fresh function object carrying its own stacked `@require`s - one group - and
  `@ensure`s) to member names.  No invariants, no properties, no late decorations: what is left is exactly the
  metaclass's collapse of preconditions and postconditions along an arbitrary inheritance graph.
-/
import IcontractModel.Spec.Override
import IcontractModel.Spec.ChainHistory
namespace Icontract.Meta

structure ClassDef where
  bases : List ClsId                         -- earlier classes, in the order written in the class statement
  members : List (String × ChainLevel)       -- member name -> the function object bound to it (with its own contracts)
deriving Repr, Inhabited

/-- the decorators of all functions of the class body are applied before the class is created -/
def declareAll (w : World) (ms : List (String × ChainLevel)) : World :=
  ms.foldl (fun w p => declareFn w p.2) w

/-- define the classes in order, numbering them from `k` -/
def buildHist : World → ClsId → List ClassDef → Except DefErr World
  | w, _, [] => .ok w
  | w, k, d :: rest =>
      match defineClass (declareAll w d.members) k d.bases (d.members.map (fun p => (p.1, Member.func p.2.f))) true with
      | .error e => .error e
      | .ok w' => buildHist w' (k + 1) rest

/-- what the history declares -/
def allLevels (ds : List ClassDef) : List ChainLevel := ds.flatMap (fun d => d.members.map (·.2))

def declsOf (ds : List ClassDef) : Decls where
  ownPre := fun f => match (allLevels ds).find? (fun l => l.f == f) with | some l => l.pre | none => []
  ownPosts := fun f => match (allLevels ds).find? (fun l => l.f == f) with | some l => l.posts | none => []
  ownSnaps := fun _ => []
  ownInv := fun _ => []

/-- well-formed histories: every function object is used once, member names of a class are distinct and are not
constructors, bases are distinct earlier classes (class `i`, 0-based, has id `i + 1`) -/
def HistWf (ds : List ClassDef) : Prop :=
  ((allLevels ds).map (·.f)).Nodup ∧
  ∀ i (hi : i < ds.length),
    ((ds[i]).members.map (·.1)).Nodup ∧
    (∀ p ∈ (ds[i]).members, p.1 ≠ "__init__" ∧ p.1 ≠ "__new__") ∧
    (ds[i]).bases.Nodup ∧
    ∀ b ∈ (ds[i]).bases, 1 ≤ b ∧ b ≤ i

end Icontract.Meta
