/-
  Single-inheritance class histories of arbitrary depth, for the C04 chain theorem:
  class `first`, class `first+1` deriving from it, ... each overriding the member `key`
  with a fresh function carrying its own stacked `@require`s (one group) and `@ensure`s.
-/
import IcontractModel.Meta
namespace Icontract.Meta

structure ChainLevel where
  f : FnId                 -- the function object the class body binds to `key`
  pre : List CId           -- its own preconditions (stacked decorators: one conjunctive group)
  posts : List CId         -- its own postconditions
deriving Repr, Inhabited

/-- the decorators of the function, applied before the class body is closed -/
def declareFn (w : World) (l : ChainLevel) : World :=
  l.posts.foldl (fun w c => addPost w l.f c) (l.pre.foldl (fun w c => addPre w l.f c) w)

/-- define the chain: every class has exactly the previous one as base and `[(key, f)]` as namespace -/
def buildChain (key : String) : World → Option ClsId → ClsId → List ChainLevel → Except DefErr World
  | w, _, _, [] => .ok w
  | w, base, k, l :: rest =>
      match defineClass (declareFn w l) k base.toList [(key, .func l.f)] true with
      | .error e => .error e
      | .ok w' => buildChain key w' (some k) (k + 1) rest

/-- the levels up to and including position `i` -/
def upTo (ls : List ChainLevel) (i : Nat) : List ChainLevel := ls.take (i + 1)

end Icontract.Meta
