/-
  Reference semantics for C06 / C07: Python's own evaluation of a condition expression -
  left to right, `and`/`or` short-circuit and yield the deciding operand, comparison chains
  evaluate each comparator at most once and stop at the first false link, a conditional
  expression evaluates one branch, a comprehension is one native evaluation; displays (with unpacking), slices,
  calls with starred / keyword arguments and f-strings evaluate their parts left to right.  The log records
  `(node id, value)` for every node evaluated outside comprehension scopes, in evaluation order.
  Validated on every run against an AST-instrumented CPython evaluation.
-/
import IcontractModel.Expr
namespace Icontract.Ex

/-- Python's scoping of the names of a lambda condition: parameters (locals), then the closure cells, then the
module globals (the builtins come last, see `Env`) - given as look-ups in this order -/
def pyScope (ls : List (List (String × Val))) : List (String × Val) := ls.flatten

/-- what a name means inside a lambda condition called with the keyword arguments `kwargs` (the call has gone through:
every parameter without a default is supplied): a PARAMETER is bound to the argument passed for it, else to its default;
any other name is a free variable - the closure cell of that name, else the global of the condition's module.  An argument
of the decorated function's call which the condition does not take plays no part. -/
def pyResolve (params : List (String × Option Val)) (kwargs closure globals : List (String × Val)) (n : String) : Option Val :=
  match params.find? (fun q => q.1 == n) with
  | some q =>
    (match lookup kwargs n with
     | some v => some v
     | none => q.2)
  | none =>
    (match lookup closure n with
     | some v => some v
     | none => lookup globals n)

mutual
def pyEval (ops : Ops) (env : Env) : Expr → Except Exc (Val × Log)
  | .const i v => .ok (v, [(i, v)])
  | .name i n =>
      match lookup env.names n with
      | some v => .ok (v, [(i, v)])
      | none =>
        match lookup env.builtins n with
        | some v => .ok (v, [(i, v)])
        | none => .error "NameError"
  | .attr i e a => do
      let (v, l) ← pyEval ops env e
      let r ← ops.attr v a
      pure (r, l ++ [(i, r)])
  | .subscr i e ix => do
      let (v, l1) ← pyEval ops env e
      let (k, l2) ← pyEval ops env ix
      let r ← ops.subscr v k
      pure (r, l1 ++ l2 ++ [(i, r)])
  | .call i f args => do
      let (fv, l0) ← pyEval ops env f
      let (avs, l1) ← pyEvalList ops env args
      let r ← ops.call fv avs
      pure (r, l0 ++ l1 ++ [(i, r)])
  | .unary i op e => do
      let (v, l) ← pyEval ops env e
      let r ← (match op with
        | .not => do let b ← ops.truth v; pure (Val.bool (!b))
        | op => ops.unary op v)
      pure (r, l ++ [(i, r)])
  | .bin i op l r => do
      let (a, l1) ← pyEval ops env l
      let (b, l2) ← pyEval ops env r
      let v ← ops.bin op a b
      pure (v, l1 ++ l2 ++ [(i, v)])
  | .boolop i isAnd es => do
      let (r, l) ← pyEvalBool ops env isAnd es
      pure (r, l ++ [(i, r)])
  | .compare i left rest => do
      let (lv, l0) ← pyEval ops env left
      let (r, l1) ← pyEvalCmp ops env lv rest
      pure (r, l0 ++ l1 ++ [(i, r)])
  | .ifexp i c t e => do
      let (cv, l0) ← pyEval ops env c
      let b ← ops.truth cv
      let (r, l1) ← (if b then pyEval ops env t else pyEval ops env e)
      pure (r, l0 ++ l1 ++ [(i, r)])
  | .display i es => do
      let (vs, l) ← pyEvalList ops env es
      pure (.list vs, l ++ [(i, .list vs)])
  | .comp i _ first _ => do
      -- the iterable of the first `for` is evaluated in the enclosing scope, before the comprehension's own scope exists;
      -- the comprehension itself is one native evaluation
      let (_, l0) ← pyEval ops env first
      let r ← ops.comp i env.names
      pure (r, l0 ++ [(i, r)])

  -- second version ------------------------------------------------------------------------------------
  | .starred _ _ => .error "SyntaxError"                  -- `*e` is not an expression on its own
  | .coll i kind es => do
      let (vs, l) ← pyEvalElts ops env es
      let r ← (match kind with
        | .list => .ok (Val.list vs)
        | .tuple => .ok (Val.tuple vs)
        | .set => ops.mkSet vs)
      pure (r, l ++ [(i, r)])
  | .dict i items => do
      let (d, l) ← pyEvalItems ops env ops.dictEmpty items
      pure (d, l ++ [(i, d)])
  | .slice i lo hi step => do
      let (l, l1) ← pyEvalOpt ops env lo
      let (h, l2) ← pyEvalOpt ops env hi
      let (s, l3) ← pyEvalOpt ops env step
      pure (.slice l h s, l1 ++ l2 ++ l3 ++ [(i, .slice l h s)])
  | .callkw i f args kws => do
      let (fv, l0) ← pyEval ops env f
      let (avs, l1) ← pyEvalElts ops env args
      let (kvs, l2) ← pyEvalKws ops env [] kws
      let r ← ops.callkw fv avs kvs
      pure (r, l0 ++ l1 ++ l2 ++ [(i, r)])
  | .fvalue _ e conv spec => do
      -- Python evaluates the value first, the format specification second; the formatted piece is not a node of its own
      let (v, l1) ← pyEval ops env e
      let (sp, l2) ← (match spec with
        | none => (.ok (none, []) : Except Exc (Option Val × Log))
        | some s => do
            let (r, l) ← pyEval ops env s
            pure (some r, l))
      let r ← ops.format v conv sp
      pure (r, l1 ++ l2)
  | .fstring i parts => do
      let (vs, l) ← pyEvalList ops env parts
      let r ← ops.join vs
      pure (r, l ++ [(i, r)])

/-- the elements of a display / the positional arguments of a call: `*e` is unpacked -/
def pyEvalElts (ops : Ops) (env : Env) : List Expr → Except Exc (List Val × Log)
  | [] => .ok ([], [])
  | .starred _ e :: rest => do
      let (s, l) ← pyEval ops env e
      let xs ← ops.iter s
      let (vs, l2) ← pyEvalElts ops env rest
      pure (xs ++ vs, l ++ l2)
  | e :: rest => do
      let (v, l) ← pyEval ops env e
      let (vs, l2) ← pyEvalElts ops env rest
      pure (v :: vs, l ++ l2)

/-- the keywords of a call, in order; a repeated keyword is a TypeError -/
def pyEvalKws (ops : Ops) (env : Env) (acc : List (String × Val)) : List (Option String × Expr) → Except Exc (List (String × Val) × Log)
  | [] => .ok (acc, [])
  | (some k, e) :: rest => do
      let (v, l) ← pyEval ops env e
      if acc.any (fun p => p.1 == k) then .error "TypeError"
      else do
        let (r, l2) ← pyEvalKws ops env (acc ++ [(k, v)]) rest
        pure (r, l ++ l2)
  | (none, e) :: rest => do
      let (u, l) ← pyEval ops env e
      let kvs ← ops.kwItems u
      let acc' ← kvs.foldlM (fun a p => if a.any (fun q => q.1 == p.1) then (.error "TypeError" : Except Exc _) else .ok (a ++ [p])) acc
      let (r, l2) ← pyEvalKws ops env acc' rest
      pure (r, l ++ l2)

/-- a dictionary display: key, then value, item by item -/
def pyEvalItems (ops : Ops) (env : Env) (d : Val) : List (Option Expr × Expr) → Except Exc (Val × Log)
  | [] => .ok (d, [])
  | (none, e) :: rest => do
      let (u, l) ← pyEval ops env e
      let d' ← ops.dictUpdate d u
      let (r, l2) ← pyEvalItems ops env d' rest
      pure (r, l ++ l2)
  | (some k, e) :: rest => do
      let (kv, l1) ← pyEval ops env k
      let (vv, l2) ← pyEval ops env e
      let d' ← ops.dictSet d kv vv
      let (r, l3) ← pyEvalItems ops env d' rest
      pure (r, l1 ++ l2 ++ l3)

def pyEvalOpt (ops : Ops) (env : Env) : Option Expr → Except Exc (Val × Log)
  | none => .ok (Val.none, [])
  | some e => pyEval ops env e

def pyEvalList (ops : Ops) (env : Env) : List Expr → Except Exc (List Val × Log)
  | [] => .ok ([], [])
  | e :: rest => do
      let (v, l) ← pyEval ops env e
      let (vs, l2) ← pyEvalList ops env rest
      pure (v :: vs, l ++ l2)

/-- `a and b and ...` / `a or b or ...`: the value is the deciding operand -/
def pyEvalBool (ops : Ops) (env : Env) (isAnd : Bool) : List Expr → Except Exc (Val × Log)
  | [] => .ok (.bool isAnd, [])
  | [e] => pyEval ops env e
  | e :: e2 :: rest => do
      let (v, l) ← pyEval ops env e
      let b ← ops.truth v
      if (isAnd && !b) || (!isAnd && b) then pure (v, l)
      else do
        let (r, l2) ← pyEvalBool ops env isAnd (e2 :: rest)
        pure (r, l ++ l2)

/-- `left op1 c1 op2 c2 ...`: a link is truth-tested only if another link follows -/
def pyEvalCmp (ops : Ops) (env : Env) (left : Val) : List (CmpOp × Expr) → Except Exc (Val × Log)
  | [] => .ok (.bool true, [])
  | [(op, e)] => do
      let (v, l) ← pyEval ops env e
      let r ← ops.cmp op left v
      pure (r, l)
  | (op, e) :: p2 :: rest => do
      let (v, l) ← pyEval ops env e
      let r ← ops.cmp op left v
      let b ← ops.truth r
      if !b then pure (r, l)
      else do
        let (r2, l2) ← pyEvalCmp ops env v (p2 :: rest)
        pure (r2, l ++ l2)
end

end Icontract.Ex
