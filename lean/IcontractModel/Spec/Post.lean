/-
  Reference semantics for C02 / C08: what the postcondition phase must do,
  stated without the wrapper's loops.
-/
import IcontractModel.Spec.Dnf
namespace Icontract

/-- value a capture yields (sync: its return value; async: the awaited value) -/
def captureValue (isAsync : Bool) (s : Snapshot) (a : Ans) : Option Id :=
  if isAsync then
    (if s.coroFn then (match a with | .val v _ => some v | .coro _ => some 0 | .raises _ => none)
     else match a with
       | .val v _ => some v
       | .coro (.val v _) => some v
       | .coro (.coro _) => some 0
       | _ => none)
  else
    if s.coroFn then none else match a with | .val v _ => some v | _ => none

/-- `OLD` as the postconditions must see it: snapshot name ↦ value captured before the body -/
def expectedOld (isAsync : Bool) (o : Oracle) (snaps : List Snapshot) : List (String × Id) :=
  snaps.filterMap (fun s => (captureValue isAsync s (o.capture s.id)).map (fun v => (s.name, v)))

/-- the keyword arguments postconditions are evaluated against -/
def postKwargs (ck : Checker) (kw : Kwargs) (old : List (String × Id)) (r : Id) : Kwargs :=
  (if !ck.posts.isEmpty && !ck.snaps.isEmpty then kw.set "OLD" (.old old) else kw).set "result" (.obj r)

/-- all postconditions hold -/
def cnfHolds (isAsync : Bool) (o : Oracle) (kw : Kwargs) (posts : List Contract) : Prop :=
  ∀ c ∈ posts, condTruthy isAsync o kw c = true

def Event.condId : Event → Option CId
  | .cond c _ => some c
  | _ => none

/-- ids of the conditions called, in order -/
def condsCalled (t : Trace) : List CId := t.filterMap Event.condId

end Icontract
