/-
  Reference semantics for C10 / C03(b): evaluation with an explicit stack of frames.
  It does not mention the library's in-progress set: a call is made *bare* (unchecked)
  exactly when the current stack says it is an own re-entry -

    function f:   some frame on the stack is evaluating f's contracts (pre / post);
    instance x:   some frame on the stack is x's constructor, a guarded method of x, or the
                  evaluation of x's invariants;
    constructor:  a constructor call on an instance already under construction
                  (`super().__init__()`) is part of that construction.

  Every other call is fully checked: a function's pre- and postconditions around its body (a
  recursive call made by the body is a new, checked call), a guarded method's invariants before and
  after, and all invariants once right after the outermost constructor returns.
-/
import IcontractModel.Reentry
namespace Icontract.Re

inductive Phase where
  | fnContract       -- a function's pre/postconditions are being evaluated
  | fnBody           -- a function's body runs
  | ctor             -- an instance is under construction
  | method           -- a guarded method of the instance runs (body)
  | invEval          -- the instance's invariants are being evaluated
deriving DecidableEq, Repr, Inhabited

structure Frame where
  key : Key
  phase : Phase
deriving DecidableEq, Repr, Inhabited

structure SSt where
  stack : List Frame := []
  tr : List Ev := []
deriving Repr, Inhabited

def SSt.push (st : SSt) (k : Key) (ph : Phase) : SSt := { st with stack := ⟨k, ph⟩ :: st.stack }
def SSt.pop (st : SSt) : SSt := { st with stack := st.stack.drop 1 }
def SSt.emit (st : SSt) (e : Ev) : SSt := { st with tr := st.tr ++ [e] }

/-- is a call of function `f` an own re-entry? -/
def SSt.fnSuspended (st : SSt) (f : FnId) : Bool :=
  st.stack.any (fun fr => fr.key == .fn f && fr.phase == .fnContract)

/-- is an operation on instance `i` an own re-entry? -/
def SSt.instSuspended (st : SSt) (i : InstId) : Bool :=
  st.stack.any (fun fr => fr.key == .inst i && (fr.phase == .ctor || fr.phase == .method || fr.phase == .invEval))

def SSt.underConstruction (st : SSt) (i : InstId) : Bool :=
  st.stack.any (fun fr => fr.key == .inst i && fr.phase == .ctor)

/-- run `c` inside a frame: push, run, pop (also when it raises) -/
def framed (k : Key) (ph : Phase) (st : SSt) (f : SSt → SSt × Out) : SSt × Out :=
  let r := f (st.push k ph)
  (r.1.pop, r.2)

def runSpec (p : Program) : Nat → SSt → Cmd → SSt × Out
  | 0, st, _ => (st, .timeout)
  | fuel + 1, st, cmd =>
    match cmd with
    | .script s => runSpec p fuel st (.acts s.actions)
    | .acts [] => (st, .ok)
    | .acts (a :: rest) =>
        (match runSpec p fuel st (.act a) with
         | (st', .ok) => runSpec p fuel st' (.acts rest)
         | r => r)
    | .pres _ _ [] => (st, .ok)
    | .pres f k (c :: cs) =>
        (match runSpec p fuel (st.emit (.cond f k)) (.script c) with
         | (st', .ok) => if c.truthy then runSpec p fuel st' (.pres f (k + 1) cs) else (st', .violPre f k)
         | r => r)
    | .posts _ _ [] => (st, .ok)
    | .posts f k (c :: cs) =>
        (match runSpec p fuel (st.emit (.post f k)) (.script c) with
         | (st', .ok) => if c.truthy then runSpec p fuel st' (.posts f (k + 1) cs) else (st', .violPost f k)
         | r => r)
    | .invs _ _ [] => (st, .ok)
    | .invs i k (c :: cs) =>
        (match runSpec p fuel (st.emit (.inv i k)) (.script c) with
         | (st', .ok) => if c.truthy then runSpec p fuel st' (.invs i (k + 1) cs) else (st', .violInv i k)
         | r => r)
    | .act (.callFn f) =>
        (match p.fn? f with
         | none => (st, .ok)
         | some d =>
           if st.fnSuspended f then
             framed (.fn f) .fnBody st (fun st => runSpec p fuel (st.emit (.body f)) (.script d.body))
           else
             match framed (.fn f) .fnContract st (fun st => runSpec p fuel st (.pres f 0 d.pre)) with
             | (st1, .ok) =>
               (match framed (.fn f) .fnBody st1 (fun st => runSpec p fuel (st.emit (.body f)) (.script d.body)) with
                | (st2, .ok) => framed (.fn f) .fnContract st2 (fun st => runSpec p fuel st (.posts f 0 d.post))
                | r => r)
             | r => r)
    | .act (.callMethod i m) =>
        (match (p.cls? (p.clsOf i)).bind (fun c => c.meths[m]?.map (fun md => (c, md))) with
         | none => (st, .ok)
         | some (c, md) =>
           if !md.guarded || st.instSuspended i then
             runSpec p fuel (st.emit (.methBody i m)) (.script md.body)
           else
             match framed (.inst i) .invEval st (fun st => runSpec p fuel st (.invs i 0 c.invs)) with
             | (st1, .ok) =>
               (match framed (.inst i) .method st1 (fun st => runSpec p fuel (st.emit (.methBody i m)) (.script md.body)) with
                | (st2, .ok) => framed (.inst i) .invEval st2 (fun st => runSpec p fuel st (.invs i 0 c.invs))
                | r => r)
             | r => r)
    | .act (.construct i) =>
        runSpec p fuel st (.act (.superInit i (p.clsOf i)))
    | .act (.superInit i cid) =>
        (match p.cls? cid with
         | none => (st, .ok)
         | some c =>
           if st.instSuspended i then
             -- part of a construction (or operation) already in progress: the bare `__init__`
             runSpec p fuel (st.emit (.initBody i cid)) (.script c.init)
           else
             match framed (.inst i) .ctor st (fun st => runSpec p fuel (st.emit (.initBody i cid)) (.script c.init)) with
             | (st1, .ok) =>
               let invs := ((p.cls? (p.clsOf i)).map (·.invs)).getD []
               framed (.inst i) .invEval st1 (fun st => runSpec p fuel st (.invs i 0 invs))
             | r => r)

/-- every constructor of the program carries the constructor wrapper (true for every class created
through the contract-inheriting metaclass; false for a plain subclass of a decorated class) -/
def Program.allCtorsWrapped (p : Program) : Bool := p.classes.all (·.initWrapped)

end Icontract.Re
