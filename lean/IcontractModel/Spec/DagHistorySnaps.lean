/-
  Class histories of arbitrary shape whose functions also carry `@snapshot`s, for the C08 inheritance theorem:
  as Spec/DagHistory.lean, but every function object has own snapshots (ids; their names come from the table
  `World.snapNames` the history starts with).  The decorators of a function are applied bottom-up as the library
  demands: `@ensure`s first, then the `@snapshot`s (a snapshot needs a postcondition below it), then the `@require`s.
-/
import IcontractModel.Spec.DagHistory
namespace Icontract.Meta

structure LevelS where
  f : FnId
  pre : List CId
  posts : List CId
  snaps : List Nat            -- snapshot ids, innermost decorator first
deriving Repr, Inhabited

structure ClassDefS where
  bases : List ClsId
  members : List (String × LevelS)
deriving Repr, Inhabited

def declareFnS (w : World) (l : LevelS) : Except DefErr World := do
  let w1 := l.posts.foldl (fun w c => addPost w l.f c) w
  let w2 ← l.snaps.foldlM (fun w s => addSnap w l.f s) w1
  pure (l.pre.foldl (fun w c => addPre w l.f c) w2)

def declareAllS (w : World) (ms : List (String × LevelS)) : Except DefErr World :=
  ms.foldlM (fun w p => declareFnS w p.2) w

def buildHistS : World → ClsId → List ClassDefS → Except DefErr World
  | w, _, [] => .ok w
  | w, k, d :: rest =>
      match declareAllS w d.members with
      | .error e => .error e
      | .ok w1 =>
        match defineClass w1 k d.bases (d.members.map (fun p => (p.1, Member.func p.2.f))) true with
        | .error e => .error e
        | .ok w' => buildHistS w' (k + 1) rest

def allLevelsS (ds : List ClassDefS) : List LevelS := ds.flatMap (fun d => d.members.map (·.2))

def declsOfS (ds : List ClassDefS) : Decls where
  ownPre := fun f => match (allLevelsS ds).find? (fun l => l.f == f) with | some l => l.pre | none => []
  ownPosts := fun f => match (allLevelsS ds).find? (fun l => l.f == f) with | some l => l.posts | none => []
  ownSnaps := fun f => match (allLevelsS ds).find? (fun l => l.f == f) with | some l => l.snaps | none => []
  ownInv := fun _ => []

def HistWfS (ds : List ClassDefS) : Prop :=
  ((allLevelsS ds).map (·.f)).Nodup ∧
  ∀ i (hi : i < ds.length),
    ((ds[i]).members.map (·.1)).Nodup ∧
    (∀ p ∈ (ds[i]).members, p.1 ≠ "__init__" ∧ p.1 ≠ "__new__") ∧
    (ds[i]).bases.Nodup ∧
    ∀ b ∈ (ds[i]).bases, 1 ≤ b ∧ b ≤ i

end Icontract.Meta
