/-
  Reference semantics for C04: effective contracts of a member along its override
  chain, computed from what each class *declares* (Liskov: preconditions OR-ed,
  postconditions and invariants AND-ed), without any of the metaclass's list surgery.
-/
import IcontractModel.Meta
namespace Icontract.Meta

/-- what the classes declare: own contracts per function object, invariants per class -/
structure Decls where
  ownPre : FnId → List Nat          -- own preconditions (one conjunctive group), innermost decorator first
  ownPosts : FnId → List Nat
  ownSnaps : FnId → List Nat
  ownInv : ClsId → List (Nat × CheckOn)

/-- effective precondition: `none` = accepts every call, `some groups` = disjunction of the groups -/
abbrev PreSpec := Option (List (List Nat))

def PreSpec.orElse (a b : PreSpec) : PreSpec :=
  match a, b with
  | some x, some y => some (x ++ y)
  | _, _ => none

/-- the member `key` as *declared* in the body of class `k` (members the invariant decorator copies
down from a base are not declarations) -/
def ownMember (w : World) (k : ClsId) (key : String) : Option Member :=
  (w.cls? k).bind (fun c => if c.declared.contains key then (c.ns.find? (·.1 == key)).map (·.2) else none)

/-- first class of the MRO of `k` that defines `key` -/
def provider (w : World) (k : ClsId) (key : String) : Option ClsId :=
  (w.cls? k).bind (fun c => c.mro.find? (fun a => (ownMember w a key).isSome))

/-- function object of accessor `which` (functions: `which` ignored) -/
def memberFn (m : Member) (which : Nat) : Option FnId :=
  match m with
  | .func f | .static f | .classm f => some f
  | .prop _ _ _ => m.accessor which
  | .other => none

/-- effective precondition of `key` (accessor `which`) as provided by class `k`, which defines it;
`fuel` bounds the depth of the hierarchy -/
def specPreAt (w : World) (d : Decls) (fuel : Nat) (k : ClsId) (key : String) (which : Nat) : PreSpec :=
  match fuel with
  | 0 => none
  | fuel + 1 =>
    match (ownMember w k key).bind (fun m => memberFn m which) with
    | none => none
    | some f =>
      let own := d.ownPre f
      let ownG : List (List Nat) := if own.isEmpty then [] else [own]
      if key == "__init__" || key == "__new__" then (if own.isEmpty then none else some ownG) else
      let parents := ((w.cls? k).map (·.bases)).getD [] |>.filterMap (fun b =>
        match provider w b key with
        | some p => if ((ownMember w p key).bind (fun m => memberFn m which)).isSome then some p else none
        | none => none)
      if parents.isEmpty then (if own.isEmpty then none else some ownG)
      else
        let ps := parents.map (fun p => specPreAt w d fuel p key which)
        if ps.any (·.isNone) then none     -- some ancestor accepts every call
        else some ((ps.filterMap id).flatten ++ ownG)

def specListAt (w : World) (own : FnId → List Nat) (fuel : Nat) (k : ClsId) (key : String) (which : Nat) : List Nat :=
  match fuel with
  | 0 => []
  | fuel + 1 =>
    match (ownMember w k key).bind (fun m => memberFn m which) with
    | none => []
    | some f =>
      if key == "__init__" || key == "__new__" then own f else
      let parents := ((w.cls? k).map (·.bases)).getD [] |>.filterMap (fun b =>
        match provider w b key with
        | some p => if ((ownMember w p key).bind (fun m => memberFn m which)).isSome then some p else none
        | none => none)
      (parents.map (fun p => specListAt w own fuel p key which)).flatten ++ own f

/-- must the class creation be rejected: own preconditions on a member some ancestor provides
with no precondition at all -/
def specRejects (w : World) (d : Decls) (fuel : Nat) (bases : List ClsId) (key : String) (which : Nat) (own : List Nat) : Bool :=
  if key == "__init__" || key == "__new__" then false else
  let parents := bases.filterMap (fun b =>
    match provider w b key with
    | some p => if ((ownMember w p key).bind (fun m => memberFn m which)).isSome then some p else none
    | none => none)
  !own.isEmpty && parents.any (fun p => (specPreAt w d fuel p key which).isNone)

/-- invariants an instance of `k` must satisfy: those declared on `k` and on all its ancestors -/
def specInv (w : World) (d : Decls) (k : ClsId) : List (Nat × CheckOn) :=
  match w.cls? k with
  | some c => (c.mro.map d.ownInv).flatten
  | none => []

end Icontract.Meta

namespace Icontract.Meta

/-- the list cells a checker owns: its three lists and the cells of its precondition groups -/
def cellsOf (w : World) (ck : CheckerObj) : List Ref := [ck.pre, ck.snaps, ck.posts] ++ w.heap.get ck.pre

/-- no two functions share a list cell (what makes a late in-place decoration local) -/
def Separated (w : World) : Prop :=
  ∀ f g ckf ckg, f ≠ g → w.checker? f = some ckf → w.checker? g = some ckg →
    ∀ r ∈ cellsOf w ckf, r ∉ cellsOf w ckg

/-- every reference held by a checker points into the heap, the cells of one checker are pairwise distinct,
and function ids occur once in the checker table -/
def CheckersWf (w : World) : Prop :=
  (w.checkers.map (·.1)).Nodup ∧
  ∀ f ck, w.checker? f = some ck → (cellsOf w ck).Nodup ∧ ∀ r ∈ cellsOf w ck, r < w.heap.length

end Icontract.Meta
