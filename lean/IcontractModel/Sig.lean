/-
  Function signatures and what `decorate_with_checker` pre-computes from them
  (icontract/_checkers.py:670-686): `param_names`, `kwdefaults`.
-/
import IcontractModel.Bind
namespace Icontract

inductive PKind where
  | posOnly | posOrKw | varPos | kwOnly | varKw
deriving DecidableEq, Repr, Inhabited

structure Param where
  name : String
  kind : PKind
  default : Option Id := none
deriving DecidableEq, Repr, Inhabited

abbrev Signature := List Param

def PKind.rank : PKind → Nat
  | .posOnly => 0 | .posOrKw => 1 | .varPos => 2 | .kwOnly => 3 | .varKw => 4

def Param.isVariadic (p : Param) : Bool := p.kind == .varPos || p.kind == .varKw
def Param.isPositional (p : Param) : Bool := p.kind == .posOnly || p.kind == .posOrKw

/-- `param_names`: the names positional arguments can be matched against - every parameter except
the keyword-only ones and `**kwargs` (the `*args` name stays: pinned by the test-suite). -/
def sigParamNames (sig : Signature) : List String :=
  (sig.filter (fun p => p.kind != .kwOnly && p.kind != .varKw)).map (·.name)

/-- `positional_only`: names of the positional-only parameters -/
def sigPosOnly (sig : Signature) : List String :=
  (sig.filter (fun p => p.kind == .posOnly)).map (·.name)

/-- `resolve_kwdefaults`: every parameter that has a default. -/
def sigKwdefaults (sig : Signature) : List (String × Id) :=
  sig.filterMap (fun p => p.default.map (fun d => (p.name, d)))

/-- the resolved keyword arguments of a call to a function with signature `sig` -/
def resolveCall (sig : Signature) (args : List Id) (kwargs : List (String × Id)) : Kwargs :=
  kwargsFromCall (sigParamNames sig) (sigKwdefaults sig) args kwargs (sigPosOnly sig)

end Icontract
