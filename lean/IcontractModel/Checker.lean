/-
  The contract checker wrapper (icontract/_checkers.py:216-533, 655-872).
  Sync and async are two separate definitions, as in the code.
-/
import IcontractModel.Bind
namespace Icontract

structure Oracle where
  cond : CId → Ans
  capture : SId → Ans
  body : BodyAns
  fac : CId → FacAns
  msg : CId → MsgAns

/-- `not_check` applied to the final object a condition produced. Returns `not check`. -/
def judge (c : Contract) : Ans → Res Bool
  | .val _ .truthy => do Res.emit (.boolTest c.id); pure false
  | .val _ .falsy => do Res.emit (.boolTest c.id); pure true
  | .val _ (.raises e) => do
      Res.emit (.boolTest c.id)
      if e.isException then Res.raise (.valueErr (.negateFailed c.id) (some e))
      else Res.raise (.user e)
  | .raises e => Res.raise (.user e)
  | .coro _ => pure false      -- a coroutine object is truthy and has no `__bool__`

/-- `_create_violation_error` (lines 216-285). -/
def createViolationError (o : Oracle) (c : Contract) (kw : Kwargs) : Res Raised :=
  match c.err with
  | .none => do
      Res.emit (.msg c.id)
      match o.msg c.id with
      | .ok => pure (.viol c.id true)
      | .raises e =>
          if e.isException then Res.raise (.runtimeErr c.id e) else Res.raise (.user e)
  | .fac args => do
      let sel ← selectErrorKwargs c.id args kw
      Res.emit (.errFac c.id sel)
      match o.fac c.id with
      | .exc e => pure (.user e)
      | .nonExc => Res.raise (.typeErr (.factoryNotException c.id))
      | .raises e => Res.raise (.user e)
  | .cls subBase truthy =>
      if !subBase then Res.raise (.typeErr (.classNotException c.id)) else do
      Res.emit (.msg c.id)
      match o.msg c.id with
      | .ok => pure (.viol c.id truthy)
      | .raises e => Res.raise (.user e)       -- not wrapped on this branch
  | .inst e => pure (.user e)
  | .other => Res.raise (.notImplemented c.id)

/-! ### sync -/

/-- one precondition of a sync callable (lines 350-374) -/
def evalPreSync (o : Oracle) (kw : Kwargs) (c : Contract) : Res Bool := do
  let sel ← selectConditionKwargs c kw
  if c.coroFn then Res.raise (.valueErr (.coroFnCondOnSync c.id) none) else do
  Res.emit (.cond c.id sel)
  match o.cond c.id with
  | .coro _ => Res.raise (.valueErr (.coroCondOnSync c.id) none)
  | a => judge c a

/-- one postcondition of a sync callable (lines 492-518): the coroutine-function test comes first -/
def evalPostSync (o : Oracle) (kw : Kwargs) (c : Contract) : Res Bool := do
  if c.coroFn then Res.raise (.valueErr (.coroFnCondOnSync c.id) none) else do
  let sel ← selectConditionKwargs c kw
  Res.emit (.cond c.id sel)
  match o.cond c.id with
  | .coro _ => Res.raise (.valueErr (.coroCondOnSync c.id) none)
  | a => judge c a

/-- the inner `for contract in group` loop: the violated contract of the group, if any -/
def checkGroupSync (o : Oracle) (kw : Kwargs) : List Contract → Res (Option Contract)
  | [] => pure none
  | c :: cs => do
      let notCheck ← evalPreSync o kw c
      if notCheck then pure (some c)
      else checkGroupSync o kw cs

/-- the outer `for group in preconditions` loop; `last` is the variable `violated_contract` -/
def assertPreSyncAux (o : Oracle) (kw : Kwargs) (last : Option Contract) :
    List (List Contract) → Res (Option Contract)
  | [] => pure last
  | g :: gs => do
      let r ← checkGroupSync o kw g
      match r with
      | none => pure none
      | some c => assertPreSyncAux o kw (some c) gs

/-- `_assert_preconditions`: the error is built once, after the loops,
for the violated contract of the last group tried -/
def assertPreSync (o : Oracle) (kw : Kwargs) (groups : List (List Contract)) : Res (Option Raised) := do
  let v ← assertPreSyncAux o kw none groups
  match v with
  | some c => do
      let e ← createViolationError o c kw
      pure (some e)
  | none => pure none

def assertPostSync (o : Oracle) (kw : Kwargs) : List Contract → Res (Option Raised)
  | [] => pure none
  | c :: cs => do
      let notCheck ← evalPostSync o kw c
      if notCheck then do
        let e ← createViolationError o c kw
        pure (some e)
      else assertPostSync o kw cs

/-- one class invariant (`_assert_invariant`): always evaluated synchronously - around `async def` methods too -
with `self` as the only argument it may take; a coroutine result is rejected, as for every sync evaluation -/
def evalInvariant (o : Oracle) (kw : Kwargs) (c : Contract) : Res Bool := do
  let sel ← selectConditionKwargs c kw
  Res.emit (.cond c.id sel)
  match o.cond c.id with
  | .coro _ => Res.raise (.valueErr (.coroCondOnSync c.id) none)
  | a => judge c a

/-- `for invariant in invariants: _assert_invariant(...)`: the first violated invariant raises its error -/
def assertInvariants (o : Oracle) (kw : Kwargs) : List Contract → Res Unit
  | [] => pure ()
  | c :: cs => do
      let notCheck ← evalInvariant o kw c
      if notCheck then do
        let e ← createViolationError o c kw
        Res.raise e
      else assertInvariants o kw cs

def captureOldSync (o : Oracle) (kw : Kwargs) (acc : List (String × Id)) :
    List Snapshot → Res (List (String × Id))
  | [] => pure acc
  | s :: ss => do
      if s.coroFn then Res.raise (.valueErr (.coroFnCaptureOnSync s.id) none) else do
      let sel ← selectCaptureKwargs s kw
      Res.emit (.capture s.id sel)
      match o.capture s.id with
      | .raises e => Res.raise (.user e)
      | .coro _ => Res.raise (.valueErr (.coroCaptureOnSync s.id) none)
      | .val v _ => captureOldSync o kw (acc ++ [(s.name, v)]) ss

structure Checker where
  fid : Id
  pre : List (List Contract) := []
  snaps : List Snapshot := []
  posts : List Contract := []
  paramNames : List String := []
  kwdefaults : List (String × Id) := []
  posOnly : List String := []
deriving Repr, Inhabited

structure Call where
  args : List Id := []
  kwargs : List (String × Id) := []
deriving Repr, Inhabited

/-- `func(*args, **kwargs)` -/
def runBody (o : Oracle) (call : Call) : Res Id := do
  Res.emit (.body call.args call.kwargs)
  match o.body with
  | .ret v => pure v
  | .raises e => Res.raise (.user e)

/-- `if violation_error is not None: raise violation_error` -/
def raiseIfSome (v : Option Raised) : Res Unit :=
  match v with
  | some e => Res.raise e
  | none => pure ()

/-- the checked path of the sync wrapper (lines 799-846) -/
def checkedSync (ck : Checker) (o : Oracle) (call : Call) : Res Id := do
  let kw := kwargsFromCall ck.paramNames ck.kwdefaults call.args call.kwargs ck.posOnly
  match assertResolvedKwargsValid (!ck.posts.isEmpty) kw with
  | some e => Res.raise e
  | none => do
  let v ← assertPreSync o kw ck.pre
  raiseIfSome v
  let kw ← (if !ck.posts.isEmpty && !ck.snaps.isEmpty then do
              let old ← captureOldSync o kw [] ck.snaps
              pure (kw.set "OLD" (.old old))
            else pure kw : Res Kwargs)
  let r ← runBody o call
  if !ck.posts.isEmpty then do
    let v ← assertPostSync o (kw.set "result" (.obj r)) ck.posts
    raiseIfSome v
    pure r
  else pure r

/-- the sync wrapper (lines 775-848): result and the in-progress set afterwards -/
def callSync (ck : Checker) (o : Oracle) (s : IdSet) (call : Call) : Res Id × IdSet :=
  match assertNoInvalidKwargs call.kwargs with
  | some e => (Res.raise e, s)
  | none =>
    if s.contains ck.fid then (runBody o call, s.discard ck.fid)
    else (checkedSync ck o call, (s.add ck.fid).discard ck.fid)

/-! ### async -/

/-- one condition of an async callable (lines 305-316 / 461-472) -/
def evalCondAsync (o : Oracle) (kw : Kwargs) (c : Contract) : Res Bool := do
  let sel ← selectConditionKwargs c kw
  Res.emit (.cond c.id sel)
  if c.coroFn then judge c (o.cond c.id)
  else match o.cond c.id with
    | .coro inner => do Res.emit (.awaitCond c.id); judge c inner
    | a => judge c a


def checkGroupAsync (o : Oracle) (kw : Kwargs) : List Contract → Res (Option Contract)
  | [] => pure none
  | c :: cs => do
      let notCheck ← evalCondAsync o kw c
      if notCheck then pure (some c)
      else checkGroupAsync o kw cs

/-- the outer `for group in preconditions` loop; `last` is the variable `violated_contract` -/
def assertPreAsyncAux (o : Oracle) (kw : Kwargs) (last : Option Contract) :
    List (List Contract) → Res (Option Contract)
  | [] => pure last
  | g :: gs => do
      let r ← checkGroupAsync o kw g
      match r with
      | none => pure none
      | some c => assertPreAsyncAux o kw (some c) gs

/-- `_assert_preconditions_async`: the error is built once, after the loops,
for the violated contract of the last group tried -/
def assertPreAsync (o : Oracle) (kw : Kwargs) (groups : List (List Contract)) : Res (Option Raised) := do
  let v ← assertPreAsyncAux o kw none groups
  match v with
  | some c => do
      let e ← createViolationError o c kw
      pure (some e)
  | none => pure none

def assertPostAsync (o : Oracle) (kw : Kwargs) : List Contract → Res (Option Raised)
  | [] => pure none
  | c :: cs => do
      let notCheck ← evalCondAsync o kw c
      if notCheck then do
        let e ← createViolationError o c kw
        pure (some e)
      else assertPostAsync o kw cs

def captureOldAsync (o : Oracle) (kw : Kwargs) (acc : List (String × Id)) :
    List Snapshot → Res (List (String × Id))
  | [] => pure acc
  | s :: ss => do
      let sel ← selectCaptureKwargs s kw
      Res.emit (.capture s.id sel)
      let a ← (if s.coroFn then pure (o.capture s.id)
               else match o.capture s.id with
                 | .coro inner => do Res.emit (.awaitCapture s.id); pure inner
                 | a => pure a : Res Ans)
      match a with
      | .raises e => Res.raise (.user e)
      | .coro _ => captureOldAsync o kw (acc ++ [(s.name, 0)]) ss   -- an un-awaited coroutine object is stored
      | .val v _ => captureOldAsync o kw (acc ++ [(s.name, v)]) ss

def checkedAsync (ck : Checker) (o : Oracle) (call : Call) : Res Id := do
  let kw := kwargsFromCall ck.paramNames ck.kwdefaults call.args call.kwargs ck.posOnly
  match assertResolvedKwargsValid (!ck.posts.isEmpty) kw with
  | some e => Res.raise e
  | none => do
  let v ← assertPreAsync o kw ck.pre
  raiseIfSome v
  let kw ← (if !ck.posts.isEmpty && !ck.snaps.isEmpty then do
              let old ← captureOldAsync o kw [] ck.snaps
              pure (kw.set "OLD" (.old old))
            else pure kw : Res Kwargs)
  let r ← runBody o call
  if !ck.posts.isEmpty then do
    let v ← assertPostAsync o (kw.set "result" (.obj r)) ck.posts
    raiseIfSome v
    pure r
  else pure r

def callAsync (ck : Checker) (o : Oracle) (s : IdSet) (call : Call) : Res Id × IdSet :=
  match assertNoInvalidKwargs call.kwargs with
  | some e => (Res.raise e, s)
  | none =>
    if s.contains ck.fid then (runBody o call, s.discard ck.fid)
    else (checkedAsync ck o call, (s.add ck.fid).discard ck.fid)

end Icontract
