/-
  Argument resolution: `kwargs_from_call`, `select_*_kwargs`, the reserved-name
  checks (icontract/_checkers.py:56-213, 536-606).
-/
import IcontractModel.Basic
namespace Icontract

/-- `kwargs_from_call` (lines 56-101): `_ARGS`, `_KWARGS`, the defaults, then
positionals by index into `param_names`, then the keywords. -/
def bindPositionals (paramNames : List String) (args : List Id) (kw : Kwargs) : Kwargs :=
  match paramNames, args with
  | p :: ps, a :: as => bindPositionals ps as (kw.set p (.obj a))
  | _, _ => kw      -- surplus positionals are silently ignored; missing ones too

/-- the keywords of the call; one named like a positional-only parameter does not refer to that
parameter (it lands in `**kwargs`) and is skipped -/
def bindKeywords (posOnly : List String) (kwargs : List (String × Id)) (kw : Kwargs) : Kwargs :=
  match kwargs with
  | [] => kw
  | (k, v) :: rest =>
      if posOnly.contains k then bindKeywords posOnly rest kw
      else bindKeywords posOnly rest (kw.set k (.obj v))

def bindDefaults (kwdefaults : List (String × Id)) (kw : Kwargs) : Kwargs :=
  match kwdefaults with
  | [] => kw
  | (k, v) :: rest => bindDefaults rest (kw.set k (.obj v))

def kwargsFromCall (paramNames : List String) (kwdefaults : List (String × Id))
    (args : List Id) (kwargs : List (String × Id)) (posOnly : List String := []) : Kwargs :=
  bindKeywords posOnly kwargs
    (bindPositionals paramNames args
      (bindDefaults kwdefaults [("_ARGS", .tuple args), ("_KWARGS", .dict kwargs)]))

/-- `_assert_no_invalid_kwargs` -/
def assertNoInvalidKwargs (kwargs : List (String × Id)) : Option Raised :=
  if kwargs.any (fun p => p.1 == "_ARGS") then some (.typeErr (.reservedKwarg "_ARGS"))
  else if kwargs.any (fun p => p.1 == "_KWARGS") then some (.typeErr (.reservedKwarg "_KWARGS"))
  else none

/-- `_assert_resolved_kwargs_valid` -/
def assertResolvedKwargsValid (hasPosts : Bool) (kw : Kwargs) : Option Raised :=
  if hasPosts then
    if kw.has "result" then some (.typeErr (.reservedResolved "result"))
    else if kw.has "OLD" then some (.typeErr (.reservedResolved "OLD"))
    else none
  else none

def missingNames (wanted : List String) (kw : Kwargs) : List String :=
  wanted.filter (fun n => !kw.has n)

/-- `select_condition_kwargs` -/
def selectConditionKwargs (c : Contract) (kw : Kwargs) : Res Kwargs :=
  let missing := missingNames c.mandatory kw
  if missing.isEmpty then pure (kw.restrict c.args)
  else Res.raise (.typeErr (.missingCondArgs c.id missing))

/-- `select_capture_kwargs` -/
def selectCaptureKwargs (s : Snapshot) (kw : Kwargs) : Res Kwargs :=
  let missing := missingNames s.args kw
  if missing.isEmpty then pure (kw.restrict s.args)
  else Res.raise (.typeErr (.missingCaptureArgs s.id missing))

/-- `select_error_kwargs` -/
def selectErrorKwargs (c : CId) (errArgs : List String) (kw : Kwargs) : Res Kwargs :=
  let missing := missingNames errArgs kw
  if missing.isEmpty then pure (kw.restrict errArgs)
  else Res.raise (.typeErr (.missingErrorArgs c missing))

end Icontract
