/-
  Re-entrancy: contracts that call contracted code (icontract/_checkers.py:785-848 for
  functions, 981-1161 for constructors / methods with invariants).

  User callables are *scripts*: a finite list of calls into contracted functions, guarded
  methods and constructors, then an answer.  The evaluator threads the in-progress set
  exactly as the wrappers manipulate it (membership test, add, `finally: discard`).
  The three places where the pinned upstream code departed from the property are kept as
  switches of a `Variant`, so that the model of the code *as it is* and the discipline the
  property demands are one definition:

    shortcutDiscards   the re-entrant short-cut of the function wrapper sits inside
                       `try/finally discard` (upstream) or before the `try`
    idDuringBody       the function's id stays in the set while its body runs (upstream) or only
                       while its contracts are evaluated
    ctorTestsMembership  the constructor wrapper calls the bare `__init__` when the instance is
                       already in progress (nested `super().__init__()`), or always re-arms
-/
namespace Icontract.Re

abbrev FnId := Nat
abbrev InstId := Nat
abbrev ClsId := Nat
abbrev MethId := Nat

inductive Key where
  | fn (f : FnId)
  | inst (i : InstId)
deriving DecidableEq, Repr, Inhabited

inductive Action where
  | callFn (f : FnId)
  | callMethod (inst : InstId) (m : MethId)
  | construct (inst : InstId)                    -- `K(...)` for the class of `inst`
  | superInit (inst : InstId) (cls : ClsId)      -- `super().__init__()` reaching class `cls`'s `__init__`
deriving DecidableEq, Repr, Inhabited

structure Script where
  actions : List Action := []
  truthy : Bool := true            -- the answer when the script is a condition / invariant
deriving DecidableEq, Repr, Inhabited

structure FnDecl where
  pre : List Script := []
  post : List Script := []
  body : Script := {}
deriving Repr, Inhabited

structure MethDecl where
  guarded : Bool := true           -- wrapped with invariant checks (public / dunder) or not
  body : Script := {}
deriving Repr, Inhabited

structure ClsDecl where
  invs : List Script := []         -- effective invariants of instances of this class
  init : Script := {}
  initWrapped : Bool := true       -- `__init__` carries the constructor wrapper
  meths : List MethDecl := []
deriving Repr, Inhabited

structure Program where
  fns : List FnDecl := []
  classes : List ClsDecl := []
  instCls : List ClsId := []       -- class of every instance id
deriving Repr, Inhabited

structure Variant where
  shortcutDiscards : Bool
  idDuringBody : Bool
  ctorTestsMembership : Bool
deriving DecidableEq, Repr, Inhabited

/-- the pinned upstream code -/
def Variant.upstream : Variant := { shortcutDiscards := true, idDuringBody := true, ctorTestsMembership := false }
/-- the discipline the property demands (and the repaired code implements) -/
def Variant.repaired : Variant := { shortcutDiscards := false, idDuringBody := false, ctorTestsMembership := true }

inductive Ev where
  | cond (f : FnId) (k : Nat)          -- k-th precondition of f evaluated
  | post (f : FnId) (k : Nat)
  | body (f : FnId)
  | inv (i : InstId) (k : Nat)         -- k-th invariant evaluated on instance i
  | initBody (i : InstId) (c : ClsId)
  | methBody (i : InstId) (m : MethId)
deriving DecidableEq, Repr, Inhabited

inductive Out where
  | ok
  | violPre (f : FnId) (k : Nat)
  | violPost (f : FnId) (k : Nat)
  | violInv (i : InstId) (k : Nat)
  | timeout
deriving DecidableEq, Repr, Inhabited

structure St where
  s : List Key := []
  tr : List Ev := []
deriving Repr, Inhabited

def St.add (st : St) (k : Key) : St := if st.s.contains k then st else { st with s := k :: st.s }
def St.discard (st : St) (k : Key) : St := { st with s := st.s.filter (· != k) }
def St.emit (st : St) (e : Ev) : St := { st with tr := st.tr ++ [e] }

/-- what remains to be run -/
inductive Cmd where
  | script (s : Script)                                   -- run the actions (the answer is read by the caller)
  | acts (as : List Action)
  | act (a : Action)
  | pres (f : FnId) (k : Nat) (cs : List Script)          -- remaining preconditions of f, next index k
  | posts (f : FnId) (k : Nat) (cs : List Script)
  | invs (i : InstId) (k : Nat) (cs : List Script)
deriving Repr, Inhabited

def Program.fn? (p : Program) (f : FnId) : Option FnDecl := p.fns[f]?
def Program.clsOf (p : Program) (i : InstId) : ClsId := (p.instCls[i]?).getD 0
def Program.cls? (p : Program) (c : ClsId) : Option ClsDecl := p.classes[c]?

/-- the evaluator; `fuel` bounds the nesting depth (Python's recursion limit) -/
def run (p : Program) (v : Variant) : Nat → St → Cmd → St × Out
  | 0, st, _ => (st, .timeout)
  | fuel + 1, st, cmd =>
    match cmd with
    | .script s => run p v fuel st (.acts s.actions)
    | .acts [] => (st, .ok)
    | .acts (a :: rest) =>
        (match run p v fuel st (.act a) with
         | (st', .ok) => run p v fuel st' (.acts rest)
         | r => r)
    | .pres _ _ [] => (st, .ok)
    | .pres f k (c :: cs) =>
        (match run p v fuel (st.emit (.cond f k)) (.script c) with
         | (st', .ok) => if c.truthy then run p v fuel st' (.pres f (k + 1) cs) else (st', .violPre f k)
         | r => r)
    | .posts _ _ [] => (st, .ok)
    | .posts f k (c :: cs) =>
        (match run p v fuel (st.emit (.post f k)) (.script c) with
         | (st', .ok) => if c.truthy then run p v fuel st' (.posts f (k + 1) cs) else (st', .violPost f k)
         | r => r)
    | .invs _ _ [] => (st, .ok)
    | .invs i k (c :: cs) =>
        (match run p v fuel (st.emit (.inv i k)) (.script c) with
         | (st', .ok) => if c.truthy then run p v fuel st' (.invs i (k + 1) cs) else (st', .violInv i k)
         | r => r)
    | .act (.callFn f) =>
        (match p.fn? f with
         | none => (st, .ok)
         | some d =>
           if st.s.contains (.fn f) then
             -- re-entrant short-cut: the bare function
             let (st', o) := run p v fuel (st.emit (.body f)) (.script d.body)
             (if v.shortcutDiscards then st'.discard (.fn f) else st', o)
           else
             let st := st.add (.fn f)
             -- everything below is inside `try: ... finally: discard`
             let fin (r : St × Out) : St × Out := (r.1.discard (.fn f), r.2)
             match run p v fuel st (.pres f 0 d.pre) with
             | (st1, .ok) =>
               let stB := if v.idDuringBody then st1 else st1.discard (.fn f)
               (match run p v fuel (stB.emit (.body f)) (.script d.body) with
                | (st2, .ok) =>
                  let stP := if v.idDuringBody then st2 else st2.add (.fn f)
                  fin (run p v fuel stP (.posts f 0 d.post))
                | r => fin r)
             | r => fin r)
    | .act (.callMethod i m) =>
        (match (p.cls? (p.clsOf i)).bind (fun c => c.meths[m]?.map (fun md => (c, md))) with
         | none => (st, .ok)
         | some (c, md) =>
           if !md.guarded || st.s.contains (.inst i) then
             run p v fuel (st.emit (.methBody i m)) (.script md.body)
           else
             let st := st.add (.inst i)
             let fin (r : St × Out) : St × Out := (r.1.discard (.inst i), r.2)
             match run p v fuel st (.invs i 0 c.invs) with
             | (st1, .ok) =>
               (match run p v fuel (st1.emit (.methBody i m)) (.script md.body) with
                | (st2, .ok) => fin (run p v fuel st2 (.invs i 0 c.invs))
                | r => fin r)
             | r => fin r)
    | .act (.construct i) =>
        run p v fuel st (.act (.superInit i (p.clsOf i)))
    | .act (.superInit i cid) =>
        (match p.cls? cid with
         | none => (st, .ok)
         | some c =>
           if !c.initWrapped || (v.ctorTestsMembership && st.s.contains (.inst i)) then
             run p v fuel (st.emit (.initBody i cid)) (.script c.init)
           else
             let st := st.add (.inst i)
             let fin (r : St × Out) : St × Out := (r.1.discard (.inst i), r.2)
             match run p v fuel (st.emit (.initBody i cid)) (.script c.init) with
             | (st1, .ok) =>
               -- `for invariant in instance.__class__.__invariants__`
               let invs := ((p.cls? (p.clsOf i)).map (·.invs)).getD []
               fin (run p v fuel st1 (.invs i 0 invs))
             | r => fin r)

end Icontract.Re
