/-
  The re-evaluator that builds violation messages (icontract/_recompute.py `Visitor`, as repaired):
  it interprets the condition's AST node by node, recording a value for every node it computes
  (`recomputed_values`).  `none` stands for the PLACEHOLDER marker (a comprehension target or an
  unknown name); an operand that is a placeholder makes the enclosing node a placeholder, but the
  remaining operands are still visited so that their values get collected.
  The log is kept also when the visit raises (what was recorded before stays recorded).
-/
import IcontractModel.Expr
namespace Icontract.Ex

/-- name table of the visitor: a name bound to `none` is a comprehension target (PLACEHOLDER) -/
abbrev Tbl := List (String × Option Val)

def lookupT (t : Tbl) (n : String) : Option (Option Val) :=
  match t with
  | [] => none
  | (k, v) :: rest => if k == n then some v else lookupT rest n

def Tbl.shadow (t : Tbl) (targets : List String) : Tbl :=
  (targets.map (fun n => (n, none))) ++ t

def Tbl.hasPlaceholder (t : Tbl) : Bool := t.any (fun p => p.2.isNone)

def Tbl.values (t : Tbl) : List (String × Val) :=
  t.filterMap (fun p => p.2.map (fun v => (p.1, v)))

/-- result of a visit: the log recorded so far and the value (or PLACEHOLDER) or the exception -/
structure VRes (α : Type) where
  log : Log
  out : Except Exc α

def VRes.ok (a : α) : VRes α := ⟨[], .ok a⟩
def VRes.err (e : Exc) : VRes α := ⟨[], .error e⟩
def VRes.lift (x : Except Exc α) : VRes α := ⟨[], x⟩
def VRes.record (i : Nat) (v : Val) : VRes Unit := ⟨[(i, v)], .ok ()⟩
def VRes.bind (x : VRes α) (f : α → VRes β) : VRes β :=
  match x.out with
  | .error e => ⟨x.log, .error e⟩
  | .ok a => let y := f a; ⟨x.log ++ y.log, y.out⟩

instance : Monad VRes where
  pure := VRes.ok
  bind := VRes.bind

/-- `kwargs[k] = v` -/
def kwPut (acc : List (String × Option Val)) (k : String) (v : Option Val) : List (String × Option Val) :=
  if acc.any (fun p => p.1 == k) then acc.map (fun p => if p.1 == k then (k, v) else p) else acc ++ [(k, v)]

mutual
def visit (ops : Ops) (bi : List (String × Val)) (tbl : Tbl) : Expr → VRes (Option Val)
  | .const i v => do VRes.record i v; pure (some v)
  | .name i n =>
      match lookupT tbl n with
      | some (some v) => do VRes.record i v; pure (some v)
      | some none => pure none                 -- a comprehension target: not recorded
      | none =>
        match lookup bi n with
        | some v => do VRes.record i v; pure (some v)
        | none => pure none                    -- unknown name: PLACEHOLDER
  | .attr i e a => do
      let v? ← visit ops bi tbl e
      match v? with
      | none => pure none
      | some v => do
          let r ← VRes.lift (ops.attr v a)
          VRes.record i r
          pure (some r)
  | .subscr i e ix => do
      let v? ← visit ops bi tbl e
      let k? ← visit ops bi tbl ix
      match v?, k? with
      | some v, some k => do
          let r ← VRes.lift (ops.subscr v k)
          VRes.record i r
          pure (some r)
      | _, _ => pure none
  | .call i f args => do
      let f? ← visit ops bi tbl f
      match f? with
      | none => pure none
      | some fv => do
          let avs ← visitList ops bi tbl args
          if avs.any Option.isNone then pure none
          else do
            let r ← VRes.lift (ops.call fv (avs.filterMap id))
            VRes.record i r
            pure (some r)
  | .unary i op e => do
      let v? ← visit ops bi tbl e
      match v? with
      | none => pure none
      | some v => do
          let r ← VRes.lift (match op with
            | .not => do let b ← ops.truth v; pure (Val.bool (!b))
            | op => ops.unary op v)
          VRes.record i r
          pure (some r)
  | .bin i op l r => do
      let a? ← visit ops bi tbl l
      let b? ← visit ops bi tbl r
      match a?, b? with
      | some a, some b => do
          let v ← VRes.lift (ops.bin op a b)
          VRes.record i v
          pure (some v)
      | _, _ => pure none
  | .boolop i isAnd es => do
      let r? ← visitBool ops bi tbl isAnd false none es
      match r? with
      | none => pure none
      | some r => do VRes.record i r; pure (some r)
  | .compare i left rest => do
      let l? ← visit ops bi tbl left
      let r? ← visitCmp ops bi tbl l?.isNone l? none rest
      match r? with
      | none => pure none
      | some r => do VRes.record i r; pure (some r)
  | .ifexp i c t e => do
      let c? ← visit ops bi tbl c
      match c? with
      | none => pure none
      | some cv => do
          let b ← VRes.lift (ops.truth cv)
          let r? ← (if b then visit ops bi tbl t else visit ops bi tbl e)
          match r? with
          | none => pure none
          | some r => do VRes.record i r; pure (some r)
  | .display i es => do
      let vs ← visitList ops bi tbl es
      if vs.any Option.isNone then pure none
      else do
        VRes.record i (.list (vs.filterMap id))
        pure (some (.list (vs.filterMap id)))
  | .comp i targets first inner => do
      -- collect the values unrelated to the targets: best effort, a failure is ignored; the first iterable is visited
      -- in the enclosing scope (the targets are not bound there), the other parts with the targets as placeholders
      (⟨(visit ops bi tbl first).log, .ok ()⟩ : VRes Unit)     -- `try: visit(first) except Exception: pass`
      harvest ops bi (tbl.shadow targets) inner
      if tbl.hasPlaceholder then pure none
      else do
        let r ← VRes.lift (ops.comp i tbl.values)
        VRes.record i r
        pure (some r)

  -- second version ------------------------------------------------------------------------------------
  | .starred _ _ => VRes.err "NotImplementedError"        -- `generic_visit`: a starred expression is handled by its parent only
  | .coll i kind es => do
      let vs ← visitElts ops bi tbl es
      -- `tuple(elts)` / `set(elts)` is built BEFORE the placeholder test (PLACEHOLDER itself is hashable)
      let r ← VRes.lift (match kind with
        | .list => .ok (Val.list (vs.filterMap id))
        | .tuple => .ok (Val.tuple (vs.filterMap id))
        | .set => ops.mkSet (vs.filterMap id))
      if vs.any Option.isNone then pure none
      else do VRes.record i r; pure (some r)
  | .dict i items => do
      let (d, ph) ← visitItems ops bi tbl ops.dictEmpty false items
      if ph then pure none
      else do VRes.record i d; pure (some d)
  | .slice i lo hi step => do
      let l? ← visitOpt ops bi tbl lo
      let h? ← visitOpt ops bi tbl hi
      let s? ← visitOpt ops bi tbl step
      match l?, h?, s? with
      | some l, some h, some s => do
          VRes.record i (.slice l h s)
          pure (some (.slice l h s))
      | _, _, _ => pure none
  | .callkw i f args kws => do
      let f? ← visit ops bi tbl f
      match f? with
      | none => pure none
      | some fv => do
          let avs? ← visitArgs ops bi tbl args
          match avs? with
          | none => pure none                               -- a starred argument is PLACEHOLDER: immediate return
          | some avs => do
              let kvs ← visitKws ops bi tbl [] kws
              if avs.any Option.isNone || kvs.any (fun p => p.2.isNone) then pure none
              else do
                let r ← VRes.lift (ops.callkw fv (avs.filterMap id) (kvs.filterMap (fun p => p.2.map (fun v => (p.1, v)))))
                VRes.record i r
                pure (some r)
  | .fvalue _ e conv spec => do
      -- the format specification is visited first, the value second; the result is not recorded
      let sp? ← (match spec with
        | none => (pure (some none) : VRes (Option (Option Val)))
        | some sp => do
            let r? ← visit ops bi tbl sp
            pure (r?.map some))
      let v? ← visit ops bi tbl e
      match sp?, v? with
      | some sp, some v => do
          let r ← VRes.lift (ops.format v conv sp)
          pure (some r)
      | _, _ => pure none
  | .fstring i parts => do
      let vs ← visitList ops bi tbl parts
      if vs.any Option.isNone then pure none
      else do
        let r ← VRes.lift (ops.join (vs.filterMap id))
        VRes.record i r
        pure (some r)

/-- `_visit_elts`: a starred element is unpacked, a PLACEHOLDER one stays one element -/
def visitElts (ops : Ops) (bi : List (String × Val)) (tbl : Tbl) : List Expr → VRes (List (Option Val))
  | [] => pure []
  | .starred _ e :: rest => do
      let s? ← visit ops bi tbl e
      match s? with
      | none => do
          let vs ← visitElts ops bi tbl rest
          pure (none :: vs)
      | some s => do
          let xs ← VRes.lift (ops.iter s)
          let vs ← visitElts ops bi tbl rest
          pure (xs.map some ++ vs)
  | e :: rest => do
      let v ← visit ops bi tbl e
      let vs ← visitElts ops bi tbl rest
      pure (v :: vs)

/-- the argument loop of `visit_Call`: `none` = a starred argument was PLACEHOLDER (the visitor returns at once) -/
def visitArgs (ops : Ops) (bi : List (String × Val)) (tbl : Tbl) : List Expr → VRes (Option (List (Option Val)))
  | [] => pure (some [])
  | .starred _ e :: rest => do
      let s? ← visit ops bi tbl e
      match s? with
      | none => pure none
      | some s => do
          let xs ← VRes.lift (ops.iter s)
          let vs? ← visitArgs ops bi tbl rest
          pure (vs?.map (fun vs => xs.map some ++ vs))
  | e :: rest => do
      let v ← visit ops bi tbl e
      let vs? ← visitArgs ops bi tbl rest
      pure (vs?.map (fun vs => v :: vs))

/-- the keyword loop of `visit_Call`: `kwargs[name] = value`, a later keyword of the same name replaces the earlier;
`**PLACEHOLDER` fails with AttributeError (`PLACEHOLDER.items()`) -/
def visitKws (ops : Ops) (bi : List (String × Val)) (tbl : Tbl) (acc : List (String × Option Val)) :
    List (Option String × Expr) → VRes (List (String × Option Val))
  | [] => pure acc
  | (some k, e) :: rest => do
      let v ← visit ops bi tbl e
      visitKws ops bi tbl (kwPut acc k v) rest
  | (none, e) :: rest => do
      let u? ← visit ops bi tbl e
      match u? with
      | none => VRes.err "AttributeError"
      | some u => do
          let kvs ← VRes.lift (ops.kwItems u)
          visitKws ops bi tbl (kvs.foldl (fun a p => kwPut a p.1 (some p.2)) acc) rest

/-- the loop of `visit_Dict`: for `k: v` the VALUE is visited first, then the key (`d[visit(k)] = visit(v)`); an item with
a PLACEHOLDER is not stored (the dictionary is discarded anyway) -/
def visitItems (ops : Ops) (bi : List (String × Val)) (tbl : Tbl) (d : Val) (ph : Bool) :
    List (Option Expr × Expr) → VRes (Val × Bool)
  | [] => pure (d, ph)
  | (none, e) :: rest => do
      let u? ← visit ops bi tbl e
      match u? with
      | none => visitItems ops bi tbl d true rest
      | some u => do
          let d' ← VRes.lift (ops.dictUpdate d u)
          visitItems ops bi tbl d' ph rest
  | (some k, e) :: rest => do
      let v? ← visit ops bi tbl e
      let k? ← visit ops bi tbl k
      match k?, v? with
      | some kv, some vv => do
          let d' ← VRes.lift (ops.dictSet d kv vv)
          visitItems ops bi tbl d' ph rest
      | _, _ => visitItems ops bi tbl d true rest

/-- an optional bound of a slice: absent = `None` (nothing recorded) -/
def visitOpt (ops : Ops) (bi : List (String × Val)) (tbl : Tbl) : Option Expr → VRes (Option Val)
  | none => pure (some Val.none)
  | some e => visit ops bi tbl e

def visitList (ops : Ops) (bi : List (String × Val)) (tbl : Tbl) : List Expr → VRes (List (Option Val))
  | [] => pure []
  | e :: rest => do
      let v ← visit ops bi tbl e
      let vs ← visitList ops bi tbl rest
      pure (v :: vs)

/-- every part is visited in its own `try: ... except Exception: pass`; what it recorded stays -/
def harvest (ops : Ops) (bi : List (String × Val)) (tbl : Tbl) : List Expr → VRes Unit
  | [] => pure ()
  | e :: rest =>
      let r := visit ops bi tbl e
      let r2 := harvest ops bi tbl rest
      ⟨r.log ++ r2.log, .ok ()⟩

/-- the `for value_node in node.values` loop of `visit_BoolOp`; `last` is the variable `result` -/
def visitBool (ops : Ops) (bi : List (String × Val)) (tbl : Tbl) (isAnd : Bool) (hasPh : Bool) (last : Option Val) :
    List Expr → VRes (Option Val)
  | [] => pure (if hasPh then none else last)
  | e :: rest => do
      let r? ← visit ops bi tbl e
      match r? with
      | none => visitBool ops bi tbl isAnd true none rest
      | some v =>
        if hasPh then visitBool ops bi tbl isAnd true (some v) rest
        else if rest.isEmpty then
          -- the last operand is never truth-tested: it is the result as-is
          visitBool ops bi tbl isAnd false (some v) rest
        else do
          let b ← VRes.lift (ops.truth v)
          if (isAnd && !b) || (!isAnd && b) then pure (some v)
          else visitBool ops bi tbl isAnd false (some v) rest

/-- the loop of `visit_Compare`; `left` / `result` are the loop variables -/
def visitCmp (ops : Ops) (bi : List (String × Val)) (tbl : Tbl) (hasPh : Bool) (left : Option Val) (result : Option Val) :
    List (CmpOp × Expr) → VRes (Option Val)
  | [] => pure (if hasPh then none else result)
  | (op, e) :: rest => do
      let c? ← visit ops bi tbl e
      match c?, left, hasPh with
      | some c, some l, false => do
          let r ← VRes.lift (ops.cmp op l c)
          if rest.isEmpty then visitCmp ops bi tbl false (some c) (some r) rest
          else do
            let b ← VRes.lift (ops.truth r)
            if !b then pure (some r)
            else visitCmp ops bi tbl false (some c) (some r) rest
      | _, _, _ => visitCmp ops bi tbl true left result rest
end

/-- the visitor's initial table: arguments > closure > globals, all bound to real values -/
def Tbl.ofNames (names : List (String × Val)) : Tbl := names.map (fun p => (p.1, some p.2))

/-- `Visitor.__init__`: the look-ups (arguments, closure, globals - in this order) are merged name by name,
"if name not in self._name_to_value": the first look-up that has a name wins -/
def Tbl.insertIfAbsent (t : Tbl) (n : String) (v : Val) : Tbl :=
  if (lookupT t n).isSome then t else t ++ [(n, some v)]

def Tbl.addLookup (t : Tbl) (l : List (String × Val)) : Tbl := l.foldl (fun t p => t.insertIfAbsent p.1 p.2) t

def Tbl.ofLookups (ls : List (List (String × Val))) : Tbl := ls.foldl Tbl.addLookup []

/-- a parameter of the condition: its name and its default value, if it has one -/
abbrev CondParam := String × Option Val

/-- `collect_variable_lookup`, the look-up of the condition's own variables: of the arguments of the call only those which
the condition takes (the other arguments of the call are no variables of the condition), then the default values of the
condition's parameters which the call does not supply -/
def condLookup (params : List CondParam) (kwargs : List (String × Val)) : List (String × Val) :=
  let own := kwargs.filter (fun p => params.any (fun q => q.1 == p.1))
  own ++ params.filterMap (fun q =>
    match q.2 with
    | some d => if (lookup own q.1).isSome then none else some (q.1, d)
    | none => none)

/-- the visitor's table for a call: the condition's own variables, then its closure, then the globals of its module -/
def Tbl.ofCall (params : List CondParam) (kwargs closure globals : List (String × Val)) : Tbl :=
  Tbl.ofLookups [condLookup params kwargs, closure, globals]

/-- the table as it was built before the repairs e84b442 / dece18e: EVERY argument of the call was a variable of the
condition, and the defaults of the condition's own parameters were unknown -/
def Tbl.ofCallUpstream (kwargs closure globals : List (String × Val)) : Tbl :=
  Tbl.ofLookups [kwargs, closure, globals]

/-! ids of all nodes / of the nodes inside comprehensions (Python evaluates those in the comprehension's own scope) -/
mutual
def allIds : Expr → List Nat
  | .const i _ => [i]
  | .name i _ => [i]
  | .attr i e _ => i :: allIds e
  | .subscr i e ix => i :: (allIds e ++ allIds ix)
  | .call i f args => i :: (allIds f ++ allIdsList args)
  | .unary i _ e => i :: allIds e
  | .bin i _ l r => i :: (allIds l ++ allIds r)
  | .boolop i _ es => i :: allIdsList es
  | .compare i left rest => i :: (allIds left ++ allIdsCmp rest)
  | .ifexp i c t e => i :: (allIds c ++ allIds t ++ allIds e)
  | .display i es => i :: allIdsList es
  | .comp i _ first inner => i :: (allIds first ++ allIdsList inner)
  | .starred i e => i :: allIds e
  | .coll i _ es => i :: allIdsList es
  | .dict i items => i :: allIdsItems items
  | .slice i lo hi step => i :: (allIdsOpt lo ++ allIdsOpt hi ++ allIdsOpt step)
  | .callkw i f args kws => i :: (allIds f ++ allIdsList args ++ allIdsKws kws)
  | .fvalue i e _ spec => i :: (allIds e ++ allIdsOpt spec)
  | .fstring i parts => i :: allIdsList parts
def allIdsList : List Expr → List Nat
  | [] => []
  | e :: rest => allIds e ++ allIdsList rest
def allIdsCmp : List (CmpOp × Expr) → List Nat
  | [] => []
  | (_, e) :: rest => allIds e ++ allIdsCmp rest
def allIdsItems : List (Option Expr × Expr) → List Nat
  | [] => []
  | (k, e) :: rest => allIdsOpt k ++ allIds e ++ allIdsItems rest
def allIdsKws : List (Option String × Expr) → List Nat
  | [] => []
  | (_, e) :: rest => allIds e ++ allIdsKws rest
def allIdsOpt : Option Expr → List Nat
  | none => []
  | some e => allIds e
end

mutual
def innerIds : Expr → List Nat
  | .const _ _ => []
  | .name _ _ => []
  | .attr _ e _ => innerIds e
  | .subscr _ e ix => innerIds e ++ innerIds ix
  | .call _ f args => innerIds f ++ innerIdsList args
  | .unary _ _ e => innerIds e
  | .bin _ _ l r => innerIds l ++ innerIds r
  | .boolop _ _ es => innerIdsList es
  | .compare _ left rest => innerIds left ++ innerIdsCmp rest
  | .ifexp _ c t e => innerIds c ++ innerIds t ++ innerIds e
  | .display _ es => innerIdsList es
  | .comp _ _ first inner => innerIds first ++ allIdsList inner
  | .starred _ e => innerIds e
  | .coll _ _ es => innerIdsList es
  | .dict _ items => innerIdsItems items
  | .slice _ lo hi step => innerIdsOpt lo ++ innerIdsOpt hi ++ innerIdsOpt step
  | .callkw _ f args kws => innerIds f ++ innerIdsList args ++ innerIdsKws kws
  | .fvalue _ e _ spec => innerIds e ++ innerIdsOpt spec
  | .fstring _ parts => innerIdsList parts
def innerIdsList : List Expr → List Nat
  | [] => []
  | e :: rest => innerIds e ++ innerIdsList rest
def innerIdsCmp : List (CmpOp × Expr) → List Nat
  | [] => []
  | (_, e) :: rest => innerIds e ++ innerIdsCmp rest
def innerIdsItems : List (Option Expr × Expr) → List Nat
  | [] => []
  | (k, e) :: rest => innerIdsOpt k ++ innerIds e ++ innerIdsItems rest
def innerIdsKws : List (Option String × Expr) → List Nat
  | [] => []
  | (_, e) :: rest => innerIds e ++ innerIdsKws rest
def innerIdsOpt : Option Expr → List Nat
  | none => []
  | some e => innerIds e
end

end Icontract.Ex
