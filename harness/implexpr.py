"""Expression-domain materialiser (C06 / C07 / C20).

A case is a lambda condition (Python source of its body) over fixed argument names plus a
falsifying environment.  For each case:

* ORACLE: the same expression is evaluated by CPython with every sub-expression (outside
  comprehension scopes) wrapped in a recording call - what Python really evaluates, with which
  values, in which order, under its own short-circuiting;
* IMPLEMENTATION: a real `@icontract.require(lambda ...: <expr>)` in a scratch module file
  (the library recovers the condition text from the file), called with the environment; the raised
  exception and its message are parsed back into (sub-expression, rendered value) lines;
  `icontract._recompute.Visitor` is observed through a recording subclass (secondary channel).
"""
import ast
import importlib.util
import os
import re
import reprlib
import shutil
import sys
import tempfile

import common

icontract = common.assert_repo_import()
import icontract._recompute as _rc  # noqa: E402

ARGS = ["x", "y", "xs", "s", "o", "d", "n"]


class Obj:
    """A record object with attributes and a method (side-effect free)."""

    def __init__(self, a, b):
        self.a = a
        self.b = b

    def m(self, k):
        return self.a + k

    def __repr__(self):
        return "Obj(a=%r, b=%r)" % (self.a, self.b)


def make_env(envd):
    e = dict(envd)
    e["o"] = Obj(e.pop("oa"), e.pop("ob"))
    return e


# --------------------------------------------------------------------------
# oracle: AST-instrumented CPython evaluation


class _Instrument(ast.NodeTransformer):
    """Wrap every load-context expression outside comprehension scopes in `H_rec(k, <expr>)`."""

    def __init__(self):
        self.nodes = []      # k -> original node
        self.depth = 0       # comprehension nesting

    def _wrap(self, orig, new):
        if self.depth > 0:
            return new
        k = len(self.nodes)
        self.nodes.append(orig)
        return ast.copy_location(ast.Call(func=ast.Name(id="H_rec", ctx=ast.Load()), args=[ast.Constant(k), new], keywords=[]), orig)

    def visit(self, node):
        if not isinstance(node, ast.expr):
            return super().visit(node)
        if isinstance(node, (ast.Starred,)):
            node.value = self.visit(node.value)
            return node
        if isinstance(getattr(node, "ctx", None), (ast.Store, ast.Del)):
            return node
        if isinstance(node, (ast.ListComp, ast.SetComp, ast.DictComp, ast.GeneratorExp)):
            orig = node
            # the first iterable is evaluated in the enclosing scope
            first = node.generators[0].iter
            node.generators[0].iter = self.visit(first)
            self.depth += 1
            if isinstance(node, ast.DictComp):
                node.key = self.visit(node.key)
                node.value = self.visit(node.value)
            else:
                node.elt = self.visit(node.elt)
            for gi, g in enumerate(node.generators):
                if gi > 0:
                    g.iter = self.visit(g.iter)
                g.ifs = [self.visit(i) for i in g.ifs]
            self.depth -= 1
            return self._wrap(orig, node)
        if isinstance(node, ast.NamedExpr):
            orig = node
            node.value = self.visit(node.value)
            return self._wrap(orig, node)
        if isinstance(node, ast.FormattedValue):
            node.value = self.visit(node.value)
            if node.format_spec is not None:
                node.format_spec = self.visit(node.format_spec)
            return node
        if isinstance(node, ast.JoinedStr):
            orig = node
            node.values = [self.visit(v) if isinstance(v, ast.FormattedValue) else v for v in node.values]
            return self._wrap(orig, node)
        if isinstance(node, ast.Slice):
            for f in ("lower", "upper", "step"):
                if getattr(node, f) is not None:
                    setattr(node, f, self.visit(getattr(node, f)))
            return node
        import copy as _copy
        orig = _copy.deepcopy(node)
        new = self.generic_visit(node)
        return self._wrap(orig, new)


def oracle(expr_src, env, closure, glob):
    """Returns dict(value=..., exc=..., evaluated=[(k, node, value)]) of CPython's own evaluation."""
    tree = ast.parse(expr_src, mode="eval")
    ins = _Instrument()
    new = ins.visit(tree.body)
    ast.fix_missing_locations(new)
    code = compile(ast.Expression(new), "<oracle>", "eval")
    rec = []

    def H_rec(k, v):
        rec.append((k, v))
        return v

    g = dict(glob)
    g.update(closure)
    g["H_rec"] = H_rec
    out = {"nodes": ins.nodes}
    try:
        out["value"] = eval(code, g, dict(env))
        out["exc"] = None
    except BaseException as e:  # noqa: B902
        out["value"] = None
        out["exc"] = type(e).__name__
    out["evaluated"] = rec
    return out


# --------------------------------------------------------------------------
# implementation side


class Scratch:
    """A scratch directory with generated modules; removed on close."""

    def __init__(self):
        self.dir = tempfile.mkdtemp(prefix="verif_expr_")
        self.n = 0

    def module(self, src):
        self.n += 1
        name = "verif_expr_mod_%d_%d" % (os.getpid(), self.n)
        path = os.path.join(self.dir, name + ".py")
        with open(path, "w") as fh:
            fh.write(src)
        spec = importlib.util.spec_from_file_location(name, path)
        mod = importlib.util.module_from_spec(spec)
        sys.modules[name] = mod
        spec.loader.exec_module(mod)
        return mod, name

    def close(self):
        shutil.rmtree(self.dir, ignore_errors=True)
        for k in [k for k in sys.modules if k.startswith("verif_expr_mod_%d_" % os.getpid())]:
            del sys.modules[k]


LAYOUTS = ["oneline", "multiline", "keyword", "comments", "neighbours", "nested", "description"]


def module_source(cases, glob_src):
    """One module with one decorated function per case (layout variants of the decorator)."""
    lines = ["import icontract", "import functools", glob_src, ""]
    lines.append("def make_all(cl, A_REPRS):")
    lines.append("    fs = {}")
    for i, c in enumerate(cases):
        layout = c.get("layout", "oneline")
        lam = "lambda %s: %s" % (", ".join(c.get("params", ARGS)), c["expr"])
        extra = ", a_repr=A_REPRS[%d]" % i if c.get("a_repr") else ""
        ind = "    "
        if layout == "oneline":
            lines.append(ind + "@icontract.require(%s%s)" % (lam, extra))
        elif layout == "description":
            lines.append(ind + "@icontract.require(%s, 'descr %d'%s)" % (lam, i, extra))
        elif layout == "multiline":
            lines.append(ind + "@icontract.require(")
            lines.append(ind + "    %s%s," % (lam.replace(" and ", "\n" + ind + "        and ").replace(" or ", "\n" + ind + "        or ") if c.get("splittable") else lam, ""))
            lines.append(ind + "    description='descr %d'%s," % (i, extra))
            lines.append(ind + ")")
        elif layout == "keyword":
            lines.append(ind + "@icontract.require(description='descr %d', condition=%s%s)" % (i, lam, extra))
        elif layout == "comments":
            lines.append(ind + "# a comment before the decorator mentioning def and class")
            lines.append(ind + "@icontract.require(  # trailing comment")
            lines.append(ind + "    # a comment inside the call: @not_a_decorator def nope")
            lines.append(ind + "    %s,  # the condition" % lam)
            lines.append(ind + "    'descr %d'%s)" % (i, extra))
        elif layout == "neighbours":
            lines.append(ind + "@functools.lru_cache(maxsize=None) if False else (lambda f: f)")
            lines.append(ind + "@icontract.require(%s%s)" % (lam, extra))
            lines.append(ind + "@icontract.ensure(lambda result: True)")
        elif layout == "nested":
            lines.append(ind + "class Holder_%d:" % i)
            lines.append(ind + "    @staticmethod")
            lines.append(ind + "    @icontract.require(%s%s)" % (lam, extra))
            lines.append(ind + "    def f_%d(%s):" % (i, ", ".join(ARGS)))
            lines.append(ind + "        return 1")
            lines.append(ind + "fs[%d] = Holder_%d.f_%d" % (i, i, i))
            continue
        lines.append(ind + "def f_%d(%s):" % (i, ", ".join(ARGS)))
        lines.append(ind + "    return 1")
        lines.append(ind + "fs[%d] = f_%d" % (i, i))
    lines.append("    return fs")
    return "\n".join(lines) + "\n"


_WAS = re.compile(r"^(.*?) was (.*)$", re.S)


def parse_message(msg, expr_text_hint=None):
    """Split a generated message into (location, header, [(key, rendered)], raw).  Value blocks may span lines
    (`all(...)` examples); a new entry starts at a line containing ' was '."""
    lines = msg.split("\n")
    location = None
    if lines and lines[0].startswith("File ") and lines[0].endswith(":"):
        location = lines[0]
        lines = lines[1:]
    text = "\n".join(lines)
    # header: "<description>: <condition text>[:][ first value]" - values start after the condition text
    entries = []
    header = text
    if expr_text_hint is not None and expr_text_hint in text:
        idx = text.index(expr_text_hint) + len(expr_text_hint)
        header = text[:idx]
        rest = text[idx:]
        if rest.startswith(":\n"):
            rest = rest[2:]
        elif rest.startswith(": "):
            rest = rest[2:]
        else:
            rest = rest.lstrip(":")
        cur = None
        for ln in rest.split("\n"):
            m = _WAS.match(ln)
            if m and not ln.startswith("  "):
                if cur:
                    entries.append(cur)
                cur = [m.group(1), m.group(2)]
            elif cur is not None:
                cur[1] += "\n" + ln
        if cur:
            entries.append(cur)
    return location, header, entries, msg


class RecordingVisitor(_rc.Visitor):
    """Secondary channel: what the re-evaluator computed for which node (node kept by identity)."""
    last = None

    def __init__(self, *a, **k):
        super().__init__(*a, **k)
        RecordingVisitor.last = self


def run_batch(cases, glob_src="GL = 7", closure_value=5):
    """cases: [{"expr": str, "env": {...}, "layout": str, ...}] -> list of observations."""
    sc = Scratch()
    outs = []
    try:
        reprs = {}
        for i, c in enumerate(cases):
            if c.get("a_repr"):
                r = reprlib.Repr()
                for k, v in c["a_repr"].items():
                    setattr(r, k, v)
                reprs[i] = r
        src = module_source(cases, glob_src)
        try:
            mod, _name = sc.module(src)
            fs = mod.make_all(closure_value, reprs)
        except BaseException as e:  # noqa: B902
            return [{"define": ["raise", type(e).__name__, str(e)[:200]], "src": src} for _ in cases]
        glob = dict(vars(mod))
        orig_visitor = _rc.Visitor
        for i, c in enumerate(cases):
            env = make_env(c["env"])
            ob = {"define": ["ok"]}
            orc = oracle(c["expr"], env, {"cl": closure_value}, glob)
            ob["oracle_value_falsy"] = (orc["exc"] is None and not orc["value"])
            ob["oracle_exc"] = orc["exc"]
            a_repr = reprs.get(i, icontract.aRepr)
            ev = []
            for k, v in orc["evaluated"]:
                node = orc["nodes"][k]
                try:
                    rendered = a_repr.repr(v)
                except BaseException:  # noqa: B902
                    rendered = None
                ev.append({"k": k, "kind": type(node).__name__, "dump": ast.dump(node), "text": ast.unparse(node),
                           "rendered": rendered, "representable": bool(__import__("icontract._represent", fromlist=["x"])._representable(v)),
                           "is_none": v is None, "type": type(v).__name__})
            ob["evaluated"] = ev
            _rc.Visitor = RecordingVisitor
            RecordingVisitor.last = None
            try:
                try:
                    fs[i](**env)
                    ob["out"] = ["ret"]
                except icontract.ViolationError as e:
                    ob["out"] = ["ViolationError"]
                    loc, header, entries, raw = parse_message(str(e), c["expr"] if c.get("layout", "oneline") != "multiline" else None)
                    ob["location"] = loc
                    ob["header"] = header
                    ob["entries"] = entries
                    ob["message"] = raw
                except BaseException as e:  # noqa: B902
                    ob["out"] = [type(e).__name__, str(e)[:300], type(e.__cause__).__name__ if e.__cause__ is not None else None]
            finally:
                _rc.Visitor = orig_visitor
            rv = RecordingVisitor.last
            if rv is not None:
                rec = []
                for node, v in rv.recomputed_values.items():
                    try:
                        rec.append([ast.dump(node), a_repr.repr(v), type(v).__name__])
                    except BaseException:  # noqa: B902
                        rec.append([ast.dump(node), None, type(v).__name__])
                ob["recomputed"] = rec
            outs.append(ob)
        return outs
    finally:
        sc.close()
