"""Expression-domain materialiser (C06 / C07 / C20).

A case is a lambda condition (Python source of its body) over fixed argument names plus a
falsifying environment.  For each case:

* ORACLE: the same expression is evaluated by CPython with every sub-expression (outside
  comprehension scopes) wrapped in a recording call - what Python really evaluates, with which
  values, in which order, under its own short-circuiting;
* IMPLEMENTATION: a real `@icontract.require(lambda ...: <expr>)` in a scratch module file
  (the library recovers the condition text from the file), called with the environment; the raised
  exception and its message are parsed back into (sub-expression, rendered value) lines;
  `icontract._recompute.Visitor` is observed through a recording subclass (secondary channel).
"""
import ast
import importlib.util
import os
import re
import reprlib
import shutil
import sys
import tempfile

import common

icontract = common.assert_repo_import()
import icontract._recompute as _rc  # noqa: E402

ARGS = ["x", "y", "xs", "s", "o", "d", "n"]
UNREPRESENTABLE_TYPES = ()


class Obj:
    """A record object with attributes and a method (side-effect free)."""

    def __init__(self, a, b):
        self.a = a
        self.b = b

    def m(self, k=0):
        return self.a + k

    def __repr__(self):
        return "Obj(a=%r, b=%r)" % (self.a, self.b)


class AnyEq:
    """compares equal to everything (like unittest.mock.ANY)"""

    def __eq__(self, other):
        return True

    def __ne__(self, other):
        return False

    __hash__ = None

    def __repr__(self):
        return "<ANY>"


class NoTruthEq:
    """comparing it gives an object without a truth value (like an array)"""

    class _Cmp:
        def __bool__(self):
            raise ValueError("The truth value of an element-wise comparison is ambiguous")

    def __eq__(self, other):
        return NoTruthEq._Cmp()

    def __ne__(self, other):
        return NoTruthEq._Cmp()

    __hash__ = None

    def __repr__(self):
        return "<ARRAY>"


class Money:
    """A value whose default presentation (format(m, "")) differs from str(m) and from repr(m)."""

    def __init__(self, amount, currency):
        self.amount = amount
        self.currency = currency

    def __format__(self, spec):
        text = "%.2f %s" % (self.amount, self.currency)
        return format(text, spec) if spec else text

    def __str__(self):
        return "Money(%s, %s)" % (self.amount, self.currency)

    def __repr__(self):
        return "<Money %s %s>" % (self.amount, self.currency)


class Job:
    """An awaitable that is no coroutine (like asyncio.Future): conditions only inspect it."""

    def __init__(self, k):
        self.k = k

    def done(self):
        return self.k < 0

    def cancelled(self):
        return False

    def __await__(self):
        return self.k
        yield  # pragma: no cover

    def __repr__(self):
        return "<Job %d>" % self.k


def get_job(k):
    return Job(k)


class StrictEq:
    """A strict value object: comparing it with anything but its own kind is an error."""

    def __eq__(self, other):
        if not isinstance(other, StrictEq):
            raise TypeError("StrictEq compared with %s" % type(other).__name__)
        return True

    __hash__ = None

    def __repr__(self):
        return "StrictEq()"


class WeirdEq:
    """Equality gives an object without a truth value (element-wise comparison, numpy style)."""

    def __eq__(self, other):
        return WeirdBool()

    __hash__ = None

    def __repr__(self):
        return "WeirdEq()"


class WeirdCmp:
    """Ordering comparisons give an object without a truth value (an element-wise mask)."""

    def __lt__(self, other):
        return WeirdBool()

    __gt__ = __le__ = __ge__ = __lt__

    def __repr__(self):
        return "WeirdCmp()"


class WeirdBool:
    """An object without a truth value (like a numpy array)."""

    def __bool__(self):
        raise ValueError("The truth value is ambiguous")

    def __repr__(self):
        return "WeirdBool()"


# --------------------------------------------------------------------------
# oracle: AST-instrumented CPython evaluation


class _Instrument(ast.NodeTransformer):
    """Wrap every load-context expression outside comprehension scopes in `H_rec(k, <expr>)`."""

    def __init__(self):
        self.nodes = []      # k -> original node
        self.depth = 0       # comprehension nesting
        self.in_comp = set() # ks of nodes inside a comprehension scope
        self.fdepth = 0      # nesting inside f-strings
        self.idepth = 0      # nesting inside the first iterable of a comprehension
        self.in_fstring = set()
        self.in_first_iter = set()

    def _wrap(self, orig, new):
        k = len(self.nodes)
        self.nodes.append(orig)
        if self.depth > 0:
            self.in_comp.add(k)
        if self.fdepth > 0:
            self.in_fstring.add(k)
        if self.idepth > 0:
            self.in_first_iter.add(k)
        return ast.copy_location(ast.Call(func=ast.Name(id="H_rec", ctx=ast.Load()), args=[ast.Constant(k), new], keywords=[]), orig)

    def visit(self, node):
        if not isinstance(node, ast.expr):
            return super().visit(node)
        if isinstance(node, (ast.Starred,)):
            node.value = self.visit(node.value)
            return node
        if isinstance(getattr(node, "ctx", None), (ast.Store, ast.Del)):
            return node
        import copy as _copy
        if isinstance(node, (ast.ListComp, ast.SetComp, ast.DictComp, ast.GeneratorExp)):
            orig = _copy.deepcopy(node)
            # the first iterable is evaluated in the enclosing scope
            first = node.generators[0].iter
            self.idepth += 1
            node.generators[0].iter = self.visit(first)
            self.idepth -= 1
            self.depth += 1
            if isinstance(node, ast.DictComp):
                node.key = self.visit(node.key)
                node.value = self.visit(node.value)
            else:
                node.elt = self.visit(node.elt)
            for gi, g in enumerate(node.generators):
                if gi > 0:
                    g.iter = self.visit(g.iter)
                g.ifs = [self.visit(i) for i in g.ifs]
            self.depth -= 1
            return self._wrap(orig, node)
        if isinstance(node, ast.NamedExpr):
            orig = _copy.deepcopy(node)
            node.value = self.visit(node.value)
            return self._wrap(orig, node)
        if isinstance(node, ast.FormattedValue):
            node.value = self.visit(node.value)
            if node.format_spec is not None:
                node.format_spec.values = [self.visit(v) if isinstance(v, ast.FormattedValue) else v
                                           for v in node.format_spec.values]
            return node
        if isinstance(node, ast.JoinedStr):
            orig = _copy.deepcopy(node)
            self.fdepth += 1
            node.values = [self.visit(v) if isinstance(v, ast.FormattedValue) else v for v in node.values]
            self.fdepth -= 1
            return self._wrap(orig, node)
        if isinstance(node, ast.Slice):
            for f in ("lower", "upper", "step"):
                if getattr(node, f) is not None:
                    setattr(node, f, self.visit(getattr(node, f)))
            return node
        orig = _copy.deepcopy(node)
        new = self.generic_visit(node)
        return self._wrap(orig, new)


def parse_expr(src):
    """the condition body as an expression (a multi-line body is only valid inside the call's parentheses)"""
    return ast.parse("(" + src + ")" if "\n" in src else src, mode="eval")


def oracle(expr_src, env, closure, glob):
    """Returns dict(value=..., exc=..., evaluated=[(k, node, value)]) of CPython's own evaluation."""
    tree = parse_expr(expr_src)
    ins = _Instrument()
    new = ins.visit(tree.body)
    ast.fix_missing_locations(new)
    code = compile(ast.Expression(new), "<oracle>", "eval")
    rec = []

    def H_rec(k, v):
        rec.append((k, v))
        return v

    g = dict(glob)
    g.update(closure)
    g.update(env)            # comprehension scopes only see globals of an `eval`
    g["H_rec"] = H_rec
    out = {"nodes": ins.nodes, "in_comp": ins.in_comp, "in_fstring": ins.in_fstring, "in_first_iter": ins.in_first_iter}
    try:
        out["value"] = eval(code, g)
        out["exc"] = None
    except BaseException as e:  # noqa: B902
        out["value"] = None
        out["exc"] = type(e).__name__
    out["evaluated"] = rec
    return out


# --------------------------------------------------------------------------
# implementation side


class Scratch:
    """A scratch directory with generated modules; removed on close."""
    counter = 0

    def __init__(self):
        self.dir = tempfile.mkdtemp(prefix="verif_expr_")
        self.n = 0

    def module(self, src):
        Scratch.counter += 1
        self.n += 1
        name = "verif_expr_mod_%d_%d" % (os.getpid(), Scratch.counter)      # a fresh module name for every generated module
        path = os.path.join(self.dir, name + ".py")
        with open(path, "w", encoding="utf-8") as fh:
            fh.write(src)
        spec = importlib.util.spec_from_file_location(name, path)
        mod = importlib.util.module_from_spec(spec)
        sys.modules[name] = mod
        spec.loader.exec_module(mod)
        return mod, name

    def close(self):
        shutil.rmtree(self.dir, ignore_errors=True)
        for k in [k for k in sys.modules if k.startswith("verif_expr_mod_%d_" % os.getpid())]:
            del sys.modules[k]


LAYOUTS = ["oneline", "multiline", "keyword", "comments", "neighbours", "nested", "description", "in_init"]


def self_expr(expr_src, fields):
    """the expression with every argument name `x` replaced by `self.x` (for class invariants)"""
    tree = parse_expr(expr_src)
    bound = set()
    for n in ast.walk(tree):
        if isinstance(n, ast.Name) and isinstance(n.ctx, ast.Store):
            bound.add(n.id)

    class T(ast.NodeTransformer):
        def visit_Name(self, n):
            if isinstance(n.ctx, ast.Load) and n.id in fields and n.id not in bound:
                return ast.Attribute(value=ast.Name(id="self", ctx=ast.Load()), attr=n.id, ctx=ast.Load())
            return n

    return ast.unparse(T().visit(tree))


def module_source(cases, glob_src):
    """One module with one decorated function (or class) per case (layout variants of the decorator)."""
    lines = ["import icontract", "import functools", glob_src, ""]
    lines.append("def make_all(cl, A_REPRS):")
    lines.append("    fs = {}")
    lines.append("    plain = {}")
    for i, c in enumerate(cases):
        layout = c.get("layout", "oneline")
        kind = c.get("kind", "require")
        deco = "icontract." + kind
        params = c.get("params", ARGS)
        if kind == "invariant":
            lam = "lambda self: %s" % c["expr"]
            if layout in ("neighbours", "nested", "in_init"):
                layout = "oneline"
        elif c.get("named"):
            # the condition is a named function: the message shows its name, the description and the arguments
            lines.append("    def cond_%d(%s):" % (i, lambda_header(c, params)))
            lines.append("        return (%s)" % c["expr"])
            lam = "cond_%d" % i
        else:
            lam = "lambda %s: %s" % (lambda_header(c, params), c["expr"])
        extra = ", a_repr=A_REPRS[%d]" % i if c.get("a_repr") else ""
        if c.get("error"):
            extra += ", error=%s" % c["error"]
        ind = "    "
        if layout == "oneline":
            lines.append(ind + "@%s(%s%s)" % (deco, lam, extra))
        elif layout == "description":
            lines.append(ind + "@%s(%s, 'descr %d of {1, 2} {} {x}'%s)" % (deco, lam, i, extra))
        elif layout == "multiline":
            lines.append(ind + "@%s(" % deco)
            lines.append(ind + "    %s," % lam)
            lines.append(ind + "    description='descr %d'%s," % (i, extra))
            lines.append(ind + ")")
        elif layout == "keyword":
            lines.append(ind + "@%s(description='descr %d', condition=%s%s)" % (deco, i, lam, extra))
        elif layout == "comments":
            lines.append(ind + "# a comment before the decorator mentioning def and class")
            lines.append(ind + "@%s(  # trailing comment" % deco)
            lines.append(ind + "    # a comment inside the call: @not_a_decorator def nope")
            lines.append(ind + "    %s,  # the condition" % lam)
            lines.append(ind + "    'descr %d'%s)" % (i, extra))
        elif layout == "neighbours":
            lines.append(ind + "@functools.lru_cache(maxsize=None) if False else (lambda f: f)")
            lines.append(ind + "@%s(%s%s)" % (deco, lam, extra))
            lines.append(ind + "@icontract.ensure(lambda result: True)")
        elif layout == "in_init":
            # the contract is declared inside a constructor (a callback validated by the object that owns it)
            lines.append(ind + "class Maker_%d:" % i)
            lines.append(ind + "    def __init__(self):")
            lines.append(ind + "        @%s(%s%s)" % (deco, lam, extra))
            lines.append(ind + "        def f_%d(%s):" % (i, ", ".join(c.get("fparams", params))))
            lines.append(ind + "            return 1")
            lines.append(ind + "        self.f = f_%d" % i)
            lines.append(ind + "fs[%d] = Maker_%d().f" % (i, i))
            continue
        elif layout == "nested":
            lines.append(ind + "class Holder_%d:" % i)
            lines.append(ind + "    @staticmethod")
            lines.append(ind + "    @%s(%s%s)" % (deco, lam, extra))
            lines.append(ind + "    def f_%d(%s):" % (i, ", ".join(params)))
            lines.append(ind + "        return 1")
            lines.append(ind + "fs[%d] = Holder_%d.f_%d" % (i, i, i))
            continue
        if kind == "invariant":
            fields = c["fields"]
            for cname, reg in (("K_%d" % i, "fs"), ("P_%d" % i, "plain")):
                lines.append(ind + "class %s:" % cname)
                lines.append(ind + "    def __init__(self, %s):" % ", ".join(fields))
                for f in fields:
                    lines.append(ind + "        self.%s = %s" % (f, f))
                lines.append(ind + "    def __repr__(self):")
                lines.append(ind + "        return 'K(' + ', '.join('%s=%r' % (f, getattr(self, f)) for f in " + repr(list(fields)) + ") + ')'")
                lines.append(ind + "%s[%d] = %s" % (reg, i, cname))
            continue
        lines.append(ind + "def f_%d(%s):" % (i, ", ".join(c.get("fparams", params))))
        lines.append(ind + "    return 1")
        lines.append(ind + "fs[%d] = f_%d" % (i, i))
    lines.append("    def set_cl(v):")
    lines.append("        nonlocal cl")
    lines.append("        cl = v")
    lines.append("    fs['set_cl'] = set_cl")
    lines.append("    return fs, plain")
    return "\n".join(lines) + "\n"


_WAS = re.compile(r"^(.*?) was (.*)$", re.S)


def _norm(text):
    for t in (text.strip(), "(" + text + ")"):
        try:
            return ast.dump(ast.parse(t, mode="eval").body)
        except (SyntaxError, ValueError):
            continue
    return None


def _noaddr(text):
    """object addresses inside reprs (`<generator object f at 0x7f...>`) are not part of what is compared"""
    import re as _re
    return _re.sub(r" at 0x[0-9a-fA-F]+", " at 0xADDR", text)


def parse_message(msg, expr_src):
    """Split a generated message into (location, header, [(key, rendered)], raw).  The condition text is the
    shortest prefix (after location and description) ending at a ':' that parses to the evaluated expression;
    value blocks may span lines (`all(...)` examples); a new entry starts at an unindented line containing ' was '."""
    lines = msg.split("\n")
    location = None
    if lines and lines[0].startswith("File ") and lines[0].endswith(":"):
        location = lines[0]
        lines = lines[1:]
    text = "\n".join(lines)
    descr = None
    m = re.match(r"^(descr \d+)(?: of \{1, 2\} \{\} \{x\})?: ", text)      # (one layout's description contains literal braces)
    if m:
        descr = m.group(1)
        text = text[m.end():]
    want = _norm(expr_src)
    header, rest = None, None
    pos = -1
    while True:
        pos = text.find(":", pos + 1)
        if pos < 0:
            break
        if _norm(text[:pos]) == want:
            header, rest = text[:pos], text[pos + 1:]
            break
    if header is None:
        if _norm(text) == want:
            header, rest = text, ""
        else:
            return location, None, [], msg
    rest = rest[1:] if rest[:1] in ("\n", " ") else rest
    entries = []
    cur = None
    for ln in rest.split("\n"):
        m = _WAS.match(ln)
        if m and not ln.startswith("  "):
            if cur:
                entries.append(cur)
            cur = [m.group(1), m.group(2)]
        elif cur is not None:
            cur[1] += "\n" + ln
    if cur:
        entries.append(cur)
    return location, (descr, header), entries, msg


class RecordingVisitor(_rc.Visitor):
    """Secondary channel: what the re-evaluator computed for which node (node kept by identity)."""
    last = None

    def __init__(self, *a, **k):
        super().__init__(*a, **k)
        self.root = None
        RecordingVisitor.last = self

    def visit(self, node):
        if self.root is None:
            self.root = node
        return super().visit(node)


TICKS = []


def tick(v):
    """A side-effect probe: conditions may wrap sub-expressions in `tick(...)`; every evaluation is logged."""
    TICKS.append(v if isinstance(v, (int, bool, str, type(None))) else type(v).__name__)
    return v


def special_value(v):
    if not isinstance(v, str):
        return v
    if v == "ANYEQ":
        return AnyEq()
    if v == "NOTRUTHEQ":
        return NoTruthEq()
    if v == "MONEY":
        return Money(12.5, "EUR")
    if v == "GETJOB":
        return get_job
    if v == "WEIRDBOOL":
        return WeirdBool()
    if v == "WEIRDCMP":
        return WeirdCmp()
    if v == "STRICTEQ":
        return StrictEq()
    if v == "WEIRDEQ":
        return WeirdEq()
    if v == "OWNALL":
        return _own_all
    if v == "OWNALL_SKIPNONE":
        return _own_all_skip_none
    if v == "BUILTIN_ALL":
        import builtins
        return builtins.all
    if v.startswith("RAISER:"):
        return _raiser(v.split(":")[1])
    if v == "NONEFUNC":
        return _returns_none
    if v == "METHDESC":
        return str.lower
    if v == "SLOTWRAP":
        return int.__add__
    if v == "METHWRAP":
        return _A_LIST.__len__
    if v == "MODULESUB":
        return _A_MODULE_SUBCLASS_INSTANCE
    if v == "GENFUNC":
        return _ratios
    if v == "FUNC":
        return make_env
    if v == "LAMBDA":
        return _A_LAMBDA
    if v == "CLASS":
        return Obj
    if v == "BUILTIN":
        return len
    if v == "MODULE":
        return os
    if v == "METHOD":
        return _AN_OBJ.m
    if v.startswith("BIGLIST:"):
        return list(range(int(v.split(":")[1])))
    if v.startswith("BIGSTR:"):
        return "abcdefghij" * int(v.split(":")[1])
    if v.startswith("BIGDICT:"):
        return dict(("k%03d" % i, i) for i in range(int(v.split(":")[1])))
    if v.startswith("STRSET:"):
        return set("s%d" % i for i in range(int(v.split(":")[1])))
    if v == "OBJLIST":
        return [None, Obj(1, []), Obj(-5, [1])]
    if v == "BIGNEST":
        return [list(range(100)), "x" * 300, set("s%d" % i for i in range(30))]
    if v.startswith("NESTED:"):
        r = []
        for _ in range(int(v.split(":")[1])):
            r = [r, 1]
        return r
    return v


_A_LIST = [1, 2, 3]


def _returns_none(*args):
    return None


class _CustomFailure(Exception):
    pass


_RAISERS = {}


def _raiser(kind):
    """a helper that always fails with the given kind of exception (conditions only reach it in parts Python skips)"""
    if kind not in _RAISERS:
        import icontract as _ic
        cls = {"custom": _CustomFailure, "assertion": AssertionError, "oserror": OSError, "stopiteration": StopIteration,
               "violation": _ic.ViolationError, "keyerror": KeyError, "zerodivision": ZeroDivisionError}[kind]

        def helper(*args):
            raise cls("helper failed")
        helper.__name__ = "helper_" + kind
        _RAISERS[kind] = helper
    return _RAISERS[kind]



class _ModuleSub(type(os)):
    """a customised module type (as modules with a re-assigned __class__ have)"""


_A_MODULE_SUBCLASS_INSTANCE = _ModuleSub("verif_settings")


def _ratios(n, xs):
    """a generator function: consumed lazily by the condition; the items Python never asked for must not be computed"""
    for x in xs:
        yield n // x


def _own_all(iterable):
    """a user's own `all`: not vacuously true"""
    items = list(iterable)
    return bool(items) and len(items) > 100


def _own_all_skip_none(iterable):
    """a user's own `all` that ignores None items"""
    return not [1 for i in iterable if i is not None and not i]


_A_LAMBDA = lambda q: q  # noqa: E731
_AN_OBJ = Obj(1, [])


def make_env(envd):  # noqa: F811
    e = dict((k, special_value(v)) for k, v in envd.items())
    if "oa" in e or "ob" in e:
        e["o"] = Obj(e.pop("oa", 0), e.pop("ob", []))
    return e


def to_val(v, objs):
    """Python value -> model `Val` JSON (None if outside the modelled fragment); opaque objects get ids."""
    if v is None:
        return "none"
    if isinstance(v, bool):
        return {"bool": {"b": v}}
    if isinstance(v, int):
        return {"int": {"i": v}}
    if isinstance(v, str):
        return {"str": {"s": v}}
    if isinstance(v, list):
        xs = [to_val(x, objs) for x in v]
        if any(x is None for x in xs):
            return None
        return {"list": {"xs": xs}}
    if type(v) is tuple:
        xs = [to_val(x, objs) for x in v]
        if any(x is None for x in xs):
            return None
        return {"tuple": {"xs": xs}}
    if type(v) in (set, frozenset) and type(v) is set:
        xs = [to_val(x, objs) for x in v]
        if any(x is None for x in xs):
            return None
        return {"set": {"xs": xs}}
    if type(v) is dict:
        ks = [to_val(x, objs) for x in v.keys()]
        vs = [to_val(x, objs) for x in v.values()]
        if any(x is None for x in ks + vs):
            return None
        return {"dict": {"ks": ks, "vs": vs}}
    if type(v) is slice:
        parts = [to_val(x, objs) for x in (v.start, v.stop, v.step)]
        if any(x is None for x in parts):
            return None
        return {"slice": {"lo": parts[0], "hi": parts[1], "step": parts[2]}}
    if not _representable_value(v):
        return {"fn": {"name": getattr(v, "__name__", "fn")}}
    for i, o in enumerate(objs):
        if o is v:
            return {"obj": {"id": i}}
    objs.append(v)
    return {"obj": {"id": len(objs) - 1}}


def _representable_value(v):
    """the documented rule, stated independently of the library: classes, functions, methods, modules and built-in
    functions are not shown; everything else is (C-level method descriptors, slot wrappers, method wrappers included)"""
    import inspect as _inspect
    return not (_inspect.isclass(v) or _inspect.isfunction(v) or _inspect.ismethod(v) or _inspect.ismodule(v) or _inspect.isbuiltin(v))


def from_val(j, objs):
    if j == "none":
        return None
    if "bool" in j:
        return j["bool"]["b"]
    if "int" in j:
        return j["int"]["i"]
    if "str" in j:
        return j["str"]["s"]
    if "list" in j:
        return [from_val(x, objs) for x in j["list"]["xs"]]
    if "tuple" in j:
        return tuple(from_val(x, objs) for x in j["tuple"]["xs"])
    if "set" in j:
        return set(from_val(x, objs) for x in j["set"]["xs"])
    if "dict" in j:
        return dict(zip([from_val(x, objs) for x in j["dict"]["ks"]], [from_val(x, objs) for x in j["dict"]["vs"]]))
    if "slice" in j:
        return slice(from_val(j["slice"]["lo"], objs), from_val(j["slice"]["hi"], objs), from_val(j["slice"]["step"], objs))
    if "obj" in j:
        return objs[j["obj"]["id"]]
    return len


def position_keys(expr_src):
    """(kind, col, end_col) -> preorder index of the node in the expression (one-line expressions)."""
    tree = ast.parse(expr_src, mode="eval").body
    keys = {}
    order = []

    def walk(n):
        if isinstance(n, ast.expr) and not isinstance(getattr(n, "ctx", None), (ast.Store, ast.Del)):
            keys[(type(n).__name__, n.col_offset - tree.col_offset, n.end_col_offset - tree.col_offset)] = len(order)
            order.append(n)
        for ch in ast.iter_child_nodes(n):
            walk(ch)

    walk(tree)
    return tree, keys, order


def _call(f, env, variant, params):
    if variant.get("positional"):
        return f(*[env[p] for p in params])
    order = variant.get("order") or list(env.keys())
    return f(**dict((k, env[k]) for k in order if k in env))


DEFAULT_GLOB_SRC = "GL = 7\ny = 1000\ncl = 77\nformat = 1234"      # (`format`: a module-level variable named like a built-in)


def lambda_header(case, params):
    """the parameter list of the condition; `cond_defaults` = parameters of the condition's own with a default value
    (`lambda x, lower=0: ...`) which the decorated function does not have"""
    d = case.get("cond_defaults") or {}
    return ", ".join(list(params) + ["%s=%r" % (k, d[k]) for k in sorted(d)])


def full_source(cases, glob_src=DEFAULT_GLOB_SRC):
    return module_source(cases, "from implexpr import tick\n" + glob_src)


def classify_lines(lines):
    """the library's own classification of source lines (its regular expressions are applied, not re-implemented)"""
    import icontract._represent as _rp
    return ["deco" if _rp._DECORATOR_RE.match(ln) else "defcls" if _rp._DEF_CLASS_RE.match(ln) else "other" for ln in lines]


def run_batch(cases, glob_src=DEFAULT_GLOB_SRC, closure_value=5, normalise_location=False):
    """cases: [{"expr": str, "env": {...}, "layout": str, ...}] -> list of observations."""
    sc = Scratch()
    outs = []
    try:
        reprs = {}
        for i, c in enumerate(cases):
            if c.get("a_repr"):
                r = reprlib.Repr()
                for k, v in c["a_repr"].items():
                    setattr(r, k, v)
                reprs[i] = r
        src = full_source(cases, glob_src)
        import icontract._represent as _rp
        scans = []
        orig_inspect = _rp.inspect_decorator

        def recording_inspect(lines, lineno, filename):
            rec = {"lineno": lineno, "kinds": classify_lines(lines), "nlines": len(lines)}
            scans.append(rec)
            try:
                r = orig_inspect(lines=lines, lineno=lineno, filename=filename)
            except (ValueError, SyntaxError) as e:
                rec["result"] = type(e).__name__
                raise
            txt = r.atok.text
            rec["result"] = txt[:txt.rindex("def dummy_")] if "def dummy_" in txt else txt
            return r

        _rp.inspect_decorator = recording_inspect
        try:
            mod, mod_name = sc.module(src)
            fs, plain = mod.make_all(closure_value, reprs)
        except BaseException as e:  # noqa: B902
            _rp.inspect_decorator = orig_inspect
            return [{"define": ["raise", type(e).__name__, str(e)[:200]], "src": src} for _ in cases]
        for i, c in enumerate(cases):
            # the program changes the limits of its Repr object after the contracts exist
            for k, v in (c.get("a_repr_after") or {}).items():
                setattr(reprs[i], k, v)
        glob = dict(vars(mod))
        src_lines = src.split("\n")
        orig_visitor = _rc.Visitor
        for i, c in enumerate(cases):
            params = c.get("params", ARGS)
            kind = c.get("kind", "require")
            env = make_env(c["env"])
            if kind == "invariant":
                call_env = dict((k, v) for k, v in env.items() if k in c["fields"])
                env = {"self": plain[i](**call_env)}
            else:
                fparams = c.get("fparams", params)
                call_env = dict((k, v) for k, v in env.items() if k in fparams)
                call_env.update(c.get("extra_kwargs", {}))          # passed through the function's **kw
                env = dict(call_env)
                v0 = (c.get("variants") or [{}])[0]
                if "_ARGS" in params:
                    env["_ARGS"] = tuple(call_env[p] for p in fparams) if v0.get("positional") else ()
                if "_KWARGS" in params:
                    env["_KWARGS"] = {} if v0.get("positional") else dict(
                        (k, call_env[k]) for k in (v0.get("order") or list(call_env.keys())) if k in call_env)
            ob = {"define": ["ok"]}
            del TICKS[:]
            # PYTHON's scoping: only the condition's own parameters are its local variables; a parameter of the decorated
            # function which the condition does not take leaves the name to the closure / the module's globals
            oenv = env if kind == "invariant" or any(p.startswith("*") for p in params) else dict((k, v) for k, v in env.items() if k in params)
            if kind != "invariant":
                oenv = dict(oenv)
                oenv.update(c.get("cond_defaults") or {})       # the call does not supply them: Python binds the defaults
            orc = oracle(c["expr"], oenv, {"cl": closure_value}, glob)
            ob["oracle_ticks"] = list(TICKS)
            ob["oracle_value_falsy"] = (orc["exc"] is None and not orc["value"])
            ob["oracle_exc"] = orc["exc"]
            a_repr = reprs.get(i, icontract.aRepr)
            objs = []
            ev = []
            one_line = "\n" not in c["expr"]
            _tree, poskeys, _order = position_keys(c["expr"]) if one_line else (None, {}, [])
            root_col = _tree.col_offset if _tree is not None else 0
            for k, v in orc["evaluated"]:
                node = orc["nodes"][k]
                try:
                    rendered = _noaddr(a_repr.repr(v))
                except BaseException:  # noqa: B902
                    rendered = None
                ev.append({"k": k, "kind": type(node).__name__, "dump": ast.dump(node), "text": ast.unparse(node),
                           "rendered": rendered, "representable": _representable_value(v),
                           "is_none": v is None, "type": type(v).__name__, "in_comp": k in orc["in_comp"],
                           "in_fstring": k in orc["in_fstring"], "in_first_iter": k in orc["in_first_iter"],
                           "pos": poskeys.get((type(node).__name__, getattr(node, "col_offset", -1) - root_col, getattr(node, "end_col_offset", -1) - root_col))})
            ob["evaluated"] = ev
            ob["nodes"] = [{"k": k, "dump": ast.dump(nd), "kind": type(nd).__name__, "in_comp": k in orc["in_comp"],
                            "text": ast.unparse(nd)} for k, nd in enumerate(orc["nodes"])]
            ob["args_rendered"] = dict((k, (_noaddr(a_repr.repr(v)) if _representable_value(v) else None)) for k, v in env.items())
            # expected location of the decorator in the generated file
            if kind == "ensure":
                ob["args_rendered"]["result"] = a_repr.repr(1)
            decl = [ln for ln, t in enumerate(src_lines) if ("@icontract.%s(" % kind) in t]
            ob["decl_line"] = decl[i] + 1 if i < len(decl) else None
            ob["file"] = mod.__file__
            variants = c.get("variants") or [{}]
            msgs = []
            _rc.Visitor = RecordingVisitor
            RecordingVisitor.last = None
            try:
                for vi, variant in enumerate(variants):
                    del TICKS[:]
                    try:
                        _call(fs[i], call_env, variant, c["fields"] if kind == "invariant" else c.get("fparams", params))
                        res = ["ret"]
                    except (icontract.ViolationError, ValueError) as e:
                        want = ValueError if c.get("error") == "ValueError" else icontract.ViolationError
                        if type(e) is want:
                            res = ["ViolationError", _noaddr(str(e))]
                        else:
                            res = [type(e).__name__, str(e)[:300], type(e.__cause__).__name__ if e.__cause__ is not None else None]
                    except BaseException as e:  # noqa: B902
                        res = [type(e).__name__, str(e)[:300], type(e.__cause__).__name__ if e.__cause__ is not None else None]
                    msgs.append(res)
                    if vi == 0:
                        ob["ticks"] = list(TICKS)
            finally:
                _rc.Visitor = orig_visitor
            first = msgs[0]
            if first[0] == "ViolationError":
                ob["out"] = ["ViolationError"]
                loc, header, entries, raw = parse_message(first[1], ("cond_%d" % i) if c.get("named") else c["expr"])
                ob["location"] = loc
                ob["header"] = header
                ob["entries"] = entries
                ob["message"] = raw
            else:
                ob["out"] = first
            norm = (lambda m: m.replace(sc.dir, "<DIR>").replace(mod_name, "<MOD>")) if normalise_location else (lambda m: m)
            ob["variant_msgs"] = [[m[0]] + [norm(x) if isinstance(x, str) else x for x in m[1:]] for m in msgs]
            # the same condition violated again after the closure variable was re-bound (nonlocal)
            if c.get("rebind_cl"):
                ob["rebinds"] = []
                for newv in c["rebind_cl"]:
                    fs["set_cl"](newv)
                    sub = {"define": ["ok"], "cl": newv, "args_rendered": ob["args_rendered"]}
                    orc2 = oracle(c["expr"], oenv, {"cl": newv}, glob)
                    sub["oracle_value_falsy"] = (orc2["exc"] is None and not orc2["value"])
                    sub["oracle_exc"] = orc2["exc"]
                    ev2 = []
                    for k, v in orc2["evaluated"]:
                        node = orc2["nodes"][k]
                        try:
                            rendered = _noaddr(a_repr.repr(v))
                        except BaseException:  # noqa: B902
                            rendered = None
                        ev2.append({"k": k, "kind": type(node).__name__, "dump": ast.dump(node), "text": ast.unparse(node),
                                    "rendered": rendered, "representable": _representable_value(v), "is_none": v is None,
                                    "type": type(v).__name__, "in_comp": k in orc2["in_comp"], "in_fstring": k in orc2["in_fstring"],
                                    "in_first_iter": k in orc2["in_first_iter"], "pos": None})
                    sub["evaluated"] = ev2
                    sub["nodes"] = [{"k": k, "dump": ast.dump(nd), "kind": type(nd).__name__, "in_comp": k in orc2["in_comp"],
                                     "text": ast.unparse(nd)} for k, nd in enumerate(orc2["nodes"])]
                    try:
                        _call(fs[i], call_env, {}, c.get("fparams", params))
                        sub["out"] = ["ret"]
                    except icontract.ViolationError as e:
                        sub["out"] = ["ViolationError"]
                        _l, _h, entries2, raw2 = parse_message(_noaddr(str(e)), c["expr"])
                        sub["entries"] = entries2
                        sub["message"] = raw2
                    except BaseException as e:  # noqa: B902
                        sub["out"] = [type(e).__name__, str(e)[:200]]
                    ob["rebinds"].append(sub)
                fs["set_cl"](closure_value)
            rv = RecordingVisitor.last
            if rv is not None:
                rec = []
                root = rv.root
                for node, v in rv.recomputed_values.items():
                    pos = None
                    if one_line and root is not None and getattr(node, "lineno", None) == getattr(root, "lineno", None) and hasattr(node, "col_offset"):
                        pos = poskeys.get((type(node).__name__, node.col_offset - root.col_offset, node.end_col_offset - root.col_offset))
                    try:
                        rr = _noaddr(a_repr.repr(v))
                    except BaseException:  # noqa: B902
                        rr = None
                    rec.append({"dump": ast.dump(node), "rendered": rr, "type": type(v).__name__, "pos": pos,
                                "representable": _representable_value(v)})
                ob["recomputed"] = rec
            outs.append(ob)
        if len(cases) == 1 and outs:
            outs[0]["scans"] = scans
        return outs
    finally:
        try:
            _rp.inspect_decorator = orig_inspect
        except NameError:
            pass
        sc.close()
