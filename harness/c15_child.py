"""Child of the C15 check: runs under `python`, `python -O` or `python -OO` with a given
ICONTRACT_SLOW; prints one JSON document: the decorator table and the observations of a
slice of checker cases whose contracts are explicitly enabled."""
import json
import os
import sys

HERE = os.path.dirname(os.path.abspath(__file__))
sys.path.insert(0, HERE)
import common  # noqa: E402

icontract = common.assert_repo_import()
import implck  # noqa: E402


def enabled_kw(arg):
    if arg == "dflt":
        return {}
    if arg == "explicitTrue":
        return {"enabled": True}
    if arg == "explicitFalse":
        return {"enabled": False}
    return {"enabled": icontract.SLOW}


def row(deco, arg):
    calls = {"cond": 0}

    def cond(*a, **k):
        calls["cond"] += 1
        return True

    kw = enabled_kw(arg)
    if deco == "invariant":
        class K:
            def __init__(self):
                self.x = 1

            def m(self):
                return 2

        before = dict(vars(K))
        d = icontract.invariant(lambda self: cond(), **kw)
        r = d(K)
        K().m()
        after = dict(vars(K))
        return {"same": r is K, "attrs_added": sorted(set(after) - set(before)),
                "rebound": sorted(k for k in before if before[k] is not after.get(k)), "cond_calls": calls["cond"]}

    def f(x):
        return x

    if deco in ("requireOnStaticObj", "ensureOnStaticObj", "requireOnClassmObj", "ensureOnClassmObj"):
        # the decorator is written ABOVE @staticmethod / @classmethod: it receives the descriptor object
        target = staticmethod(f) if "Static" in deco else classmethod(lambda cls, x=0: x)
        before = dict(vars(target)) if hasattr(target, "__dict__") else {}
        if deco.startswith("require"):
            r = icontract.require(lambda x: cond(), **kw)(target)
        else:
            r = icontract.ensure(lambda result: cond(), **kw)(target)
        after = dict(vars(target)) if hasattr(target, "__dict__") else {}
        try:
            if "Static" in deco:
                r(1) if callable(r) else None
        except BaseException:  # noqa: B902
            pass
        return {"same": r is target, "attrs_added": sorted(set(after) - set(before)), "rebound": [], "cond_calls": calls["cond"]}

    if deco in ("requireOnChecker", "ensureOnChecker"):
        # the function already carries an (explicitly enabled) contract checker
        g = icontract.require(lambda x: True, enabled=True)(icontract.ensure(lambda result: True, enabled=True)(f))
        sizes = lambda: (sum(len(grp) for grp in g.__preconditions__), len(g.__postconditions__))  # noqa: E731
        before_sizes = sizes()
        before = dict(vars(g))
        if deco == "requireOnChecker":
            r = icontract.require(lambda x: cond(), **kw)(g)
        else:
            r = icontract.ensure(lambda result: cond(), **kw)(g)
        r(1)
        after = dict(vars(g))
        return {"same": r is g, "attrs_added": sorted(set(after) - set(before)),
                "rebound": ["contract lists"] if sizes() != before_sizes else [], "cond_calls": calls["cond"]}

    if deco.endswith("Positional"):
        # `enabled` given POSITIONALLY, at its documented place: require / ensure / invariant (condition, description, a_repr,
        # enabled), snapshot (capture, name, enabled)
        en = kw["enabled"]
        base = deco[:-len("Positional")]
        if base == "snapshot":
            g = icontract.ensure(lambda result: True, enabled=True)(f)
            before = dict(vars(g))
            r = icontract.snapshot(lambda x: cond(), "s", en)(g)
            target = g
        elif base == "require":
            before = dict(vars(f))
            r = icontract.require(lambda x: cond(), None, None, en)(f)
            target = f
        else:
            before = dict(vars(f))
            r = icontract.ensure(lambda result: cond(), None, None, en)(f)
            target = f
        r(1)
        after = dict(vars(target))
        return {"same": r is target, "attrs_added": sorted(set(after) - set(before)),
                "snap_list": len(getattr(target, "__postcondition_snapshots__", [])), "cond_calls": calls["cond"]}

    before = dict(vars(f))
    if deco == "require":
        d = icontract.require(lambda x: cond(), **kw)
        r = d(f)
        target = f
    elif deco == "ensure":
        d = icontract.ensure(lambda result: cond(), **kw)
        r = d(f)
        target = f
    else:
        if deco == "snapshotOverOld":
            # below: an ENABLED postcondition that reads OLD (calling it without any snapshot is the user's error)
            g = icontract.ensure(lambda result, OLD: True, enabled=True)(f)
        else:
            g = icontract.ensure(lambda result: True, enabled=True)(f)
        before = dict(vars(g))
        d = icontract.snapshot(lambda x: cond(), name="s", **kw)
        r = d(g)
        target = g
    try:
        r(1)
    except TypeError:
        if deco != "snapshotOverOld":
            raise
    after = dict(vars(target))
    return {"same": r is target, "attrs_added": sorted(set(after) - set(before)),
            "snap_list": len(getattr(target, "__postcondition_snapshots__", [])), "cond_calls": calls["cond"]}


LIMIT_FOR_MESSAGES = 10


def refusals():
    """what the library refuses at run time for explicitly enabled contracts - a sync condition / capture that hands back a
    coroutine - is refused in every interpreter mode, with the same exception"""
    res = {}

    async def acheck(v):
        return v > 0

    def inv_cond(self):
        return acheck(self.x)

    def attempt(label, fn):
        try:
            fn()
            res[label] = "accepted"
        except BaseException as e:  # noqa: B902
            res[label] = type(e).__name__

    def make_invariant(co):
        @icontract.invariant(inv_cond, enabled=True, check_on=co)
        class K:
            def __init__(self, x):
                self.x = x

            def m(self):
                return 1
        return K

    attempt("invariant-coroutine-at-construction", lambda: make_invariant(icontract.InvariantCheckEvent.CALL)(-1))
    attempt("invariant-coroutine-setattr", lambda: make_invariant(icontract.InvariantCheckEvent.ALL)(-1))

    def pre_cond(x):
        return acheck(x)

    @icontract.require(pre_cond, enabled=True)
    def f(x):
        return x

    attempt("precondition-coroutine", lambda: f(-1))

    def post_cond(result):
        return acheck(result)

    @icontract.ensure(post_cond, enabled=True)
    def g(x):
        return x

    attempt("postcondition-coroutine", lambda: g(-1))

    def cap(x):
        return acheck(x)

    def uses_old(OLD):
        return True

    @icontract.snapshot(cap, name="c", enabled=True)
    @icontract.ensure(uses_old, enabled=True)
    def h(x):
        return x

    attempt("capture-coroutine", lambda: h(-1))
    import warnings
    warnings.simplefilter("ignore", RuntimeWarning)
    return res


def slow_env_rows():
    """explicitly enabled contracts behave the same whatever ICONTRACT_SLOW and the interpreter mode are"""
    res = {}

    @icontract.require(lambda xs, ys: all(x > ys[0] for x in xs) and len(xs) > 0, enabled=True)
    def f(xs, ys):
        return xs

    try:
        f([], [])
        res["unevaluated-comprehension-part"] = "returned"
    except icontract.ViolationError:
        res["unevaluated-comprehension-part"] = "violation"
    except BaseException as e:  # noqa: B902
        res["unevaluated-comprehension-part"] = type(e).__name__

    def x_ok(self):
        return self.x >= 0

    @icontract.invariant(x_ok, enabled=True)
    class A:
        def __init__(self):
            self.x = 1

        def m(self):
            return 1

    a = A()
    try:
        a.x = -1
        res["assignment-with-default-check_on"] = "accepted"
    except icontract.ViolationError:
        res["assignment-with-default-check_on"] = "violation"
    try:
        a.m()
        res["call-after-assignment"] = "returned"
    except icontract.ViolationError:
        res["call-after-assignment"] = "violation"
    return res


def broken_before_call():
    """explicitly enabled invariants; the object is broken without going through a checked operation; the next public
    operation must be stopped BEFORE its body in every interpreter mode"""
    out = {}
    for flavour in ("method", "property", "async_method", "setattr"):
        ran = []
        co = icontract.InvariantCheckEvent.ALL if flavour == "setattr" else icontract.InvariantCheckEvent.CALL

        @icontract.invariant(lambda self: len(self.items) < 3, enabled=True, check_on=co)
        class K:
            def __init__(self):
                self.items = [1]

            def m(self):
                ran.append("m")
                del self.items[:]
                return 1

            @property
            def p(self):
                ran.append("p")
                return 2

            async def am(self):
                ran.append("am")
                return 3

        o = K()
        o.items.extend([2, 3, 4])          # mutated through an alias: no checked operation involved
        try:
            if flavour == "method":
                o.m()
            elif flavour == "property":
                o.p
            elif flavour == "async_method":
                c = o.am()
                try:
                    c.send(None)
                except StopIteration:
                    pass
            else:
                o.other = 5
            res = "returned"
        except icontract.ViolationError:
            res = "violation"
        except BaseException as e:  # noqa: B902
            res = type(e).__name__
        out[flavour] = [res, list(ran)]
    # an explicitly enabled precondition that strengthens a base method without preconditions: refused at class creation
    try:
        class A(icontract.DBC):
            def m(self, x):
                return x

        class B(A):
            @icontract.require(lambda x: x > 0, enabled=True)
            def m(self, x):
                return x

        try:
            B().m(-1)
            res = "created-and-accepted"
        except icontract.ViolationError:
            res = "created-and-enforced"
    except TypeError:
        res = "TypeError"
    out["strengthening_override"] = [res, []]
    # ONE enabled invariant decorator object applied to a class and to its subclass
    ran = []
    try:
        def small(self):
            return len(self.items) < 3

        inv = icontract.invariant(small, enabled=True)

        class P:
            def __init__(self):
                self.items = [1]

            def m(self):
                ran.append("m")
                return 1

        P = inv(P)

        class Q(P):
            def n(self):
                ran.append("n")
                return 2

        Q = inv(Q)
        o = Q()
        o.items.extend([2, 3, 4])
        try:
            o.n()
            res = "returned"
        except icontract.ViolationError:
            res = "violation"
    except BaseException as e:  # noqa: B902
        res = type(e).__name__
    out["shared_invariant_object"] = [res, list(ran)]
    out["refusals"] = [refusals(), []]
    out["slow_env"] = [slow_env_rows(), []]
    # the text of a violation of an explicitly enabled contract whose condition is a documented named function
    texts = []
    try:
        def x_is_positive(x):
            """Accept only the strictly positive numbers."""
            return x > 0

        @icontract.require(x_is_positive, enabled=True)
        @icontract.ensure(x_is_positive, enabled=True)
        def f(x):
            return x

        try:
            f(-1)
            texts.append("returned")
        except icontract.ViolationError as e:
            texts.append(str(e).replace(__file__, "<file>"))

        class Err(Exception):
            pass

        @icontract.require(x_is_positive, enabled=True, error=Err)
        def g(x):
            return x

        try:
            g(-1)
            texts.append("returned")
        except Err as e:
            texts.append(str(e).replace(__file__, "<file>"))
    except BaseException as e:  # noqa: B902
        texts.append(type(e).__name__)
    # the same contract written with keyword arguments only, the condition not first
    try:
        @icontract.require(description="must be positive", condition=lambda x: x > 0, enabled=True)
        def h(x):
            return x

        try:
            h(-1)
            texts.append("returned")
        except icontract.ViolationError as e:
            texts.append(str(e).replace(__file__, "<file>"))
    except BaseException as e:  # noqa: B902
        texts.append(type(e).__name__)
    # a lambda condition with sub-expressions worth reporting (a call, an attribute, a subscript, a global)
    try:
        class Box:
            def __init__(self):
                self.size = 2

            def __repr__(self):
                return "Box()"

        @icontract.require(lambda xs, box: len(xs) > box.size + xs[0] + LIMIT_FOR_MESSAGES, enabled=True)
        def k(xs, box):
            return xs

        try:
            k([1, 2], Box())
            texts.append("returned")
        except icontract.ViolationError as e:
            texts.append(str(e).replace(__file__, "<file>"))
    except BaseException as e:  # noqa: B902
        texts.append(type(e).__name__)
    out["message_text"] = texts
    # a snapshot (with its explicitly enabled postcondition) that reaches a class over two bases
    ran = []
    try:
        class A(icontract.DBC):
            @icontract.snapshot(lambda self: len(self.items), name="n", enabled=True)
            @icontract.ensure(lambda self, OLD: len(self.items) == OLD.n + 1, enabled=True)
            def push(self):
                self.items.append(1)

        class B(A):
            pass

        class C(A):
            pass

        try:
            class D(B, C):
                def __init__(self):
                    self.items = []

                def push(self):
                    ran.append("push")
                    if len(self.items) < 1:
                        self.items.append(1)

            o = D()
            o.push()
            try:
                o.push()
                res = "second push returned"
            except icontract.ViolationError:
                res = "violation"
        except ValueError:
            res = "class refused with ValueError"
    except BaseException as e:  # noqa: B902
        res = type(e).__name__
    out["diamond_snapshot"] = [res, []]
    return out


def main():
    cases = json.load(open(sys.argv[1]))
    out = {"debug": __debug__, "SLOW": bool(icontract.SLOW), "optimize": sys.flags.optimize, "table": {}, "obs": []}
    for deco in ("require", "ensure", "snapshot", "snapshotOverOld", "invariant", "requirePositional", "ensurePositional", "snapshotPositional",
                 "requireOnChecker", "ensureOnChecker",
                 "requireOnStaticObj", "ensureOnStaticObj", "requireOnClassmObj", "ensureOnClassmObj"):
        for arg in ("dflt", "explicitTrue", "explicitFalse", "slow"):
            if deco.endswith("Positional") and arg == "dflt":
                continue
            try:
                out["table"]["%s/%s" % (deco, arg)] = row(deco, arg)
            except BaseException as e:  # noqa: B902
                out["table"]["%s/%s" % (deco, arg)] = {"error": "%s: %s" % (type(e).__name__, e)}
    out["broken_before_call"] = broken_before_call()
    for c in cases:
        o = implck.run(c)
        out["obs"].append({"trace": o.get("trace"), "out": o.get("out"), "define": o.get("define"), "inprog": o.get("inprog")})
    json.dump(out, sys.stdout)


if __name__ == "__main__":
    main()
