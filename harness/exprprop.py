"""Shared machinery of the expression properties C06 / C07 / C20: cases, the tie with the Lean
model (`expr` driver domain: visit + collectLines + reprPairs against the real message and the real
`recomputed_values`; `pyEval` against the instrumented CPython evaluation) and the property oracles."""
import ast
import copy
import reprlib

import exprtie
import genexpr
import implexpr

ARGS = implexpr.ARGS
GLOB = {"GL": 7, "y": 1000, "cl": 77, "format": 1234}
CLOSURE = {"cl": 5}
COMP_KINDS = ("ListComp", "SetComp", "DictComp", "GeneratorExp")


def norm(text):
    for t in (text.strip(), "(" + text + ")"):
        try:
            return ast.dump(ast.parse(t, mode="eval").body)
        except SyntaxError:
            continue
    return None


def a_repr_of(case):
    if case.get("a_repr"):
        r = reprlib.Repr()
        for k, v in case["a_repr"].items():
            setattr(r, k, v)
        return r
    return implexpr.icontract.aRepr


# ---------------------------------------------------------------- cases

def make_case(rng, depth=3, features=None, layout=None, params=None, **extra):
    c = genexpr.falsifying_case(rng, max_depth=depth, features=features, glob=GLOB, closure=CLOSURE)
    if c is None:
        return None
    c["dom"] = "expr"
    c["layout"] = layout or rng.choice(implexpr.LAYOUTS)
    if params is not None:
        c["params"] = params
    c.update(extra)
    if c.get("kind") == "invariant":
        c["fields"] = list(c.get("params", ARGS))
        c["expr"] = implexpr.self_expr(c["expr"], c["fields"])
        c["params"] = ["self"]
    return c


MODEL_FEATURES = {"comp": True, "all": False, "fstring": False, "walrus": False, "star": False, "guard": True,
                  "chain": True, "ifexp": True, "dict": False}
ALL_FEATURES = {"comp": True, "all": True, "fstring": True, "walrus": True, "star": False, "guard": True,
                "chain": True, "ifexp": True, "dict": True}


def special_cases(rng):
    for params, expr, ov in genexpr.SPECIAL:
        env = genexpr.random_env(rng) if params is None else {}
        env.update(ov)
        c = {"dom": "expr", "expr": expr, "env": env, "layout": "oneline"}
        if params is not None:
            c["params"] = params
        yield c


def tick_case(rng, depth=2):
    """a falsifying condition with side-effect probes `tick(<int expr>)` outside comprehensions"""
    feats = dict(MODEL_FEATURES, comp=False)
    for _ in range(8):
        c = genexpr.falsifying_case(rng, max_depth=depth, features=feats, glob=GLOB, closure=CLOSURE)
        if c is None:
            continue
        # wrap every integer leaf name occurrence x / y in tick(...)
        tree = implexpr.parse_expr(c["expr"])

        class W(ast.NodeTransformer):
            def visit_Name(self, n):
                if n.id in ("x", "y") and isinstance(n.ctx, ast.Load) and rng.random() < 0.7:
                    return ast.Call(func=ast.Name(id="tick", ctx=ast.Load()), args=[n], keywords=[])
                return n

        new = ast.unparse(W().visit(tree))
        if "tick(" not in new:
            continue
        c["expr"] = new
        c["dom"] = "expr"
        c["layout"] = rng.choice(implexpr.LAYOUTS)
        return c
    return None


# ---------------------------------------------------------------- the model side

_CACHE = {}


def names_of(case):
    params = case.get("params", ARGS)
    env = implexpr.make_env(case["env"])
    if case.get("kind") == "invariant":
        env = {"self": _Plain(dict((k, v) for k, v in env.items() if k in case["fields"]))}
    else:
        fparams = case.get("fparams", params)
        env = dict((k, v) for k, v in env.items() if k in fparams)
        env.update(case.get("extra_kwargs", {}))
    # what a name in the condition means is decided by PYTHON's scoping: the condition's own parameters, then its closure,
    # then the globals of its module.  A parameter of the decorated function which the condition does not take is no
    # variable of the condition: it only gets a line of its own in the message (`kwargs` of the model input).
    names = dict(GLOB)
    names.update(case.get("_closure", CLOSURE))
    names.update(cond_env(case, env))
    return env, names


def cond_env(case, env):
    if case.get("kind") == "invariant":
        return env
    params = case.get("params", ARGS)
    if any(p.startswith("*") for p in params):
        return env
    out = dict((k, v) for k, v in env.items() if k in params)
    out.update(case.get("cond_defaults") or {})     # parameters of the condition's own: the call never supplies them
    return out


class _Plain:
    def __init__(self, d):
        self.__dict__.update(d)


def lean_input(case):
    key = id(case)
    hit = _CACHE.get(key)
    if hit is not None and hit[0] is case:
        return hit[1], hit[2]
    params = case.get("params", ARGS)
    out, objs = None, []
    if case.get("kind", "require") == "require" and not case.get("named") and "_ARGS" not in params and "_KWARGS" not in params and "tick(" not in case["expr"] \
            and not any(isinstance(v, str) and v.isupper() for v in case["env"].values()):
        env, names = names_of(case)
        # the model gets the call as it is - ALL the arguments of the decorated function's call, the condition's parameters and
        # their defaults, the closure, the globals - and builds the name table itself (`Tbl.ofCall`, model of
        # `collect_variable_lookup`); invariants have the one argument `self`
        as_call = case.get("kind") != "invariant"
        out = exprtie.to_lean(case["expr"], names, objs, lookups=[env if as_call else cond_env(case, env), dict(CLOSURE), dict(GLOB)])
        if out is not None:
            kw = []
            for k in sorted(env.keys()):
                j = implexpr.to_val(env[k], objs)
                if j is None:
                    out = None
                    break
                kw.append([k, j])
            if out is not None:
                out["kwargs"] = kw
                out["condParams"] = list(params)
                if as_call:
                    dflt = []
                    for k, v in sorted((case.get("cond_defaults") or {}).items()):
                        j = implexpr.to_val(v, objs)
                        if j is None:
                            out = None
                            break
                        dflt.append([k, j])
                    if out is not None:
                        out["call"] = True
                        out["condDefaults"] = dflt
    if len(_CACHE) > 50000:
        _CACHE.clear()
    _CACHE[key] = (case, out, objs)
    return out, objs


def all_inputs(case):
    if case.get("dom") == "hashseed" or "(" not in case["expr"]:
        return []
    _env, names = names_of(case)
    try:
        calls = all_calls(case["expr"], names)
    except SyntaxError:
        return []
    if not calls:
        return []
    outs = []
    for c in calls:
        _t, _a, truths = iteration_of(c, names)
        outs.append({"dom": "alltrace", "truths": truths})
    return outs


_SCAN = {}
_INSPECTED = {}


def scan_input(case):
    if case.get("dom") == "batchorder":
        return None
    return _scan_input(case)


def _scan_input(case):
    """the source file the materialiser will generate for this case, classified line by line with the library's
    own regular expressions, and the line of the `lambda` (what `inspect.findsource` reports for the condition)"""
    if case.get("dom") == "hashseed" or case.get("named"):
        return None
    key = id(case)
    hit = _SCAN.get(key)
    if hit is not None and hit[0] is case:
        return hit[1]
    src = implexpr.full_source([case])
    lines = src.splitlines(keepends=True)
    params = ["self"] if case.get("kind") == "invariant" else case.get("params", ARGS)
    needle = "lambda %s:" % implexpr.lambda_header(case, params)
    idx = [i for i, ln in enumerate(lines) if needle in ln]
    out = None
    if len(idx) == 1:
        out = {"dom": "srcscan", "kinds": implexpr.classify_lines(lines), "lineno": idx[0], "_lines": lines}
    if len(_SCAN) > 50000:
        _SCAN.clear()
    _SCAN[key] = (case, out)
    return out


def driver_inputs(case):
    if case.get("dom") in ("hashseed", "batchorder"):
        return []
    li, _objs = lean_input(case)
    si = scan_input(case)
    return ([li] if li is not None else []) + all_inputs(case) + ([dict((k, v) for k, v in si.items() if k != "_lines")] if si else [])


_LEFT = {}


def mark_fragment(case, mos):
    """A case whose translated expression applies an operation the driver's concrete `Ops` does not implement (it answers
    NotImplemented: e.g. an f-string conversion of a string that needs escaping) leaves the fragment at run time:
    it is then checked against the CPython oracle only, exactly like a case `exprtie.to_lean` rejects statically."""
    e = split_mos(mos)[0]
    left = False
    if e is not None:
        py, vis = e.get("py", {}), e.get("visit", {}).get("out")
        left = py.get("exc") == "NotImplemented" or (isinstance(vis, dict) and vis.get("exc") == "NotImplemented") \
            or bool(e.get("hiddenNotImplemented"))      # ... inside a comprehension part, where the harvest swallows it
    if len(_LEFT) > 50000:
        _LEFT.clear()
    if left:
        _LEFT[id(case)] = case
    elif _LEFT.get(id(case)) is case:
        del _LEFT[id(case)]
    return left


def left_fragment(case):
    return _LEFT.get(id(case)) is case


def split_mos(mos):
    """(the expr-domain output or None, the alltrace outputs in source order of the all(...) calls)"""
    expr = [m for m in (mos or []) if "py" in m]
    return (expr[0] if expr else None), [m for m in (mos or []) if "firstFalsy" in m]


def model_view(case, mos):
    view = _expr_view(case, mos)
    scan = [m for m in (mos or []) if "scan" in m]
    si = scan_input(case)
    if scan and si:
        import textwrap
        r = scan[0]["scan"]
        if isinstance(r, list):
            text = textwrap.dedent("".join(si["_lines"][r[0]:r[1]]))
        else:
            text = r
        view = dict(view or {})
        view["scan_text"] = text
        view["is_model"] = True
    return view


def _unwrapped_ids(e, acc=None, under_fstring=False):
    acc = set() if acc is None else acc
    if isinstance(e, dict) and "k" in e:
        k = e["k"]
        if k in ("slice", "starred", "fvalue") or (k == "const" and under_fstring):
            acc.add(e["id"])
        for key, v in e.items():
            if key in ("k", "id"):
                continue
            if k == "fvalue" and key == "spec" and isinstance(v, dict):
                acc.add(v["id"])          # the format specification (itself a JoinedStr) is not wrapped either
            _unwrapped_ids(v, acc, under_fstring=(k == "fstring" and key == "parts"))
    elif isinstance(e, list):
        for v in e:
            _unwrapped_ids(v, acc, under_fstring)
    return acc


def _expr_view(case, mos):
    mo, _alls = split_mos(mos)
    if mo is None or mark_fragment(case, mos):
        return None
    li, objs = lean_input(case)
    ar = a_repr_of(case)

    def render(j):
        if isinstance(j, dict) and "fn" in j:
            return "<fn>"
        return ar.repr(implexpr.from_val(j, objs))

    view = {}
    py = mo["py"]
    # nodes the CPython oracle cannot wrap (a slice, a starred element, a formatted value, the constant pieces of an
    # f-string are no expressions of their own in the instrumented source): left out of the model's Python log
    unwrapped = _unwrapped_ids(li["expr"])
    if "exc" in py:
        view["py"] = ["exc", py["exc"]]
    else:
        view["py"] = ["ok", render(py["value"]), [[i, render(v)] for i, v in py["log"] if i not in unwrapped]]
    vis = mo["visit"]
    view["visit_out"] = vis["out"]
    rec = {}
    for i, v in vis["log"]:
        rec[i] = render(v)
    view["recomputed"] = sorted(rec.items())
    view["entries"] = [[norm(k), render(v)] for k, v in mo["pairs"]]
    falsy = ("value" in py) and not implexpr.from_val(py["value"], objs)
    view["out"] = "ViolationError" if (falsy and not (isinstance(vis["out"], dict) and "exc" in vis["out"])) else "other"
    return view


def project(case, obs):
    """what model and implementation must agree on"""
    if case.get("dom") in ("hashseed", "batchorder"):
        return "untied"
    li, _objs = lean_input(case)
    if left_fragment(case):
        li = None
    si = scan_input(case)
    if obs is None or (li is None and si is None):
        return "untied"
    out = {}
    if obs.get("is_model") or "visit_out" in obs:                  # the model's view
        # (the engine projects the implementation's observation of a case first: whether the library inspected the
        # decorator at all - it does so only when it has to render a lambda condition - is remembered from there)
        if si is not None and _INSPECTED.get(id(case), True):
            out["scan_text"] = obs.get("scan_text")
        if li is not None and "visit_out" in obs:
            py = obs["py"]
            out.update({"out": obs["out"], "entries": obs["entries"], "recomputed": [list(p) for p in obs["recomputed"]],
                        "python": py if py[0] == "exc" else ["ok", py[1], py[2]]})
        return out
    # the implementation's observation
    if obs.get("define") != ["ok"]:
        return {"define": obs.get("define")}
    if si is not None:
        scans = obs.get("scans") or []
        if len(_INSPECTED) > 100000:
            _INSPECTED.clear()
        _INSPECTED[id(case)] = bool(scans)
        if scans:
            out["scan_text"] = scans[0]["result"]
        if scans and (scans[0]["lineno"] != si["lineno"] or scans[0]["kinds"] != si["kinds"]):
            out["scan_text"] = ["harness: the generated file differs from the predicted one", scans[0]["lineno"], si["lineno"]]
    if li is None:
        return out
    inner = inner_positions(case["expr"])
    ev = [[e["pos"], e["rendered"] if e["representable"] else "<fn>"] for e in obs["evaluated"]
          if e["pos"] is not None and e["pos"] not in inner]
    if obs["oracle_exc"] is not None:
        python = ["exc", obs["oracle_exc"]]
    else:
        python = ["ok", ev[-1][1] if ev else None, ev]
    rec = {}
    for r in obs.get("recomputed", []):
        if r["pos"] is not None:
            rec[r["pos"]] = r["rendered"] if r["type"] not in implexpr.UNREPRESENTABLE_TYPES and r["representable"] else "<fn>"
    out.update({"out": obs["out"][0] if obs["out"][0] == "ViolationError" else "other",
                "entries": [[norm(k), v] for k, v in obs.get("entries", [])],
                "recomputed": [list(p) for p in sorted(rec.items())], "python": python})
    return out


_INNER = {}


def inner_positions(expr):
    if expr in _INNER:
        return _INNER[expr]
    res = set()
    if "\n" not in expr:
        tree, keys, order = implexpr.position_keys(expr)
        ids = dict((id(n), i) for i, n in enumerate(order))
        def mark(n, inside):
            # the iterable of a comprehension's first `for` belongs to the enclosing scope
            if inside and id(n) in ids:
                res.add(ids[id(n)])
            if type(n).__name__ in COMP_KINDS:
                first = n.generators[0].iter
                for ch in ast.iter_child_nodes(n):
                    if isinstance(ch, ast.comprehension):
                        for sub in ast.iter_child_nodes(ch):
                            mark(sub, inside if sub is first else True)
                    else:
                        mark(ch, True)
            else:
                for ch in ast.iter_child_nodes(n):
                    mark(ch, inside)

        mark(tree, False)
    if len(_INNER) > 20000:
        _INNER.clear()
    _INNER[expr] = res
    return res


# ---------------------------------------------------------------- oracles

def hidden_argument_line(case, io, k):
    """An argument `k` of the call which the condition does not take, while the condition's text uses a closure / global
    variable of that name: the line `k was ...` belongs to that variable; returns the renderings it may show
    (Python's scoping: closure, then globals), or None when `k` is no such argument."""
    params = case.get("params", ARGS)
    if case.get("kind") == "invariant" or k in params or any(p.startswith("*") for p in params):
        return None
    if k not in io["args_rendered"] or k not in used_names(case["expr"]):
        return None
    _env, names = names_of(case)
    if k not in names:
        return None
    own = [e["rendered"] for e in io["evaluated"] if e["kind"] == "Name" and e["text"] == k]
    try:
        own.append(implexpr._noaddr(a_repr_of(case).repr(names[k])))
    except BaseException:  # noqa: B902
        pass
    return own


def used_names(expr):
    return set(n.id for n in ast.walk(implexpr.parse_expr(expr)) if isinstance(n, ast.Name) and isinstance(n.ctx, ast.Load))


def all_calls(expr, names=None):
    """the `all(<generator expression>)` calls of the condition that are not inside a comprehension, in source order;
    what counts is the FUNCTION the callee's name resolves to (the built-in `all`, under whatever name), not its spelling"""
    import builtins
    tree = implexpr.parse_expr(expr)

    def is_all(name):
        if names is None:
            return name == "all"
        return names.get(name, getattr(builtins, name, None)) is builtins.all

    inside = set()
    for n in ast.walk(tree):
        if isinstance(n, (ast.ListComp, ast.SetComp, ast.DictComp, ast.GeneratorExp)):
            for d in ast.walk(n):
                if d is not n:
                    inside.add(id(d))
    out = []
    for n in ast.walk(tree):
        if isinstance(n, ast.Call) and isinstance(n.func, ast.Name) and is_all(n.func.id) and len(n.args) == 1 \
                and isinstance(n.args[0], ast.GeneratorExp) and not n.keywords and id(n) not in inside:
            out.append(n)
    out.sort(key=lambda n: (n.lineno, n.col_offset))
    return out


def iteration_of(call_node, scope):
    """(targets, [assignment tuples], [truth of the element or "raise"]) in Python's iteration order; the
    iteration stops at the first element whose evaluation or truth test raises"""
    gen = copy.deepcopy(call_node.args[0])
    targets = []
    for g in gen.generators:
        for n in ast.walk(g.target):
            if isinstance(n, ast.Name) and n.id not in targets:
                targets.append(n.id)
    elt = gen.elt
    gen.elt = ast.Tuple(elts=[ast.Name(id=t, ctx=ast.Load()) for t in targets] + [ast.Lambda(
        args=ast.arguments(posonlyargs=[], args=[ast.arg(arg=t) for t in targets], kwonlyargs=[], kw_defaults=[], defaults=[
            ast.Name(id=t, ctx=ast.Load()) for t in targets]), body=elt)], ctx=ast.Load())
    expr = ast.Expression(gen)
    ast.fix_missing_locations(expr)
    assigns, truths = [], []
    try:
        it = eval(compile(expr, "<all>", "eval"), dict(scope))
        for item in it:
            vals, thunk = item[:-1], item[-1]
            assigns.append(vals)
            try:
                truths.append(bool(thunk()))
            except Exception:  # noqa: B902
                truths.append("raise")
                break
    except Exception:  # noqa: B902 - the iteration itself raises
        assigns.append(None)
        truths.append("raise")
    return targets, assigns, truths


def first_falsifying(call_node, scope):
    """the first assignment of the loop variables of `all(<generator>)` that makes the element falsy"""
    gen = copy.deepcopy(call_node.args[0])
    targets = []
    for g in gen.generators:
        for n in ast.walk(g.target):
            if isinstance(n, ast.Name) and n.id not in targets:
                targets.append(n.id)
    gen.generators[-1].ifs.append(ast.UnaryOp(op=ast.Not(), operand=gen.elt))
    gen.elt = ast.Tuple(elts=[ast.Name(id=t, ctx=ast.Load()) for t in targets], ctx=ast.Load())
    expr = ast.Expression(ast.Call(func=ast.Name(id="next", ctx=ast.Load()), args=[gen, ast.Constant(None)], keywords=[]))
    ast.fix_missing_locations(expr)
    vals = eval(compile(expr, "<all>", "eval"), dict(scope))
    if vals is None:
        return None
    return dict(zip(targets, vals))


def check_all_example(tree, d, key, val, names, ar, case=None, mos=None):
    """the `all(...) was False, e.g., with` block shows the first falsifying assignment, through a_repr.
    Which assignment is the first falsifying one is decided by the model (`traceAllIdx` over the iteration
    CPython produces) when the call is a top-level `all(<generator>)`; otherwise by direct evaluation."""
    call = [n for n in ast.walk(tree) if isinstance(n, ast.Call) and ast.dump(n) == d]
    try:
        want = first_falsifying(call[0], names)
    except Exception as ex:  # noqa: B902
        return "could not compute the first falsifying assignment of %s: %r" % (key, ex)
    if case is not None and mos:
        _e, alls = split_mos(mos)
        tops = all_calls(case["expr"], names)
        for j, c in enumerate(tops):
            if ast.dump(c) == d and j < len(alls) and isinstance(alls[j]["firstFalsy"], int):
                targets, assigns, _truths = iteration_of(c, names)
                by_model = dict(zip(targets, assigns[alls[j]["firstFalsy"]]))
                if want is not None and dict((k, ar.repr(v)) for k, v in by_model.items()) != dict((k, ar.repr(v)) for k, v in want.items()):
                    import common
                    raise common.Infra("harness: model and direct evaluation disagree on the first falsifying assignment of %s" % key)
                want = by_model
                break
    got = {}
    cur = None
    for ln in val.split("\n")[1:]:
        if ln.startswith("  ") and " = " in ln and not ln.startswith("   "):
            a, b = ln.strip().split(" = ", 1)
            got[a] = b
            cur = a
        elif cur is not None:
            got[cur] += "\n" + ln
    wantr = dict((k, ar.repr(v)) for k, v in (want or {}).items())
    if got != wantr:
        return "%s: the example %s is not the first falsifying assignment rendered by the contract's a_repr %s" % (key, str(got)[:300], str(wantr)[:300])
    return None


def all_calls_spelled(expr):
    """calls `<name>(<generator expression>)` outside comprehensions, whatever the name resolves to"""
    class _Any(dict):
        def get(self, k, d=None):
            import builtins
            return builtins.all
    return all_calls(expr, _Any())


def check_values(case, io, mos=None):
    """C06: soundness and completeness of the value lines"""
    fails = []
    if io.get("define") != ["ok"] or not io["oracle_value_falsy"] or io["out"][0] != "ViolationError":
        return fails
    params = case.get("params", ARGS)
    ar = a_repr_of(case)
    env, names = names_of(case)
    ev_by_dump, nodes_by_dump = {}, {}
    for e in io["evaluated"]:
        ev_by_dump.setdefault(e["dump"], []).append(e)
    for nd in io["nodes"]:
        nodes_by_dump.setdefault(nd["dump"], []).append(nd)
    shown = {}
    tree = implexpr.parse_expr(case["expr"])
    walrus = {}
    walrus_hidden = set()
    for e in io["evaluated"]:
        if e["kind"] == "NamedExpr" and not e["in_comp"]:
            walrus[e["text"].lstrip("(").split(":=")[0].strip()] = e["rendered"]
            if not e["representable"]:
                walrus_hidden.add(e["text"].lstrip("(").split(":=")[0].strip())
    for key, val in io["entries"]:
        d = norm(key)
        if d is None:
            fails.append("the line key %r is not an expression" % key)
            continue
        shown[d] = val
        is_arg = key.strip() in params or key.strip() in io["args_rendered"]
        if is_arg and io["args_rendered"].get(key.strip()) == val:
            continue
        if key.strip() in walrus_hidden and not is_arg and key.strip() not in names:
            fails.append("%s (the target of an assignment expression bound to a class / function / method / module / builtin) is shown as %s"
                         % (key.strip(), val[:60]))
            continue
        if key.strip().isidentifier() and key.strip() not in names and key.strip() not in walrus and not is_arg:
            fails.append("%s is shown (as %s), but it is a built-in name - neither an argument nor a closure / global variable" % (key.strip(), val[:60]))
            continue
        if d in ev_by_dump:
            cands = [e["rendered"] for e in ev_by_dump[d]]
            if val in cands:
                continue
            if val.startswith("False, e.g., with") and any(e["rendered"] == "False" for e in ev_by_dump[d]):
                if d not in [ast.dump(c) for c in all_calls(case["expr"], names)] and \
                        d in [ast.dump(c) for c in all_calls_spelled(case["expr"])]:
                    fails.append("%s: a falsifying example is shown for a call that is not a call of the built-in all "
                                 "(the name is bound to %r here)" % (key, names.get(key.split("(")[0].strip())))
                    continue
                f = check_all_example(tree, d, key, val, names, ar, case, mos)
                if f:
                    fails.append(f)
                continue
            fails.append("%s was shown as %s, Python computed %s" % (key, val, cands[0]))
        elif key.strip() in walrus_hidden:
            fails.append("%s (the target of an assignment expression bound to a class / function / method / module / builtin) is shown as %s"
                         % (key.strip(), val[:60]))
        elif key.strip() in walrus and walrus[key.strip()] == val:
            continue            # the target of an evaluated assignment expression, with the value Python bound
        elif is_arg:
            if io["args_rendered"].get(key.strip()) != val and val not in (hidden_argument_line(case, io, key.strip()) or []):
                fails.append("argument %s was shown as %s, its configured repr is %s" % (key, val, io["args_rendered"].get(key.strip())))
        elif d in nodes_by_dump:
            if any(nd["in_comp"] for nd in nodes_by_dump[d]):
                continue         # (also) inside a comprehension scope: harvested best effort; lines are keyed by text
            fails.append("%s was %s is shown, but Python never evaluated that sub-expression" % (key, val))
        else:
            fails.append("%s is neither a sub-expression of the condition nor an argument" % key)
    # a call of the built-in all (under whatever name) over a generator expression that Python evaluated to False and that
    # has a falsifying element is shown WITH the first falsifying assignment
    try:
        quantifiers = all_calls(case["expr"], names)
    except SyntaxError:
        quantifiers = []
    for c in quantifiers:
        d = ast.dump(c)
        if d in shown and not shown[d].startswith("False, e.g., with") and any(e["rendered"] == "False" for e in ev_by_dump.get(d, [])):
            try:
                ff = first_falsifying(c, names)
            except Exception:  # noqa: B902
                ff = None
            if ff is not None and shown[d] == "False":
                fails.append("%s was False is shown without the falsifying assignment %s" % (ast.unparse(c), str(ff)[:100]))
    # every representable argument is listed
    for k, r in io["args_rendered"].items():
        if r is None:
            continue
        if shown.get(norm(k)) != r:
            # one line per expression text: an argument which the condition does not take, named like a closure / global
            # variable the condition READS, cannot have a line of its own - the line of that name belongs to the condition's
            # variable and has to show the value Python used (known finding: the argument is not listed)
            own = hidden_argument_line(case, io, k)
            if own and shown.get(norm(k)) in own:
                fails.append("[argument-hidden-by-same-named-variable] argument %s (repr %s) has no line: the condition reads a closure / "
                             "global variable of that name, shown as %s" % (k, r, shown[norm(k)]))
                continue
            fails.append("argument %s (repr %s) is %s" % (k, r, "missing" if norm(k) not in shown else "shown as " + shown[norm(k)]))
    # completeness
    if not any(names.get(n, 0) is None for n in used_names(case["expr"])):
        for e in io["evaluated"]:
            if e["in_comp"] or e["kind"] not in ("Name", "Attribute", "Call", "Subscript", "ListComp", "SetComp", "DictComp"):
                continue
            if e["kind"] == "Name":
                nm = e["text"]
                if nm not in names:
                    continue        # a builtin (or a name bound by an assignment expression)
            if e["kind"] in ("Name", "Attribute") and not e["representable"]:
                continue
            got = shown.get(e["dump"])
            if got is None:
                code = "[fstring-internals-not-listed] " if e["in_fstring"] else ""
                fails.append("%s%s (evaluated by Python to %s) has no line" % (code, e["text"], e["rendered"]))
            elif got != e["rendered"] and not (got.startswith("False, e.g., with") and e["rendered"] == "False"):
                if got not in [x["rendered"] for x in ev_by_dump[e["dump"]]]:
                    if e["in_fstring"] and e["kind"] == "Name" and hidden_argument_line(case, io, e["text"]) and \
                            got == io["args_rendered"].get(e["text"]) and \
                            all(x["in_fstring"] for x in ev_by_dump[e["dump"]]):
                        # the variable is read inside f-strings only (whose internals get no lines): the line of that name
                        # is the line of the ARGUMENT of the call, with the argument's value
                        fails.append("[fstring-internals-not-listed] %s (evaluated by Python to %s inside an f-string) has no line; "
                                     "the line of that name shows the argument of the call" % (e["text"], e["rendered"]))
                        continue
                    fails.append("%s shown as %s, evaluated to %s" % (e["text"], got, e["rendered"]))
    return fails


def check_surface(case, io):
    """C07: the violation surfaces as the contract's error with location, description and condition text;
    nothing Python skipped is evaluated"""
    fails = []
    if io.get("define") != ["ok"]:
        return ["definition failed: %s" % (io.get("define"),)]
    if not io["oracle_value_falsy"]:
        return fails
    if io["out"][0] != "ViolationError":
        return ["the falsy condition surfaced as %s (%s) instead of the contract's error" % (io["out"][0], (io["out"][1:] or [""])[0][:120])]
    loc = io.get("location") or ""
    if io["file"] not in loc:
        fails.append("the location %r does not name the file of the declaration" % loc)
    layout = case.get("layout", "oneline")
    span = {"oneline": 0, "description": 0, "keyword": 0, "neighbours": 0, "nested": 0, "in_init": 0, "multiline": 3 + case["expr"].count("\n") + 4,
            "comments": 3}[layout]
    import re
    m = re.search(r"line (\d+)", loc)
    if not m or not (io["decl_line"] <= int(m.group(1)) <= io["decl_line"] + span):
        fails.append("the location %r is not the declaration at line %s" % (loc, io["decl_line"]))
    hdr = io.get("header")
    if hdr is None:
        fails.append("the condition text in the message does not parse to the evaluated expression: %r" % io["message"][:200])
    elif layout in ("description", "multiline", "keyword", "comments") and hdr[0] != "descr 0":
        fails.append("the description is missing: %r" % io["message"][:120])
    if io["oracle_ticks"] or io.get("ticks"):
        if io["ticks"] != io["oracle_ticks"] * 2:
            fails.append("side-effect probes: one evaluation runs %s, the violating call ran %s (expected exactly twice the former)" % (io["oracle_ticks"], io["ticks"]))
    if "\n" not in case["expr"]:
        inner = inner_positions(case["expr"])
        evaluated = set(e["pos"] for e in io["evaluated"] if e["pos"] is not None)
        for r in io.get("recomputed", []):
            if r["dump"].split("(")[0] in ("Constant", "Slice", "JoinedStr", "FormattedValue", "Starred"):
                continue        # not instrumented by the oracle: no evaluation of user code of their own
            if r["pos"] is not None and r["pos"] not in evaluated and r["pos"] not in inner:
                fails.append("the re-evaluator computed node %d (%s), which Python's evaluation skipped" % (r["pos"], r["dump"][:60]))
    return fails


def check_determinism(case, io, mos=None):
    """C20 on one case with call variants"""
    fails = []
    if io.get("define") != ["ok"]:
        return ["definition failed: %s" % (io.get("define"),)]
    if not io["oracle_value_falsy"] or io["out"][0] != "ViolationError":
        return fails
    msgs = io["variant_msgs"]
    for vi, m in enumerate(msgs):
        if m != msgs[0]:
            fails.append("call variant %d (%s) gives a different message:\n%s\n--- vs ---\n%s" % (vi, (case.get("variants") or [{}])[vi], m[1] if len(m) > 1 else m, msgs[0][1]))
            break
    keys = [k for k, _v in io["entries"]]
    for k in ("_ARGS", "_KWARGS"):
        if k in case.get("params", ARGS) and k not in keys:
            fails.append("%s is named by the condition but not shown" % k)
    if keys != sorted(keys):
        fails.append("the value lines are not sorted by expression text: %s" % keys)
    params = case.get("params", ARGS)
    for k, v in io["entries"]:
        own = hidden_argument_line(case, io, k)
        if own:
            # the line belongs to the condition's own (closure / global) variable of that name
            if v not in own:
                fails.append("%s is shown as %r, the contract's a_repr gives %r for the variable the condition read" % (k, v[:80], (own[0] or "")[:80]))
        elif k in io["args_rendered"]:
            want = io["args_rendered"][k]
            if want is None:
                fails.append("%s (a class / function / method / module / builtin) is shown" % k)
            elif v != want:
                fails.append("%s is shown as %r, the contract's a_repr gives %r" % (k, v[:80], want[:80]))
        if k in ("_ARGS", "_KWARGS") and k not in params:
            fails.append("%s is shown although the condition does not name it" % k)
    ev = {}
    for e in io["evaluated"]:
        ev.setdefault(e["dump"], []).append(e)
    _env, names = names_of(case)
    for e in io["evaluated"]:
        if e["kind"] == "NamedExpr" and not e["in_comp"] and not e["representable"]:
            target = e["text"].lstrip("(").split(":=")[0].strip()
            if target not in names and any(k.strip() == target for k, _v in io["entries"]):
                fails.append("%s (the target of an assignment expression bound to a class / function / method / module / builtin) is shown" % target)
    for k, v in io["entries"]:
        d = norm(k)
        if d in ev and v.startswith("False, e.g., with"):
            f = check_all_example(implexpr.parse_expr(case["expr"]), d, k, v, names, a_repr_of(case), case, mos)
            if f:
                fails.append(f)
        if d in ev and not v.startswith("False, e.g., with") and k not in io["args_rendered"]:
            # (an argument is judged above: inside a comprehension its name may be re-bound to other values)
            cands = [e["rendered"] for e in ev[d]]
            if v not in cands:
                fails.append("%s is shown as %r, the contract's a_repr gives %r" % (k, v[:80], (cands[0] or "")[:80]))
            if any(not e["representable"] for e in ev[d]) and ev[d][0]["kind"] in ("Name", "Attribute"):
                fails.append("%s (a class / function / method / module / builtin) is shown" % k)
    return fails


def classify(case, mos, io, fails):
    codes = set()
    for f in fails:
        if f.startswith("[") and "] " in f:
            codes.add(f[1:f.index("] ")])
        else:
            return "unclassified"
    return "+".join(sorted(codes)) if codes else "unclassified"


def run_hashseed(case):
    """the same violating calls in fresh interpreters under different hash seeds"""
    import json
    import os
    import subprocess
    import sys
    import tempfile
    d = tempfile.mkdtemp(prefix="verif_c20_")
    try:
        path = os.path.join(d, "cases.json")
        with open(path, "w") as fh:
            json.dump(case["cases"], fh)
        procs = []
        for seed in case["seeds"]:
            env = dict(os.environ)
            env["PYTHONHASHSEED"] = str(seed)
            env["PYTHONPATH"] = os.pathsep.join([os.path.dirname(os.path.abspath(__file__)), env.get("PYTHONPATH", "")])
            procs.append(subprocess.Popen([sys.executable, os.path.join(os.path.dirname(os.path.abspath(__file__)), "exprchild.py"), path],
                                          stdout=subprocess.PIPE, stderr=subprocess.PIPE, env=env, text=True))
        outs = []
        for pr in procs:
            so, se = pr.communicate(timeout=600)
            if pr.returncode != 0:
                return {"infra": "hash-seed child failed: %s" % se[-800:]}
            outs.append(json.loads(so))
        return {"define": ["ok"], "hashseed_outputs": outs}
    finally:
        import shutil
        shutil.rmtree(d, ignore_errors=True)


def check_hashseed(case, io):
    fails = []
    outs = io["hashseed_outputs"]
    for si, o in enumerate(outs[1:], 1):
        for ci, (a, b) in enumerate(zip(outs[0], o)):
            if a != b:
                fails.append("PYTHONHASHSEED=%s vs %s: the message of %r differs:\n%s\n--- vs ---\n%s"
                             % (case["seeds"][0], case["seeds"][si], case["cases"][ci]["expr"], a, b))
                break
    n_viol = sum(1 for m in outs[0] if isinstance(m, list) and m and m[0] and m[0][0] == "ViolationError")
    if n_viol < len(case["cases"]) // 2:
        fails.append("harness: only %d of %d hash-seed cases produced a violation" % (n_viol, len(case["cases"])))
    return fails


def run_batchorder(case):
    """several contracts defined in ONE scope (one module, one enclosing function), violated in different orders"""
    outs = []
    for order in case["orders"]:
        obs = implexpr.run_batch([case["cases"][i] for i in order])
        by_case = {}
        for i, o in zip(order, obs):
            by_case[i] = o
        outs.append([by_case[i] for i in range(len(case["cases"]))])
    return {"define": ["ok"], "orders": outs}


def _body_of(msg):
    import re
    if not isinstance(msg, str):
        return msg
    body = msg.split("\n", 1)[1] if msg.startswith("File ") and "\n" in msg else msg
    return re.sub(r"^descr \d+( of \{1, 2\} \{\} \{x\})?: ", lambda m_: "descr%s: " % (m_.group(1) or ""), body)       # (the harness numbers the descriptions by position in the module)


def check_batchorder(case, io):
    fails = []
    first = io["orders"][0]
    for i, sub in enumerate(case["cases"]):
        for f in check_determinism(sub, first[i]):
            fails.append("contract %d (%s): %s" % (i, sub["expr"], f))
        for oi, obs in enumerate(io["orders"][1:], 1):
            a, b = _body_of(first[i].get("message")), _body_of(obs[i].get("message"))
            if a != b or first[i]["out"] != obs[i]["out"]:
                fails.append("contract %d (%s): violated in the order %s its message is\n%s\n--- in the order %s it is ---\n%s"
                             % (i, sub["expr"], case["orders"][0], a, case["orders"][oi], b))
    return fails


def kinds_key(case):
    if case.get("dom") == "batchorder":
        return ("batchorder", tuple(c["expr"] for c in case["cases"]))
    if case.get("dom") == "hashseed":
        return ("hashseed", len(case["cases"]))
    try:
        kinds = sorted(set(type(n).__name__ for n in ast.walk(implexpr.parse_expr(case["expr"])) if isinstance(n, (ast.expr,))))
    except SyntaxError:
        kinds = ["?"]
    return (tuple(kinds), case.get("layout", "oneline"))


def _form_kinds(e, acc):
    if isinstance(e, dict) and "k" in e:
        acc.add(e["k"])
        for v in e.values():
            _form_kinds(v, acc)
    elif isinstance(e, list):
        for v in e:
            _form_kinds(v, acc)
    return acc


def stats(case, mos, io, dist):
    if case.get("dom") == "batchorder":
        dist["batchorder_cases"] += len(case["cases"]) * len(case["orders"])
        return
    if case.get("dom") == "hashseed":
        dist["hashseed_batches"] += 1
        dist["hashseed_cases"] += len(case["cases"])
        return
    dist["layout:" + case.get("layout", "oneline")] += 1
    _e, _alls = split_mos(mos)
    dist["tied_to_model:%s" % bool(_e and not left_fragment(case))] += 1
    if _e and not left_fragment(case):
        li, _o = lean_input(case)
        for kind in sorted(_form_kinds(li["expr"], set())):
            dist["tied_form:" + kind] += 1
    elif _e:
        dist["left_the_fragment_at_run_time"] += 1
    if _alls:
        dist["all_calls_decided_by_model"] += len(_alls)
    if io.get("scans") and scan_input(case) is not None:
        dist["decorator_extent_tied_to_model"] += 1
    if io.get("define") == ["ok"]:
        dist["out:" + io["out"][0]] += 1
        dist["value_lines:%d" % min(len(io.get("entries", [])), 12)] += 1
        for e in io["evaluated"]:
            dist["evaluated_kind:" + e["kind"]] += 1
        n_nodes = len(io["nodes"])
        n_ev = len(set(e["k"] for e in io["evaluated"]))
        if n_ev < len([nd for nd in io["nodes"] if not nd["in_comp"]]):
            dist["short_circuit_skipped_something"] += 1
        dist["nodes:%d" % min(n_nodes // 5 * 5, 40)] += 1
