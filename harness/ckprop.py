"""Shared pieces of the checker-domain properties (C01, C02, C08, C09, C11, C13, C16, ...)."""
import copy

import genck
import implck


def run_impl(case):
    return implck.run(case)


def model_view(case, mo):
    return implck.model_view(case, mo)


def entered(obs):
    return any(ev[0] == "body" for ev in obs["trace"])


def captured(obs):
    return any(ev[0] in ("capture", "awaitcapture") for ev in obs["trace"])


def ans_kind(a):
    return next(iter(a)) if isinstance(a, dict) else a


def shape_key(case):
    """Canonical key of a checker case: structure + oracle, ignoring concrete ids."""
    cond = dict((c, a) for c, a in case["cond"])

    def ak(a):
        k = ans_kind(a)
        if k == "val":
            t = a["val"]["t"]
            return "T" if t == "truthy" else ("F" if t == "falsy" else "BR")
        if k == "coro":
            return "C" + ak(a["coro"]["inner"])
        return "R"

    lv = tuple(
        (tuple((ak(cond[c["id"]]), ans_kind(c["err"]), c["coroFn"]) for c in l["pre"]),
         len(l["snaps"]),
         tuple((ak(cond[c["id"]]), ans_kind(c["err"])) for c in l["posts"]))
        for l in case["levels"])
    return (case["kind"], case["async"], lv, ans_kind(case["body"]), len(case["args"]), len(case["kwargs"]))


def shrink_candidates(case):
    """Smaller valid variants of a checker case."""
    if "levels" not in case:
        return
    for c in _shrink_candidates(case):
        if genck.valid(c):
            yield c


def _shrink_candidates(case):
    # drop the last level
    if len(case["levels"]) > 1:
        c = copy.deepcopy(case)
        c["levels"].pop()
        yield c
        c = copy.deepcopy(case)
        c["levels"].pop(0)
        if all(True for _ in c["levels"]):
            yield c
    for li, lv in enumerate(case["levels"]):
        for field in ("posts", "snaps", "pre"):
            for i in range(len(lv[field])):
                c = copy.deepcopy(case)
                c["levels"][li][field].pop(i)
                yield c
    # plain answers
    for i, (cid, a) in enumerate(case["cond"]):
        if ans_kind(a) != "val" or a["val"]["t"] not in ("truthy", "falsy"):
            c = copy.deepcopy(case)
            c["cond"][i][1] = genck.T(100 + cid)
            yield c
    if case["async"]:
        c = copy.deepcopy(case)
        c["async"] = False
        for lv in c["levels"]:
            for x in lv["pre"] + lv["posts"] + lv["snaps"]:
                x["coroFn"] = False
        yield c
    if case["kind"] not in ("function",) and len(case["levels"]) == 1 and case["kind"] in ("method", "static", "class"):
        c = copy.deepcopy(case)
        r = genck.RECV[case["kind"]]
        c["kind"] = "function"
        if r:
            genck.set_sig(c, c["sig"][1:])
            c["args"] = c["args"][1:]
            ok = True
            for lv in c["levels"]:
                for x in lv["pre"] + lv["posts"]:
                    if r in x["args"]:
                        ok = False
                    e = x["err"]
                    if isinstance(e, dict) and "fac" in e and r in e["fac"]["args"]:
                        ok = False
                for s in lv["snaps"]:
                    if r in s["args"]:
                        ok = False
            if ok:
                yield c
        else:
            yield c


def chain_lists(case):
    """Effective lists along the chain, read off the declaration (spec-level reading of C04)."""
    pre = [[c["id"] for c in lv["pre"]] for lv in case["levels"] if lv["pre"]]
    posts = [c["id"] for lv in case["levels"] for c in lv["posts"]]
    snaps = [s["id"] for lv in case["levels"] for s in lv["snaps"]]
    return pre, posts, snaps


def contracts_by_id(case):
    out = {}
    for lv in case["levels"]:
        for c in lv["pre"]:
            out[c["id"]] = ("pre", c)
        for c in lv["posts"]:
            out[c["id"]] = ("post", c)
    return out


def split_trace(case, obs):
    """Indices of the body event and the events before / after it."""
    tr = obs["trace"]
    bi = next((i for i, ev in enumerate(tr) if ev[0] == "body"), None)
    if bi is None:
        return tr, None, []
    return tr[:bi], tr[bi], tr[bi + 1:]


def body_bound(obs):
    for ev in obs["trace"]:
        if ev[0] == "body":
            return dict((k, v) for k, v in ev[1])
    return None


def expected_ret(case):
    b = case["body"]
    if ans_kind(b) != "ret":
        return None
    if case["kind"] in ("propset", "propdel", "init"):
        return ["ret", None]
    return ["ret", b["ret"]["v"]]


def py_bound(case):
    """What CPython binds for the call (`inspect.Signature.bind`)."""
    b = implck.py_bind(case)
    return b if b is not None else {}


def expected_value(case, name, bound, result_id, old):
    """The object a contract must receive for `name` (C05/C09 reading)."""
    if name == "_ARGS":
        return ["t", list(case["args"])]
    if name == "_KWARGS":
        return ["d", sorted([k, v] for k, v in case["kwargs"])]
    if name == "result":
        return ["o", result_id]
    if name == "OLD":
        return ["old", old]
    return bound.get(name)
