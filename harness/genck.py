"""Generators of checker-domain cases (see implck.py for the case format)."""
import itertools

KINDS = ["function", "method", "static", "class", "propget", "propset", "propdel", "init"]
ASYNC_KINDS = ["function", "method", "static", "class"]

RECV = {"function": None, "static": None, "method": "self", "class": "cls", "propget": "self", "propset": "self",
        "propdel": "self", "init": "self"}


def params_of(kind):
    r = RECV[kind]
    if kind == "propget" or kind == "propdel":
        return ["self"], []
    if kind == "propset":
        return ["self", "value"], []
    base = ["x", "y"]
    return ([r] if r else []) + base, [["y", 21]]


def default_call(kind):
    """(args, kwargs) binding every parameter in the plainest way."""
    if kind in ("propget", "propdel"):
        return [50], []
    if kind == "propset":
        return [50, 10], []
    if RECV[kind]:
        return [50, 10], []
    return [10], []


def exc(i, is_exception=True, truthy=True):
    return {"id": i, "isException": is_exception, "truthy": truthy}


def T(v):
    return {"val": {"v": v, "t": "truthy"}}


def F(v):
    return {"val": {"v": v, "t": "falsy"}}


def BR(v, e):
    return {"val": {"v": v, "t": {"raises": {"e": e}}}}


def R(e):
    return {"raises": {"e": e}}


def CORO(a):
    return {"coro": {"inner": a}}


def contract(cid, args, mandatory=None, coro_fn=False, err="none"):
    return {"id": cid, "args": list(args), "mandatory": list(args if mandatory is None else mandatory),
            "coroFn": coro_fn, "err": err}


def snapshot(sid, name, args, coro_fn=False):
    return {"id": sid, "name": name, "args": list(args), "coroFn": coro_fn}


def simple_sig(names, defaults):
    d = dict(defaults)
    return [{"name": n, "kind": "posOrKw", "default": d.get(n)} for n in names]


def set_sig(case, sig):
    """Install a signature; paramNames / kwdefaults are kept as derived conveniences for the harness."""
    case["sig"] = sig
    case["paramNames"] = [p["name"] for p in sig]
    case["kwdefaults"] = [[p["name"], p["default"]] for p in sig if p.get("default") is not None]
    return case


def base_case(kind, async_, levels):
    pn, dfl = params_of(kind)
    args, kwargs = default_call(kind)
    return {
        "dom": "checker", "kind": kind, "async": async_, "fid": 1, "levels": levels,
        "sig": simple_sig(pn, dfl),
        "paramNames": pn, "kwdefaults": dfl, "args": args, "kwargs": kwargs, "inProgress": [],
        "cond": [], "capture": [], "body": {"ret": {"v": 7}}, "fac": [], "msg": [],
    }


def all_contracts(case):
    for lv in case["levels"]:
        for c in lv["pre"]:
            yield "pre", c
        for c in lv["posts"]:
            yield "post", c


def fill_oracle_defaults(case):
    """Make the oracle total: every site the case mentions has an answer."""
    have = set(c for c, _ in case["cond"])
    for _role, c in all_contracts(case):
        if c["id"] not in have:
            case["cond"].append([c["id"], T(100 + c["id"])])
            have.add(c["id"])
        k = next(iter(c["err"])) if isinstance(c["err"], dict) else c["err"]
        if k == "fac" and c["id"] not in set(x for x, _ in case["fac"]):
            case["fac"].append([c["id"], {"exc": {"e": exc(300 + c["id"])}}])
        if c["id"] not in set(x for x, _ in case["msg"]):
            case["msg"].append([c["id"], "ok"])
    hs = set(s for s, _ in case["capture"])
    for lv in case["levels"]:
        for s in lv["snaps"]:
            if s["id"] not in hs:
                case["capture"].append([s["id"], T(200 + s["id"])])
                hs.add(s["id"])
    return case


def level_shapes(max_levels, max_per_group):
    """All tuples of own-precondition counts per level that a DBC chain accepts:
    a level may declare preconditions only if every earlier level does."""
    out = []
    for n in range(1, max_levels + 1):
        for sizes in itertools.product(range(0, max_per_group + 1), repeat=n):
            ok = True
            for i in range(1, n):
                if sizes[i] > 0 and sizes[i - 1] == 0:
                    ok = False
            if ok:
                out.append(sizes)
    return out


def avail_names(kind, role):
    pn, _ = params_of(kind)
    names = list(pn)
    return names


def pick_args(rng, kind, role, has_old):
    names = avail_names(kind, role)
    k = rng.randint(0, min(2, len(names)))
    sel = rng.sample(names, k)
    if rng.random() < 0.15:
        sel.append("_ARGS")
    if rng.random() < 0.15:
        sel.append("_KWARGS")
    if role == "post":
        if rng.random() < 0.6:
            sel.append("result")
        if has_old and rng.random() < 0.6:
            sel.append("OLD")
    return sel


ERR_KINDS = ["none", "cls", "inst", "fac"]


def pick_err(rng, cid, kind, role, has_old, falsy_ok=False):
    k = rng.choice(ERR_KINDS)
    if k == "none":
        return "none", None
    if k == "cls":
        return {"cls": {"subBase": True, "truthy": not (falsy_ok and rng.random() < 0.3)}}, None
    if k == "inst":
        return {"inst": {"e": exc(400 + cid, rng.random() < 0.8, not (falsy_ok and rng.random() < 0.3))}}, None
    args = pick_args(rng, kind, role, has_old)
    if rng.random() < 0.08:
        # an error function declared with *varargs / **varkw: to the library these are parameter names like any other
        args = args + [rng.choice(["varkw", "varargs"])]
    return {"fac": {"args": args}}, {"exc": {"e": exc(300 + cid, rng.random() < 0.8, not (falsy_ok and rng.random() < 0.3))}}


def random_call(rng, kind):
    """A call shape Python accepts for the simple signatures used here."""
    if kind in ("propget", "propdel", "propset"):
        return default_call(kind)
    r = [50] if RECV[kind] else []
    mode = rng.randint(0, 4)
    if mode == 0:
        return r + [10], []
    if mode == 1:
        return r + [10, 11], []
    if mode == 2:
        return r, [["x", 10]]
    if mode == 3:
        return r + [10], [["y", 11]]
    return r, [["y", 11], ["x", 10]]


def random_case(rng, kinds=KINDS, allow_async=True, max_levels=3, max_group=3, max_posts=2, max_snaps=2,
                ans_weights=None, falsy_errors=False, raising_errors=False):
    """One random structured case. ans_weights: dict of answer kinds -> weight."""
    kind = rng.choice(kinds)
    async_ = allow_async and kind in ASYNC_KINDS and rng.random() < 0.4
    nlev = 1 if kind in ("function", "init") else rng.randint(1, max_levels)
    levels = []
    cid = 0
    sid = 0
    prev_has_pre = True
    aw = ans_weights or {"T": 6, "F": 3}
    keys = list(aw)
    weights = [aw[k] for k in keys]
    case = base_case(kind, async_, levels)
    total_snaps = 0
    for li in range(nlev):
        npre = rng.randint(0, max_group) if prev_has_pre else 0
        if li > 0 and not prev_has_pre:
            npre = 0
        prev_has_pre = npre > 0 if li == 0 else (prev_has_pre and npre > 0)
        nposts = rng.randint(0, max_posts)
        nsn = rng.randint(0, max_snaps) if nposts > 0 else 0
        lv = {"pre": [], "snaps": [], "posts": []}
        for _ in range(nsn):
            sid += 1
            sargs = [rng.choice(avail_names(kind, "pre"))] if rng.random() < 0.8 else rng.sample(
                avail_names(kind, "pre"), min(2, len(avail_names(kind, "pre"))))
            if rng.random() < 0.15:
                sargs = []          # a capture without parameters (reads global / closure state): named explicitly
            lv["snaps"].append(snapshot(sid, "s%d" % sid, sargs, coro_fn=async_ and rng.random() < 0.2))
            total_snaps += 1
        for role, n in (("pre", npre), ("post", nposts)):
            for _ in range(n):
                cid += 1
                has_old = role == "post" and total_snaps > 0
                args = pick_args(rng, kind, role, has_old)
                err, fac_ans = pick_err(rng, cid, kind, role, has_old, falsy_ok=falsy_errors)
                c = contract(cid, args, coro_fn=async_ and rng.random() < 0.2, err=err)
                lv["pre" if role == "pre" else "posts"].append(c)
                if fac_ans is not None:
                    if raising_errors and rng.random() < 0.2:
                        fac_ans = rng.choice([R(exc(500 + cid, rng.random() < 0.7)), "nonExc"])
                    case["fac"].append([cid, fac_ans])
                if raising_errors and rng.random() < 0.15:
                    case["msg"].append([cid, R(exc(600 + cid, rng.random() < 0.7))])
                a = rng.choices(keys, weights)[0]
                if c["coroFn"] and a in ("CT", "CF", "CR"):
                    a = a[1:]  # a coroutine function returning a coroutine object is not a meaningful condition
                v = 100 + cid
                if a == "T":
                    ans = T(v)
                elif a == "F":
                    ans = F(v)
                elif a == "R":
                    ans = R(exc(700 + cid, rng.random() < 0.7))
                elif a == "BR":
                    ans = BR(v, exc(800 + cid, rng.random() < 0.7))
                elif a == "CT":
                    ans = CORO(T(v))
                elif a == "CF":
                    ans = CORO(F(v))
                elif a == "CR":
                    ans = CORO(R(exc(700 + cid, rng.random() < 0.7)))
                else:
                    raise AssertionError(a)
                case["cond"].append([cid, ans])
        levels.append(lv)
    case["args"], case["kwargs"] = random_call(rng, kind)
    if kind != "init" and rng.random() < 0.08:
        # one of the arguments is passed as the very object None (id 777, see implck.NONE_ID)
        own = 1 if RECV[kind] else 0
        spots = [("a", i) for i in range(own, len(case["args"]))] + [("k", i) for i in range(len(case["kwargs"]))]
        if spots:
            where, i = rng.choice(spots)
            if where == "a":
                case["args"][i] = 777
            else:
                case["kwargs"][i] = [case["kwargs"][i][0], 777]
    b = rng.random()
    if b < 0.7:
        case["body"] = {"ret": {"v": rng.choice([7, 10])}}
    else:
        case["body"] = {"raises": {"e": exc(900, rng.random() < 0.6)}}
    for lv in levels:
        for s in lv["snaps"]:
            r = rng.random()
            if r < 0.85:
                a = T(200 + s["id"])
            elif r < 0.95:
                a = R(exc(950 + s["id"], rng.random() < 0.7))
            elif s["coroFn"]:
                a = T(200 + s["id"])
            else:
                a = CORO(T(200 + s["id"]))
            case["capture"].append([s["id"], a])
    return fill_oracle_defaults(case)


def exhaustive_pre(kinds, asyncs, max_levels, max_group, with_post=(False,), with_snap=(False,)):
    """Every chain shape up to the bounds x every truth assignment of the preconditions."""
    for kind in kinds:
        shapes = level_shapes(1 if kind in ("function", "init") else max_levels, max_group)
        for async_ in asyncs:
            if async_ and kind not in ASYNC_KINDS:
                continue
            for sizes in shapes:
                n = sum(sizes)
                for wp in with_post:
                    for ws in with_snap:
                        if ws and not wp:
                            continue
                        for bits in itertools.product([True, False], repeat=n):
                            levels = []
                            cid = 0
                            case = base_case(kind, async_, levels)
                            pn, _ = params_of(kind)
                            for li, sz in enumerate(sizes):
                                lv = {"pre": [], "snaps": [], "posts": []}
                                for _ in range(sz):
                                    cid += 1
                                    # distinct error classes per contract; no message is built
                                    lv["pre"].append(contract(cid, [pn[-1]] if pn else [], err={"cls": {"subBase": True, "truthy": True}}))
                                    case["cond"].append([cid, T(100 + cid) if bits[cid - 1] else F(100 + cid)])
                                if li == len(sizes) - 1 and wp:
                                    lv["posts"].append(contract(99, ["result"], err={"cls": {"subBase": True, "truthy": True}}))
                                    if ws:
                                        lv["snaps"].append(snapshot(1, "s1", [pn[0]] if pn else []))
                                levels.append(lv)
                            yield fill_oracle_defaults(case)


def valid(case):
    """Definition-time validity of a checker case (what the generators promise)."""
    if case["kind"] in ("function", "init") and len(case["levels"]) != 1:
        return False
    if not case["levels"]:
        return False
    prev = True
    for i, lv in enumerate(case["levels"]):
        if lv["snaps"] and not lv["posts"]:
            return False
        if i > 0 and lv["pre"] and not prev:
            return False
        prev = bool(lv["pre"]) if i == 0 else (prev and bool(lv["pre"]))
    names = [s["name"] for lv in case["levels"] for s in lv["snaps"]]
    return len(names) == len(set(names))


def exhaustive_post(kinds, asyncs, max_levels, max_posts_total, bodies=None):
    """Every placement of <= max_posts_total postconditions on a chain x every truth assignment x body outcomes."""
    bodies = bodies or [{"ret": {"v": 7}}, {"ret": {"v": 10}}, {"raises": {"e": exc(900, True)}},
                        {"raises": {"e": exc(901, False)}}]
    for kind in kinds:
        nl = 1 if kind in ("function", "init") else max_levels
        for async_ in asyncs:
            if async_ and kind not in ASYNC_KINDS:
                continue
            for n in range(1, nl + 1):
                for sizes in itertools.product(range(0, max_posts_total + 1), repeat=n):
                    tot = sum(sizes)
                    if tot == 0 or tot > max_posts_total or sizes[-1] == 0 and n > 1 and sum(sizes[:-1]) == 0:
                        continue
                    for bits in itertools.product([True, False], repeat=tot):
                        for body in bodies:
                            for with_snap in (False, True):
                                levels = []
                                case = base_case(kind, async_, levels)
                                pn, _ = params_of(kind)
                                cid = 0
                                for li, sz in enumerate(sizes):
                                    lv = {"pre": [], "snaps": [], "posts": []}
                                    for _ in range(sz):
                                        cid += 1
                                        args = ["result"] + ([pn[-1]] if pn else []) + (["OLD"] if with_snap else [])
                                        lv["posts"].append(contract(cid, args, err={"cls": {"subBase": True, "truthy": True}}))
                                        case["cond"].append([cid, T(100 + cid) if bits[cid - 1] else F(100 + cid)])
                                    if with_snap and sz > 0 and not any(l["snaps"] for l in levels):
                                        lv["snaps"].append(snapshot(1, "s1", [pn[0]] if pn else []))
                                    levels.append(lv)
                                case["body"] = body
                                if kind == "init" and "ret" in body:
                                    case["body"] = {"ret": {"v": 7}}
                                yield fill_oracle_defaults(case)
