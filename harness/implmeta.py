"""Class-history materialiser: run a history of decorations / class definitions / invariant
decorations on the real icontract and observe, after every step, what the documented
introspection attributes of every class show (mapped back to contract ids).
Case format = Lean `MetaCase` (dom="meta")."""
import inspect

import common

icontract = common.assert_repo_import()
import icontract._checkers as _ck  # noqa: E402
import icontract._metaclass as _mc  # noqa: E402


def _layers(fo):
    seen = 0
    while fo is not None and seen < 50:
        yield fo
        fo = getattr(fo, "__wrapped__", None)
        seen += 1


def _cid(contract):
    d = getattr(contract, "description", None)
    return int(d[1:]) if isinstance(d, str) and d[1:].isdigit() else None


class Hist:
    def __init__(self, case):
        self.case = case
        self.snap_names = dict((s, n) for s, n in case["snapNames"])
        self.truth = {}
        self.fn = {}        # f -> current (possibly decorated) object
        self.bare = {}
        self.fn_kind = {}
        self.cls = {}       # k -> class
        self.hook = []
        self._scan_kinds()

    def _scan_kinds(self):
        for op in self.case["ops"]:
            if op["op"] == "class":
                for key, m in op["ns"]:
                    k = next(iter(m)) if isinstance(m, dict) else m
                    if k in ("func", "static", "classm"):
                        self.fn_kind[m[k]["f"]] = (k, key)
                    elif k == "prop":
                        for which, a in enumerate(("fget", "fset", "fdel")):
                            if m[k][a] is not None:
                                self.fn_kind[m[k][a]] = ("prop%d" % which, key)

    def func(self, f):
        same = self.case.get("sameBare", {}).get(str(f))
        if f not in self.fn and same is not None:
            # another decoration of the very same undecorated function object
            self.func(same)
            self.fn[f] = self.bare[same]
            self.bare[f] = self.bare[same]
        if f not in self.fn:
            kind, key = self.fn_kind.get(f, ("func", "m"))
            params = {"func": "self", "static": "", "classm": "cls", "prop0": "self", "prop1": "self, value", "prop2": "self"}[kind]
            ns = {}
            name = key if kind in ("func", "static", "classm") else "p"
            name = self.case.get("fnNames", {}).get(str(f), name)
            exec("def %s(%s):\n    return None" % (name if name.isidentifier() else "m", params), ns)
            fn = [v for k, v in ns.items() if k != "__builtins__"][0]
            fn._fid = f
            self.fn[f] = fn
            self.bare[f] = fn
        return self.fn[f]

    def bound_in(self, f):
        """(class, key, raw attribute) if function id f is the member of an already created class"""
        for k, cls in self.cls.items():
            for key, m in self.ns_members.get(k, []):
                kind = next(iter(m)) if isinstance(m, dict) else None
                if kind in ("func", "static", "classm") and m[kind]["f"] == f:
                    return cls, key, kind
        return None

    def decorate(self, f, deco):
        """apply a contract decorator to function id f: before its class exists to the function object, afterwards
        (a LATE decoration, as a plug-in or a class decorator would do) to the class attribute, re-binding the result"""
        where = self.bound_in(f)
        if where is None:
            self.fn[f] = deco(self.func(f))
            return
        cls, key, kind = where
        raw = inspect.getattr_static(cls, key)
        target = raw.__func__ if kind in ("static", "classm") else raw
        new = deco(target)
        if new is not target:
            setattr(cls, key, staticmethod(new) if kind == "static" else classmethod(new) if kind == "classm" else new)
        self.fn[f] = new

    def cond(self, c):
        truth = self.truth

        def cond_fn():
            return truth.get(c, True)

        cond_fn.__name__ = "cond_%d" % c
        return cond_fn

    def lists_of(self, fobj):
        ck = _ck.find_checker(fobj) if fobj is not None else None
        if ck is None:
            return {"pre": [], "snaps": [], "posts": []}
        name2sid = dict((n, s) for s, n in self.snap_names.items())
        return {"pre": [[_cid(c) for c in g] for g in getattr(ck, "__preconditions__", [])],
                "snaps": [getattr(s, "_sid", name2sid.get(s.name)) for s in getattr(ck, "__postcondition_snapshots__", [])],
                "posts": [_cid(c) for c in getattr(ck, "__postconditions__", [])]}

    def member_fids(self):
        """{class: {key: id of the bare function the member really resolves to}} (functions, static and class methods)"""
        out = {}
        for k, cls in self.cls.items():
            d = {}
            for c in cls.__mro__:
                for key, raw in vars(c).items():
                    if key in d:
                        continue
                    fo = raw.__func__ if isinstance(raw, (staticmethod, classmethod)) else raw
                    if inspect.isfunction(fo):
                        try:
                            bare = inspect.unwrap(fo)
                        except ValueError:
                            bare = fo
                        fid = getattr(bare, "_fid", None)
                        if fid is None:
                            for layer in _layers(fo):
                                fid = getattr(layer, "_fid", None)
                                if fid is not None:
                                    break
                        if fid is not None:
                            d[key] = fid
            out[str(k)] = d
        return out

    def observe(self):
        k_of = dict((id(c), k) for k, c in self.cls.items())
        out = []
        for k, cls in self.cls.items():
            mro = [k_of[id(c)] for c in cls.__mro__ if id(c) in k_of]
            keys = sorted(set(key for c in cls.__mro__ if id(c) in k_of for key in self.ns_keys[k_of[id(c)]]))
            members = []
            for key in keys:
                raw = inspect.getattr_static(cls, key, None)
                accs = []
                if isinstance(raw, property):
                    for which, fo in enumerate((raw.fget, raw.fset, raw.fdel)):
                        if fo is not None:
                            d = self.lists_of(fo)
                            d["which"] = which
                            accs.append(d)
                elif isinstance(raw, (staticmethod, classmethod)):
                    d = self.lists_of(raw.__func__)
                    d["which"] = 0
                    accs.append(d)
                elif inspect.isfunction(raw):
                    d = self.lists_of(raw)
                    d["which"] = 0
                    accs.append(d)
                members.append([key, accs])
            out.append({"k": k, "mro": mro,
                        "inv": [_cid(c) for c in getattr(cls, "__invariants__", [])],
                        "invCall": [_cid(c) for c in getattr(cls, "__invariants_on_call__", [])],
                        "invSetattr": [_cid(c) for c in getattr(cls, "__invariants_on_setattr__", [])],
                        "members": members})
        return out

    def run(self):
        steps = []
        self.ns_keys = {}
        self.ns_members = {}
        orig_hook = getattr(_mc, "_register_for_hypothesis", None)
        k_of = {}

        def hook(cls):
            self.hook.append(cls)
            return orig_hook(cls)

        if orig_hook is not None:
            _mc._register_for_hypothesis = hook
        try:
            for op in self.case["ops"]:
                err = None
                try:
                    o = op["op"]
                    if o == "pre":
                        self.decorate(op["f"], icontract.require(self.cond(op["c"]), description="c%d" % op["c"]))
                    elif o == "post":
                        self.decorate(op["f"], icontract.ensure(self.cond(op["c"]), description="c%d" % op["c"]))
                    elif o == "snap":
                        d = icontract.snapshot(lambda: None, name=self.snap_names[op["c"]])
                        if d._snapshot is not None:
                            d._snapshot._sid = op["c"]
                        self.decorate(op["f"], d)
                    elif o == "call":
                        # a stand-alone use of the (decorated) function; whatever it does, it must not freeze its contracts
                        try:
                            self.func(op["f"])(None)
                        except BaseException:  # noqa: B902
                            pass
                    elif o == "wrap":
                        self.fn[op["f"]] = _foreign(self.func(op["f"]))
                    elif o == "inv":
                        if op["k"] not in self.cls:
                            err = "skipped"
                        else:
                            co = icontract.InvariantCheckEvent(0)
                            if op["call"]:
                                co |= icontract.InvariantCheckEvent.CALL
                            if op["setattr"]:
                                co |= icontract.InvariantCheckEvent.SETATTR
                            icontract.invariant(_inv_cond(self.truth, op["c"]), description="c%d" % op["c"], check_on=co)(self.cls[op["k"]])
                    elif o == "class":
                        if any(b not in self.cls for b in op["bases"]):
                            err = "skipped"
                        else:
                            ns = {}
                            for key, m in op["ns"]:
                                kind = next(iter(m)) if isinstance(m, dict) else m
                                if kind == "func":
                                    ns[key] = self.func(m[kind]["f"])
                                elif kind == "static":
                                    ns[key] = staticmethod(self.func(m[kind]["f"]))
                                elif kind == "classm":
                                    ns[key] = classmethod(self.func(m[kind]["f"]))
                                elif kind == "prop":
                                    g, s_, d_ = (None if m[kind][a] is None else self.func(m[kind][a]) for a in ("fget", "fset", "fdel"))
                                    ns[key] = property(g, s_, d_)
                                else:
                                    ns[key] = 12345
                            ns["__module__"] = self.case.get("module", "verif_hist")
                            bases = tuple(self.cls[b] for b in op["bases"])
                            any_dbc = op["dbc"] or any(isinstance(b, icontract.DBCMeta) for b in bases)
                            if any_dbc:
                                cls = icontract.DBCMeta("K%d" % op["k"], bases, ns)
                            else:
                                cls = type("K%d" % op["k"], bases, ns)
                            self.cls[op["k"]] = cls
                            self.ns_keys[op["k"]] = [key for key, _m in op["ns"]]
                            self.ns_members[op["k"]] = list(op["ns"])
                except common.Infra:
                    raise
                except TypeError as e:
                    msg = str(e)
                    if "can not weaken the preconditions" in msg:
                        err = ["TypeError", "weaken"]
                    elif "method resolution order" in msg or "MRO" in msg:
                        err = ["TypeError", "mro"]
                    else:
                        err = ["TypeError", msg[:60]]
                except AssertionError as e:
                    err = ["AssertionError", str(e)[:60]]
                except ValueError as e:
                    msg = str(e)
                    if "conflicting snapshots" in msg:
                        err = ["ValueError", "duplicate-snapshot"]
                    elif "no postcondition was defined" in msg:
                        err = ["ValueError", "snapshot-without-postcondition"]
                    else:
                        err = ["ValueError", msg[:60]]
                steps.append({"err": err, "obs": self.observe(), "fids": self.member_fids()})
        finally:
            if orig_hook is not None:
                _mc._register_for_hypothesis = orig_hook
        k_of = dict((id(c), k) for k, c in self.cls.items())
        probed, mismatches = self.probe_verdicts()
        return {"steps": steps, "hook": [k_of.get(id(c), None) for c in self.hook], "verdicts_probed": probed,
                "verdict_mismatches": mismatches}

    def probe_verdicts(self):
        """C18: judging a call by hand from the introspected lists (the checker found through the decorator stack,
        the class's invariant lists) must give the verdict of the real call - for every single-false truth assignment."""
        import re
        probed, bad = 0, []
        ours = set(id(c) for c in self.cls.values())
        items = list(self.cls.items())
        # derived classes first, then bases, then again in definition order: a verdict must not depend on which class
        # happened to use an inherited member first
        for k, cls in list(reversed(items)) + items:
            # the claim concerns classes created through the inheriting metaclass, all the way up
            if not all(isinstance(c, icontract.DBCMeta) for c in cls.__mro__ if id(c) in ours):
                continue
            try:
                inst = object.__new__(cls)
            except BaseException:  # noqa: B902
                continue
            for key in ("m", "n"):
                raw = inspect.getattr_static(cls, key, None)
                if not inspect.isfunction(raw):
                    continue
                ck = _ck.find_checker(raw)
                pre = [list(g) for g in getattr(ck, "__preconditions__", [])] if ck is not None else []
                posts = list(getattr(ck, "__postconditions__", [])) if ck is not None else []
                invs = list(getattr(cls, "__invariants_on_call__", []))
                wrapped_for_inv = bool(invs)
                ids = sorted(set(_cid(c) for g in pre for c in g) | set(_cid(c) for c in posts) | set(_cid(c) for c in invs))
                for false_id in [None] + ids:
                    self.truth.clear()
                    if false_id is not None:
                        self.truth[false_id] = False
                    # by hand
                    manual = ["ok"]
                    bad_inv = [c for c in invs if _cid(c) == false_id]
                    if wrapped_for_inv and bad_inv:
                        manual = ["viol", false_id]
                    else:
                        ok_pre = not pre or any(all(_cid(c) != false_id for c in g) for g in pre)
                        if not ok_pre:
                            manual = ["viol", false_id]
                        elif any(_cid(c) == false_id for c in posts):
                            manual = ["viol", false_id]
                    try:
                        getattr(inst, key)()
                        real = ["ok"]
                    except icontract.ViolationError as e:
                        m = re.search(r"(?m)^c(\d+)\b", str(e))
                        real = ["viol", int(m.group(1)) if m else None]
                    except BaseException as e:  # noqa: B902
                        real = ["raise", type(e).__name__, str(e)[:80]]
                    probed += 1
                    if real != manual:
                        bad.append({"class": k, "member": key, "false": false_id, "by_hand": manual, "real": real,
                                    "introspected": {"pre": [[_cid(c) for c in g] for g in pre], "posts": [_cid(c) for c in posts],
                                                     "invCall": [_cid(c) for c in invs]}})
        self.truth.clear()
        return probed, bad[:5]


def _inv_cond(truth, c):
    def inv_cond(self):
        return truth.get(c, True)

    return inv_cond


def _foreign(g):
    """an ordinary third-party decorator written with functools.wraps"""
    import functools

    @functools.wraps(g)
    def layer(*a, **k):
        return g(*a, **k)

    return layer


def run(case):
    return Hist(case).run()
