"""Invariant evaluation materialiser (C13): a real class with invariants whose conditions return plain
truthy values or coroutines; the invariants are evaluated (synchronously) at the end of the constructor
and around an `async def` method."""
import re

import common

icontract = common.assert_repo_import()


def run(case):
    log = []
    cond = dict((k, a) for k, a in case["cond"])
    self_id = case["self"]

    class V:
        def __init__(self, cid, truthy):
            self.cid, self.truthy = cid, truthy

        def __bool__(self):
            log.append(["bool", self.cid])
            return self.truthy

    def answer(cid):
        a = cond.get(cid, {"val": {"v": 0, "t": "truthy"}})
        if "val" in a:
            return V(cid, a["val"]["t"] == "truthy")
        inner = a["coro"]["inner"]

        async def _c():
            return V(cid, inner["val"]["t"] == "truthy")

        return _c()

    def mk(c):
        cid = c["id"]
        if "self" in c["args"]:
            def cond_fn(self):
                log.append(["cond", cid, [["self", ["o", self_id]]]])
                return answer(cid)
        else:
            def cond_fn():
                log.append(["cond", cid, []])
                return answer(cid)
        cond_fn.__name__ = cond_fn.__qualname__ = "cond_%d" % cid
        return cond_fn

    class K:
        def __init__(self):
            self.x = 1

        async def am(self):
            return 1

    try:
        for c in case["contracts"]:
            K = icontract.invariant(mk(c), description="c%d" % c["id"])(K)
    except BaseException as e:  # noqa: B902
        return {"define": ["raise", type(e).__name__, str(e)[:120]]}
    import warnings
    with warnings.catch_warnings():
        warnings.simplefilter("ignore", RuntimeWarning)
        try:
            K()
            out = ["ret", None]
        except ValueError as e:
            m = re.search(r"cond_(\d+)", str(e))
            kind = "coroCondOnSync" if "Unexpected coroutine resulting from" in str(e) else "?"
            out = ["raise", ["ValueError", kind, int(m.group(1)) if m else None, None]]
        except BaseException as e:  # noqa: B902
            out = ["raise", ["other", type(e).__name__, str(e)[:100]]]
    return {"define": ["ok"], "trace": log, "out": out}
