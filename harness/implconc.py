"""Concurrency materialiser (C12): tasks calling one contracted function are stepped
deterministically in the order a schedule dictates.

* async mode: each task is a coroutine driven by hand with `context.run(coro.send, None)` - exactly how
  asyncio runs a task step inside the task's own context; suspension points are awaits on an object
  whose `__await__` yields.
* thread mode: each task is a real thread; suspension points are Event handshakes with the scheduler, so at
  most one thread runs user code at a time, in schedule order.  A thread either starts with an empty
  context (plain `threading.Thread`) or runs inside a copied context (`asyncio.to_thread` style).

Context inheritance per task: "fresh" (empty context), "copy_before" (copied before the parent ever ran
contracted code), "copy_after" (copied after the parent's first checked call).
Case format = Lean `ConcCase` (dom="conc") + harness fields {"mode": "async"|"thread", "inherit": [...]}.
"""
import contextvars
import threading

import common

icontract = common.assert_repo_import()


class _Yield:
    def __await__(self):
        yield self


_CUR_SPEC = contextvars.ContextVar("verif_c12_current_call")


def _mk_methods(case):
    """Variant: every function id is an OBJECT of a class with an invariant; a call is a public-method call on it.
    The invariant's truth for the current call is read from a context variable (each task has its own context)."""
    state = {}
    fns = {}
    is_async = case["mode"] == "async"

    def inv(self):
        spec = _CUR_SPEC.get(None)
        if spec is None:
            return True
        if not is_async:
            for _ in range(spec["condYields"]):
                state["pause"]()
        return spec["preTruthy"]

    if is_async:
        @icontract.invariant(inv, error=ValueError("violation"))
        class K:
            def __init__(self):
                self.x = 1

            async def m(self, spec):
                for _ in range(spec["bodyYields"]):
                    await _Yield()
                return "done"
    else:
        @icontract.invariant(inv, error=ValueError("violation"))
        class K:
            def __init__(self):
                self.x = 1

            def m(self, spec):
                for _ in range(spec["bodyYields"]):
                    state["pause"]()
                return "done"

    for fid in sorted(set(c["f"] for t in case["tasks"] for c in t["calls"])):
        obj = K()

        def call(spec, obj=obj):
            _CUR_SPEC.set(spec)
            return obj.m(spec)

        fns[fid] = call
    return fns, state


def _mk(case):
    """The contracted functions (one per function id) for the async / sync flavour."""
    if case.get("asMethod"):
        return _mk_methods(case)
    state = {}
    fns = {}
    is_async = case["mode"] == "async"
    for fid in sorted(set(c["f"] for t in case["tasks"] for c in t["calls"])):
        if is_async:
            async def cond(spec, fid=fid):
                for _ in range(spec["condYields"]):
                    await _Yield()
                return spec["preTruthy"]

            async def body(spec, fid=fid):
                for _ in range(spec["bodyYields"]):
                    await _Yield()
                return "done"

            body.__name__ = "F%d" % fid
            # every call also captures a per-call snapshot and checks it against the very call afterwards
            g = icontract.ensure(lambda spec, OLD: OLD.tag is spec, error=ValueError("violation: OLD belongs to another call"))(body)
            g = icontract.snapshot(lambda spec: spec, name="tag")(g)
            fns[fid] = icontract.require(cond, error=ValueError("violation"))(g)
        else:
            def cond(spec, fid=fid):
                for _ in range(spec["condYields"]):
                    state["pause"]()
                return spec["preTruthy"]

            def body(spec, fid=fid):
                for _ in range(spec["bodyYields"]):
                    state["pause"]()
                return "done"

            body.__name__ = "F%d" % fid
            g = icontract.ensure(lambda spec, OLD: OLD.tag is spec, error=ValueError("violation: OLD belongs to another call"))(body)
            g = icontract.snapshot(lambda spec: spec, name="tag")(g)
            fns[fid] = icontract.require(cond, error=ValueError("violation"))(g)
    return fns, state


def _contexts(case, fns):
    """One context per task according to its inheritance mode; the parent warms up in between."""
    parent = contextvars.copy_context()
    before = [parent.run(contextvars.copy_context) for _ in case["tasks"]]
    # the parent's first checked call (a satisfied, non-suspending one)
    warm = {"f": 0, "preTruthy": True, "condYields": 0, "bodyYields": 0}
    any_f = next(iter(fns.values()))
    if case["mode"] == "async":
        def warmup():
            co = any_f(warm)
            try:
                co.send(None)
            except StopIteration:
                pass
        parent.run(warmup)
    else:
        parent.run(any_f, warm)
    ctxs = []
    for i, t in enumerate(case["tasks"]):
        inh = case["inherit"][i]
        if inh.startswith("spawn_in_body"):
            ctxs.append(None)          # copied from the parent task's context when the task is first scheduled
        elif inh == "fresh":
            ctxs.append(contextvars.Context())
        elif inh == "copy_before":
            ctxs.append(before[i])
        else:
            ctxs.append(parent.run(contextvars.copy_context))
    return ctxs


def run(case):
    fns, state = _mk(case)
    ctxs = _contexts(case, fns)
    n = len(case["tasks"])
    verdicts = [[] for _ in range(n)]
    if case["mode"] == "async":
        def mk_task(i):
            async def task():
                for spec in case["tasks"][i]["calls"]:
                    try:
                        await fns[spec["f"]](spec)
                        verdicts[i].append("returned")
                    except ValueError:
                        verdicts[i].append("violation")
                    await _Yield()      # a task boundary between calls
            return task()

        coros = [mk_task(i) for i in range(n)]
        done = [False] * n
        def ensure_ctx(i):
            if ctxs[i] is None:
                j = int(case["inherit"][i].split(":")[1])
                ensure_ctx(j)
                ctxs[i] = ctxs[j].copy()       # what asyncio.create_task / to_thread do at the spawning point

        for i in case["sched"]:
            if i >= n or done[i]:
                continue
            ensure_ctx(i)
            try:
                ctxs[i].run(coros[i].send, None)
            except StopIteration:
                done[i] = True
        for i in range(n):
            ensure_ctx(i)
            # let every task finish alone (its remaining steps in any order do not matter for the verdicts so far)
            while not done[i]:
                try:
                    ctxs[i].run(coros[i].send, None)
                except StopIteration:
                    done[i] = True
        return {"verdicts": verdicts}
    # threads: a baton passed by events
    turn = [threading.Event() for _ in range(n)]
    back = threading.Event()
    finished = [False] * n
    cur = {"i": None}

    def pause():
        i = cur["i"]
        back.set()
        turn[i].wait()
        turn[i].clear()
        cur["i"] = i

    state["pause"] = pause

    def worker(i):
        turn[i].wait()
        turn[i].clear()
        cur["i"] = i
        for spec in case["tasks"][i]["calls"]:
            try:
                fns[spec["f"]](spec)
                verdicts[i].append("returned")
            except ValueError:
                verdicts[i].append("violation")
            pause()
        finished[i] = True
        back.set()

    threads = []
    for i in range(n):
        if case["inherit"][i] == "fresh":
            th = threading.Thread(target=worker, args=(i,), daemon=True)
        else:
            th = threading.Thread(target=ctxs[i].run, args=(worker, i), daemon=True)
        th.start()
        threads.append(th)
    order = list(case["sched"]) + [i for i in range(n) for _ in range(200)]
    for i in order:
        if i >= n or finished[i]:
            continue
        back.clear()
        cur["i"] = i
        turn[i].set()
        if not back.wait(timeout=10):
            raise common.Infra("thread schedule stuck")
        if all(finished):
            break
    for th in threads:
        th.join(timeout=5)
    return {"verdicts": verdicts}
