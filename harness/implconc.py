"""Concurrency materialiser (C12): tasks calling one contracted function are stepped
deterministically in the order a schedule dictates.  Second version: a call goes through the function wrapper
(precondition - body - postcondition), the public-method wrapper or the constructor wrapper of an object with an
invariant (`kind`), and a schedule may create tasks: `{"fork": p, "calls": [...]}` copies task p's CURRENT context,
`{"thread": true, "calls": [...]}` starts from an empty one.

* async mode: each task is a coroutine driven by hand with `context.run(coro.send, None)` - exactly how
  asyncio runs a task step inside the task's own context; suspension points are awaits on an object
  whose `__await__` yields.
* thread mode: each task is a real thread; suspension points are Event handshakes with the scheduler, so at
  most one thread runs user code at a time, in schedule order.  A thread either starts with an empty
  context (plain `threading.Thread`) or runs inside a copied context (`asyncio.to_thread` style).

Context inheritance per task: "fresh" (empty context), "copy_before" (copied before the parent ever ran
contracted code), "copy_after" (copied after the parent's first checked call).
Case format = Lean `ConcCase` (dom="conc") + harness fields {"mode": "async"|"thread", "inherit": [...]}.
"""
import contextvars
import threading

import common

icontract = common.assert_repo_import()


class _Yield:
    def __await__(self):
        yield self


_CUR_SPEC = contextvars.ContextVar("verif_c12_current_call")


def _all_calls(case):
    for t in case["tasks"]:
        yield from t["calls"]
    for op in case["sched"]:
        if isinstance(op, dict):
            yield from op["calls"]


def _kind(spec):
    return spec.get("kind", "function")


class _Call:
    """what the contracts of the call in flight read: its spec and whether the body has run"""

    def __init__(self, spec):
        self.spec = spec
        self.after = False


def _mk_objects(case, state, fns):
    """Every key of kind method / ctor is an OBJECT of a class with an invariant; a `method` call is a public-method
    call on it, a `ctor` call runs its `__init__` again (through the constructor wrapper, which marks the instance).
    The invariant's truth and suspension points for the call in flight are read from a context variable (each task
    has its own context): before the body `preTruthy` / `condYields`, after it `postTruthy` / `postYields`."""
    is_async = case["mode"] == "async"

    def inv(self):
        call = _CUR_SPEC.get(None)
        if call is None:
            return True
        spec = call.spec
        n = spec.get("postYields", 0) if call.after else spec["condYields"]
        if not is_async:
            for _ in range(n):
                state["pause"]()
        return spec.get("postTruthy", True) if call.after else spec["preTruthy"]

    def err(self):
        call = _CUR_SPEC.get(None)
        return ValueError("postViolation" if call is not None and call.after else "violation")

    if is_async:
        @icontract.invariant(inv, error=err)
        class K:
            def __init__(self, spec=None):
                call = _CUR_SPEC.get(None)
                if call is not None:
                    # constructors cannot await: the body's suspension points are those of a thread only
                    call.after = True
                self.x = 1

            async def m(self, spec):
                for _ in range(spec["bodyYields"]):
                    await _Yield()
                _CUR_SPEC.get().after = True
                return "done"
    else:
        @icontract.invariant(inv, error=err)
        class K:
            def __init__(self, spec=None):
                call = _CUR_SPEC.get(None)
                if call is not None:
                    for _ in range(spec["bodyYields"]):
                        state["pause"]()
                    call.after = True
                self.x = 1

            def m(self, spec):
                for _ in range(spec["bodyYields"]):
                    state["pause"]()
                _CUR_SPEC.get().after = True
                return "done"

    keys = sorted(set(c["f"] for c in _all_calls(case) if _kind(c) != "function" or case.get("asMethod")))
    for fid in keys:
        obj = K()

        if is_async:
            def call(spec, obj=obj):
                _CUR_SPEC.set(_Call(spec))
                if _kind(spec) == "ctor":
                    async def ctor():
                        return obj.__init__(spec)
                    return ctor()
                return obj.m(spec)
        else:
            def call(spec, obj=obj):
                _CUR_SPEC.set(_Call(spec))
                if _kind(spec) == "ctor":
                    return obj.__init__(spec)
                return obj.m(spec)

        fns[("obj", fid)] = call


def _mk(case):
    """The contracted functions (one per function key) and objects (one per instance key) for the async / sync flavour;
    `fns[(family, key)]` makes the call."""
    state = {}
    fns = {}
    is_async = case["mode"] == "async"
    _mk_objects(case, state, fns)
    for fid in sorted(set(c["f"] for c in _all_calls(case) if _kind(c) == "function" and not case.get("asMethod"))):
        if is_async:
            async def cond(spec, fid=fid):
                for _ in range(spec["condYields"]):
                    await _Yield()
                return spec["preTruthy"]

            async def post(spec, fid=fid):
                for _ in range(spec.get("postYields", 0)):
                    await _Yield()
                return spec.get("postTruthy", True)

            async def body(spec, fid=fid):
                for _ in range(spec["bodyYields"]):
                    await _Yield()
                return "done"
        else:
            def cond(spec, fid=fid):
                for _ in range(spec["condYields"]):
                    state["pause"]()
                return spec["preTruthy"]

            def post(spec, fid=fid):
                for _ in range(spec.get("postYields", 0)):
                    state["pause"]()
                return spec.get("postTruthy", True)

            def body(spec, fid=fid):
                for _ in range(spec["bodyYields"]):
                    state["pause"]()
                return "done"

        body.__name__ = "F%d" % fid
        # every call also captures a per-call snapshot and checks it against the very call afterwards
        g = icontract.ensure(post, error=ValueError("postViolation"))(body)
        g = icontract.ensure(lambda spec, OLD: OLD.tag is spec, error=ValueError("violation: OLD belongs to another call"))(g)
        g = icontract.snapshot(lambda spec: spec, name="tag")(g)
        fns[("fn", fid)] = icontract.require(cond, error=ValueError("violation"))(g)
    return fns, state


def _callee(case, fns, spec):
    if case.get("asMethod") or _kind(spec) != "function":
        return fns[("obj", spec["f"])]
    return fns[("fn", spec["f"])]


def _verdict(exc):
    msg = str(exc)
    return msg if msg in ("violation", "postViolation") else "error: " + msg


def _contexts(case, fns):
    """One context per task according to its inheritance mode; the parent warms up in between."""
    parent = contextvars.copy_context()
    before = [parent.run(contextvars.copy_context) for _ in case["tasks"]]
    # the parent's first checked call (a satisfied, non-suspending one)
    any_f = next(iter(fns.values()))
    first = next(_all_calls(case))
    warm = {"f": first["f"], "preTruthy": True, "condYields": 0, "bodyYields": 0, "kind": "method" if _kind(first) == "ctor" else _kind(first)}
    any_f = _callee(case, fns, warm)
    if case["mode"] == "async":
        def warmup():
            co = any_f(warm)
            try:
                co.send(None)
            except StopIteration:
                pass
        parent.run(warmup)
    else:
        parent.run(any_f, warm)
    ctxs = []
    for i, t in enumerate(case["tasks"]):
        inh = case["inherit"][i]
        if inh.startswith("spawn_in_body"):
            ctxs.append(None)          # copied from the parent task's context when the task is first scheduled
        elif inh == "fresh":
            ctxs.append(contextvars.Context())
        elif inh == "copy_before":
            ctxs.append(before[i])
        else:
            ctxs.append(parent.run(contextvars.copy_context))
    return ctxs


def run(case):
    fns, state = _mk(case)
    ctxs = _contexts(case, fns)
    programs = [t["calls"] for t in case["tasks"]]
    verdicts = [[] for _ in programs]
    inherit = list(case["inherit"])

    def spawn_ctx(op):
        """the context of a task created by a schedule operation: a COPY of the parent's current context
        (asyncio.create_task / to_thread / copy_context().run) or an empty one (a plain thread)"""
        if "fork" in op and op["fork"] < len(ctxs):
            ensure_ctx(op["fork"])
            return ctxs[op["fork"]].copy()
        return contextvars.Context()

    def ensure_ctx(i):
        if ctxs[i] is None:
            j = int(inherit[i].split(":")[1])
            ensure_ctx(j)
            ctxs[i] = ctxs[j].copy()       # what asyncio.create_task / to_thread do at the spawning point

    if case["mode"] == "async":
        def mk_task(i):
            async def task():
                for spec in programs[i]:
                    try:
                        await _callee(case, fns, spec)(spec)
                        verdicts[i].append("returned")
                    except ValueError as exc:
                        verdicts[i].append(_verdict(exc))
                    await _Yield()      # a task boundary between calls
            return task()

        coros = [mk_task(i) for i in range(len(programs))]
        done = [False] * len(programs)

        for op in case["sched"]:
            if isinstance(op, dict):
                ctxs.append(spawn_ctx(op))
                inherit.append("op")
                programs.append(op["calls"])
                verdicts.append([])
                coros.append(mk_task(len(programs) - 1))
                done.append(False)
                continue
            i = op
            if i >= len(programs) or done[i]:
                continue
            ensure_ctx(i)
            try:
                ctxs[i].run(coros[i].send, None)
            except StopIteration:
                done[i] = True
        for i in range(len(programs)):
            ensure_ctx(i)
            # let every task finish alone (its remaining steps in any order do not matter for the verdicts so far)
            while not done[i]:
                try:
                    ctxs[i].run(coros[i].send, None)
                except StopIteration:
                    done[i] = True
        return {"verdicts": verdicts}
    # threads: a baton passed by events
    turn = [threading.Event() for _ in programs]
    back = threading.Event()
    finished = [False] * len(programs)
    cur = {"i": None}

    def pause():
        i = cur["i"]
        back.set()
        turn[i].wait()
        turn[i].clear()
        cur["i"] = i

    state["pause"] = pause

    def worker(i):
        turn[i].wait()
        turn[i].clear()
        cur["i"] = i
        for spec in programs[i]:
            try:
                _callee(case, fns, spec)(spec)
                verdicts[i].append("returned")
            except ValueError as exc:
                verdicts[i].append(_verdict(exc))
            pause()
        finished[i] = True
        back.set()

    threads = []

    forked_from = set(op["fork"] for op in case["sched"] if isinstance(op, dict) and "fork" in op)

    def start(i):
        # a plain thread starts with an empty context of its own; it runs inside an explicit (empty) Context object only
        # when a later operation has to copy its current context from outside
        if inherit[i] in ("fresh", "op-thread") and i not in forked_from:
            th = threading.Thread(target=worker, args=(i,), daemon=True)
        else:
            ensure_ctx(i)
            th = threading.Thread(target=ctxs[i].run, args=(worker, i), daemon=True)
        th.start()
        threads.append(th)

    for i in range(len(programs)):
        if inherit[i].startswith("spawn_in_body"):
            raise common.Infra("spawn_in_body inheritance is an async-mode shape; use a fork operation for threads")
        start(i)

    def give(i):
        if i >= len(programs) or finished[i]:
            return
        back.clear()
        cur["i"] = i
        turn[i].set()
        if not back.wait(timeout=10):
            raise common.Infra("thread schedule stuck")

    for op in case["sched"]:
        if isinstance(op, dict):
            # the scheduler copies the parent's context while the parent thread is parked at a suspension point
            ctxs.append(spawn_ctx(op))
            inherit.append("op" if "fork" in op else "op-thread")
            programs.append(op["calls"])
            verdicts.append([])
            turn.append(threading.Event())
            finished.append(False)
            start(len(programs) - 1)
            continue
        give(op)
    for i in range(len(programs)):
        for _ in range(400):
            if finished[i]:
                break
            give(i)
    for th in threads:
        th.join(timeout=5)
    return {"verdicts": verdicts}
