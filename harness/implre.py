"""Re-entrancy materialiser: programs of scripts (Lean `Re.Program`) become real contracted
functions and classes whose conditions / bodies / invariants call each other; the top-level calls
are run in one context and every user-code site is logged.  Case format = Lean `ReCase` (dom="reentry")."""
import sys

import common

icontract = common.assert_repo_import()
import icontract._checkers as _ck  # noqa: E402


class _Tag(Exception):
    pass


def _mk_err(kind, a, b):
    e = _Tag("%s %d %d" % (kind, a, b))
    e.tag = [kind, a, b]
    return e


def run(case):
    prog = case.get("pubProg", case["prog"])     # names follow publicness, not what the library manages to wrap
    log = []
    fns = {}
    classes = {}
    inst = {}
    bases = case.get("bases", [None] * len(prog["classes"]))

    def do(action):
        k = next(iter(action))
        a = action[k]
        if k == "callFn":
            r = fns[a["f"]]()
            if hasattr(r, "send"):          # an `async def` function: drive the coroutine (its awaits never suspend)
                try:
                    r.send(None)
                except StopIteration as e:
                    return e.value
                r.close()
                raise RuntimeError("UnexpectedSuspension: the call suspended although no user awaitable suspends")
            return r
        if k == "callMethod":
            r = getattr(inst[a["inst"]], "m%d" % a["m"] if prog["classes"][prog["instCls"][a["inst"]]]["meths"][a["m"]]["guarded"]
                        else "_m%d" % a["m"])()
            if hasattr(r, "send"):          # an `async def` method: drive the coroutine (its awaits never suspend)
                try:
                    r.send(None)
                except StopIteration as e:
                    return e.value
                r.close()
                raise RuntimeError("UnexpectedSuspension: the call suspended although no user awaitable suspends")
            return r
        if k == "construct":
            i = a["inst"]
            # the object exists already (so that contracts may mention it before it is constructed);
            # construction = running the (wrapped) constructor on it, as `type.__call__` does after `__new__`
            type(inst[i]).__init__(inst[i], i)
            return None
        raise AssertionError(action)

    def run_script(script, self_=None, cur_cls=None):
        for action in script["actions"]:
            k = next(iter(action))
            if k == "superInit":
                a = action[k]
                super(classes[cur_cls], self_).__init__(a["inst"])
            else:
                do(action)
        return script["truthy"]

    # functions
    for f, d in enumerate(prog["fns"]):
        if case.get("asyncFns", {}).get(str(f)):
            async def body(f=f, d=d):
                log.append(["body", f])
                run_script(d["body"])
                return f
        else:
            def body(f=f, d=d):
                log.append(["body", f])
                run_script(d["body"])
                return f

        body.__name__ = "F%d" % (f % 2)     # distinct functions may share a name: identity, not the name, keys the re-entrancy state
        g = body
        for k in reversed(range(len(d["post"]))):
            def post(f=f, k=k, d=d):
                log.append(["post", f, k])
                return run_script(d["post"][k])

            g = icontract.ensure(post, error=_mk_err("violPost", f, k))(g)
        # innermost decorator = first in list order
        for k in reversed(range(len(d["pre"]))):
            pass
        ncap = case.get("captures", {}).get(str(f), 0)
        npre = len(d["pre"]) - ncap
        # the trailing `ncap` truthy conditions are realised as snapshot captures (logged as conditions)
        for k in reversed(range(npre, len(d["pre"]))):
            def mk_cap(f, k, d):
                def cap():
                    log.append(["cond", f, k])
                    run_script(d["pre"][k])
                    return k
                return cap

            g = icontract.snapshot(mk_cap(f, k, d), name="c%d" % k)(g)
        for k in range(npre):
            def pre(f=f, k=k, d=d):
                log.append(["cond", f, k])
                return run_script(d["pre"][k])

            g = icontract.require(pre, error=_mk_err("violPre", f, k))(g)
        fns[f] = g
    # postconditions were applied innermost-first in reversed order above: fix the list order explicitly
    for f, d in enumerate(prog["fns"]):
        ck = _ck.find_checker(fns[f])
        if ck is not None and len(d["post"]) > 1:
            ck.__postconditions__.reverse()
        if ck is not None:
            ck.__postcondition_snapshots__.sort(key=lambda s_: int(s_.name[1:]))

    # classes: cls c has base bases[c]; the effective invariants of c are base's + own (a prefix relation)
    for c, d in enumerate(prog["classes"]):
        b = bases[c]
        ns = {}

        def init(self, iid, c=c, d=d):
            object.__setattr__(self, "iid", iid)
            inst[iid] = self
            log.append(["init", iid, c])
            run_script(d["init"], self, c)

        init.__name__ = "__init__"
        ns["__init__"] = init
        for m, md in enumerate(d["meths"]):
            if case.get("asyncMeths", {}).get("%d.%d" % (c, m)):
                async def meth(self, m=m, md=md):
                    log.append(["meth", self.iid, m])
                    run_script(md["body"], self)
                    return m
            else:
                def meth(self, m=m, md=md):
                    log.append(["meth", self.iid, m])
                    run_script(md["body"], self)
                    return m

            meth.__name__ = ("m%d" if md["guarded"] else "_m%d") % m
            ns[meth.__name__] = meth
        nbase = len(prog["classes"][b]["invs"]) if b is not None else 0
        mode = case.get("clsMode", ["dbc"] * len(prog["classes"]))[c]
        if b is None:
            parents = (icontract.DBC,) if mode == "dbc" else ()
        else:
            parents = (classes[b],)
        if mode == "dbc" or (b is not None and isinstance(classes[b], icontract.DBCMeta)):
            cls = icontract.DBCMeta("K%d" % c, parents, ns)
        else:
            cls = type("K%d" % c, parents, ns)
        for k in range(nbase, len(d["invs"])):
            def inv(self, k):
                iid = self.__dict__.get("iid", -1)
                log.append(["inv", iid, k])
                return run_script(prog["classes"][prog["instCls"][iid]]["invs"][k], self) if iid >= 0 else True

            def mk_fac(k):
                def fac(self):
                    return _mk_err("violInv", self.__dict__.get("iid", -1), k)
                return fac

            def mk_inv(k):
                def inv_(self):
                    return inv(self, k)
                return inv_

            cls = icontract.invariant(mk_inv(k), error=mk_fac(k))(cls)
        classes[c] = cls

    for i, c in enumerate(prog["instCls"]):
        o = object.__new__(classes[c])
        object.__setattr__(o, "iid", i)
        inst[i] = o

    steps = []
    var = getattr(_ck, "_IN_PROGRESS", None)
    token = var.set(None) if var is not None else None
    old_limit = sys.getrecursionlimit()
    sys.setrecursionlimit(case.get("pyLimit", 600))
    try:
        for a in case["top"]:
            del log[:]
            try:
                do(a)
                out = ["ok"]
            except _Tag as e:
                out = e.tag
            except RecursionError:
                out = ["timeout"]
            except BaseException as e:  # noqa: B902
                out = ["other", type(e).__name__, str(e)[:80]]
            cur = var.get() if var is not None else None
            steps.append({"trace": list(log), "out": out, "inprog_size": len(cur) if cur else 0})
    finally:
        sys.setrecursionlimit(old_limit)
        if token is not None:
            var.reset(token)
    return {"steps": steps}
