"""Generators of class histories (dom="meta"; see implmeta.py / Lean MetaCase)."""
import itertools

KEYS = ["m", "n", "s", "c", "p", "__init__", "_q", "__call__", "register"]    # (the last two: names that also exist on the metaclass)


def op(kind, **kw):
    d = {"op": kind, "f": 0, "c": 0, "k": 0, "bases": [], "dbc": True, "ns": [], "call": True, "setattr": False}
    d.update(kw)
    return d


class Builder:
    def __init__(self):
        self.ops = []
        self.snap_names = []
        self.next_f = 100
        self.next_c = 1
        self.next_s = 500
        self.classes = []
        self.members = []
        self.dbc = {}
        self.keys_of = {}      # class -> keys visible (own + inherited)

    def new_fn(self, npre=0, npost=0, nsnap=0, snap_name=None):
        f = self.next_f
        self.next_f += 1
        for _ in range(npost):
            self.ops.append(op("post", f=f, c=self.next_c))
            self.next_c += 1
        for i in range(nsnap if npost else 0):
            s = self.next_s
            self.next_s += 1
            self.snap_names.append([s, snap_name or ("s%d" % s)])
            self.ops.append(op("snap", f=f, c=s))
        for _ in range(npre):
            self.ops.append(op("pre", f=f, c=self.next_c))
            self.next_c += 1
        return f

    def member(self, key, f=None, **acc):
        if key == "s":
            return [key, {"static": {"f": f}}]
        if key == "c":
            return [key, {"classm": {"f": f}}]
        if key == "p":
            return [key, {"prop": {"fget": acc.get("fget"), "fset": acc.get("fset"), "fdel": acc.get("fdel")}}]
        return [key, {"func": {"f": f}}]

    def add_class(self, bases, ns, dbc=True):
        k = len(self.classes) + 1
        self.classes.append(k)
        self.dbc[k] = dbc or any(self.dbc[b] for b in bases)
        self.ops.append(op("class", k=k, bases=list(bases), dbc=self.dbc[k], ns=ns))
        self.members.append((k, ns))
        return k

    def resolve(self, k, key):
        """the member `key` as class k sees it (own, else the first base that has it - depth first)"""
        for kk, ns_ in self.members:
            if kk == k:
                for key_, m in ns_:
                    if key_ == key and isinstance(m, dict):
                        return m
                for o in self.ops:
                    if o["op"] == "class" and o["k"] == k:
                        for bb in o["bases"]:
                            r = self.resolve(bb, key)
                            if r is not None:
                                return r
        return None

    def all_definitions(self, k, key):
        out = []
        for kk, ns_ in self.members:
            if kk == k:
                out.extend(m for key_, m in ns_ if key_ == key and isinstance(m, dict))
        for o in self.ops:
            if o["op"] == "class" and o["k"] == k:
                for bb in o["bases"]:
                    out.extend(self.all_definitions(bb, key))
        return out

    def may_take_over(self, bases, key, member):
        """taking the member over from one base is generated only when no OTHER base resolves the key to something else
        (with several bases handing down different members the library writes onto the shared function: a known finding
        that has its own hand-written stream)"""
        # (every definition of the key ANYWHERE in the ancestry of the bases has to be this very member: which one a base
        # resolves the key to is a matter of its C3 linearisation, not of a depth-first walk)
        if not all(m == member for bb in bases for m in self.all_definitions(bb, key)):
            return False
        # only functions that carry contracts of their OWN are taken over: for them the object the class holds IS the object
        # the history names (the checker); a bare function gets its checker from the meta-class, and that new object - what
        # `m = Base.m` would really hand over - has no name in the history
        has_contracts = set(o["f"] for o in self.ops if o["op"] in ("pre", "post"))
        kind = next(iter(member))
        fids = [v for v in member["prop"].values() if v is not None] if kind == "prop" else [member[kind]["f"]]
        return all(f in has_contracts for f in fids)

    def add_inv(self, k, call=True, setattr_=False):
        self.ops.append(op("inv", k=k, c=self.next_c, call=call, setattr=setattr_))
        self.next_c += 1

    def case(self):
        return {"dom": "meta", "snapNames": self.snap_names, "ops": self.ops}


def random_history(rng, max_classes=6, p_inv=0.5, keys=KEYS, late=False):
    """late=True: also decorate members of already created classes (postconditions / snapshots added afterwards) and let
    two function ids share one undecorated function object (the same implementation decorated / bound twice)"""
    b = Builder()
    same_bare = {}
    fn_names = {}
    plain_fns = []
    n = rng.randint(2, max_classes)
    for i in range(n):
        nb = 0 if i == 0 else rng.choice([0, 1, 1, 1, 2, 2])
        bases = rng.sample(b.classes, min(nb, len(b.classes)))
        dbc = rng.random() < 0.85
        ns = []
        for key in rng.sample(keys, rng.randint(0, 3)):
            # weaken rule: mostly respect it, sometimes not (rejection is part of the property)
            npre = rng.choice([0, 0, 1, 1, 2])
            npost = rng.choice([0, 0, 1, 2])
            nsnap = rng.choice([0, 0, 1]) if npost else 0
            sname = rng.choice([None, None, "dup"]) if nsnap else None
            if key == "p":
                acc = {}
                for a in ("fget", "fset", "fdel"):
                    if rng.random() < 0.6:
                        np_ = rng.choice([0, 1])
                        acc[a] = b.new_fn(rng.choice([0, 1]), np_, rng.choice([0, 0, 1]) if np_ else 0)
                if not acc:
                    acc["fget"] = b.new_fn(npre, npost)
                # `@Base.p.setter` / `.getter` / `.deleter`: the derived property TAKES OVER the other accessors of a base's
                # property - the very same function objects
                inherited = [m["prop"] for kk, ns_ in b.members if kk in bases for key_, m in ns_ if key_ == "p" and isinstance(m, dict) and "prop" in m
                             and b.may_take_over(bases, "p", m)]
                if inherited and rng.random() < 0.6:
                    src = rng.choice(inherited)
                    redefined = rng.choice(["fget", "fset", "fdel"])
                    for a in ("fget", "fset", "fdel"):
                        if a != redefined:
                            if src.get(a) is not None:
                                acc[a] = src[a]
                            else:
                                acc.pop(a, None)
                    if redefined not in acc:
                        acc[redefined] = b.new_fn(0, rng.choice([0, 1]))
                ns.append(b.member(key, **acc))
            else:
                # `m = Base.m`: the member is TAKEN OVER from a direct base as it is (to choose an implementation among
                # several bases, or the `__hash__ = Base.__hash__` idiom) - the very same function object
                kind_of = {"s": "static", "c": "classm"}.get(key, "func")
                shared = [m[kind_of]["f"] for kk, ns_ in b.members if kk in bases for key_, m in ns_
                          if key_ == key and isinstance(m, dict) and kind_of in m and b.may_take_over(bases, key, m)]
                if shared and key not in ("__init__",) and rng.random() < 0.2:
                    ns.append(b.member(key, rng.choice(shared)))
                    continue
                f = b.new_fn(npre, npost, nsnap, sname)
                if rng.random() < 0.12:
                    # the function object is called differently than the attribute it is bound to (an alias / a shared
                    # helper / a decorator without functools.wraps): only the attribute name may matter
                    fn_names[str(f)] = rng.choice(["__init__", "__new__", "__setattr__", "helper_impl"]) if key != "__init__" else "helper_impl"
                if late and rng.random() < 0.3:
                    b.ops.append(op("call", f=f))       # the decorated function is used on its own before the class exists
                if late and key in ("m", "n") and plain_fns and rng.random() < 0.3:
                    same_bare[str(f)] = rng.choice(plain_fns)          # the same implementation function, decorated again
                elif late and key in ("m", "n"):
                    plain_fns.append(f)
                if rng.random() < 0.25:
                    b.ops.append(op("wrap", f=f))      # a foreign functools.wraps decorator above the contracts
                ns.append(b.member(key, f))
        if rng.random() < 0.15:
            ns.append(["attr", "other"])
        k = b.add_class(bases, ns, dbc)
        if rng.random() < p_inv:
            for _ in range(rng.randint(1, 2)):
                call, sa = rng.choice([(True, False), (True, False), (False, True), (True, True)])
                b.add_inv(k, call, sa)
        if late and rng.random() < 0.5:
            # a late decoration of a member of an already created class
            # (only members that already carry a checker: a first contract creates a NEW function object that the user
            # has to re-bind - what other classes then see is a matter of ordinary attribute look-up, not of the library)
            has_contracts = set(o["f"] for o in b.ops if o["op"] in ("pre", "post"))
            cands = [(kk, key, m) for kk, ns_ in b.members for key, m in ns_ if isinstance(m, dict) and next(iter(m)) in ("func", "static", "classm")
                     and key not in ("__init__",) and m[next(iter(m))]["f"] in has_contracts]
            if cands:
                _kk, _key, m = rng.choice(cands)
                f = m[next(iter(m))]["f"]
                what = rng.choice(["post", "post", "snap"])
                if what == "post":
                    b.ops.append(op("post", f=f, c=b.next_c))
                    b.next_c += 1
                else:
                    sid = b.next_s
                    b.next_s += 1
                    # (sometimes a name that is already taken in this history - if it is taken by the member's own or
                    # inherited snapshots, the late decoration must be refused like an early one)
                    taken = [nm for _s, nm in b.snap_names]
                    b.snap_names.append([sid, rng.choice(taken) if (taken and rng.random() < 0.5) else "late%d" % sid])
                    b.ops.append(op("post", f=f, c=b.next_c))
                    b.next_c += 1
                    b.ops.append(op("snap", f=f, c=sid))
        # sometimes decorate an *earlier* class with an invariant after subclasses exist
        if rng.random() < 0.2 and len(b.classes) > 1:
            call, sa = rng.choice([(True, False), (False, True), (True, True)])
            b.add_inv(rng.choice(b.classes[:-1]), call, sa)
    c = b.case()
    if late:
        c["sameBare"] = same_bare
    if fn_names:
        c["fnNames"] = fn_names
    c["module"] = rng.choice(["verif_hist", "verif_hist", "icontract_models", "icontractual.shapes", "my_icontract", "icontract_ext"])
    return c


def taken_over_shapes():
    """a derived class binds again the very function object of a base's member: with ONE base providing the member nothing
    changes anywhere (repair d4767ed); with ANOTHER base handing down contracts of its own the library writes them onto
    the shared function (known finding of C17)"""
    for kind in ("func", "classm", "static", "prop", "func-wrapped"):
        wrapped = kind == "func-wrapped"      # `m = traced(Base.m)`: a foreign functools.wraps decorator around the member taken over
        kind = "func" if wrapped else kind
        for npost, npre, nsnap in ((1, 1, 0), (2, 0, 1), (1, 2, 0)):
            for other_base in (False, True):
                b = Builder()
                key = {"func": "m", "classm": "c", "static": "s", "prop": "p"}[kind]
                if kind == "prop":
                    g = b.new_fn(npre, npost, nsnap)
                    st = b.new_fn(0, 1)
                    a = b.add_class([], [b.member("p", fget=g, fset=st)])
                else:
                    f = b.new_fn(npre, npost, nsnap)
                    a = b.add_class([], [b.member(key, f)])
                bases = [a]
                if other_base:
                    if kind == "prop":
                        g2 = b.new_fn(1, 1)
                        o = b.add_class([], [b.member("p", fget=g2)])
                    else:
                        f2 = b.new_fn(1, 1)
                        o = b.add_class([], [b.member(key, f2)])
                    bases = [o, a]
                if wrapped:
                    b.ops.append(op("wrap", f=f))
                for _ in range(2):
                    if kind == "prop":
                        b.add_class(bases, [b.member("p", fget=g, fset=b.new_fn(0, 1))])
                    else:
                        b.add_class(bases, [b.member(key, f)])
                c = b.case()
                c["module"] = "verif_hist"
                yield c


def late_shapes():
    """late decorations (after the class exists) of members that already carry a checker"""
    out = []
    for what in ("pre", "post", "snap"):
        for own_pre in (0, 1):
            for own_post in (0, 1):
                if what == "pre" and own_pre:
                    continue        # (the library refuses a late @require on a member that already has several groups)
                # A.m has a precondition and a postcondition; B(A) overrides m; C(A) is a sibling override; then B.m is decorated late
                b = Builder()
                a = b.add_class([], [b.member("m", b.new_fn(1, 1))])
                fb = b.new_fn(own_pre, own_post)
                kb = b.add_class([a], [b.member("m", fb)])
                b.add_class([a], [b.member("m", b.new_fn(0, 1))])
                b.add_class([a], [b.member("m", b.new_fn(0, 0))])        # a sibling that overrides without own contracts
                b.add_class([kb], [b.member("n", b.new_fn(1, 0))])
                if what == "pre":
                    b.ops.append(op("pre", f=fb, c=b.next_c))
                elif what == "post":
                    b.ops.append(op("post", f=fb, c=b.next_c))
                else:
                    sid = b.next_s
                    b.next_s += 1
                    b.snap_names.append([sid, "late%d" % sid])
                    b.ops.append(op("post", f=fb, c=b.next_c))
                    b.next_c += 1
                    b.ops.append(op("snap", f=fb, c=sid))
                b.next_c += 1
                out.append(b.case())
    # late snapshots whose name is already taken - by the member's own snapshot or by one it inherited when its class
    # was created - must be refused exactly like early ones; a fresh name is accepted
    for own_snap in (0, 1):
        for late_name in ("inherited", "own", "fresh", "sibling"):
            if late_name == "own" and not own_snap:
                continue
            b = Builder()
            fa = b.new_fn(0, 1, 1, "sA")
            a = b.add_class([], [b.member("m", fa)])
            fb = b.new_fn(0, 1, own_snap, "sB")
            kb = b.add_class([a], [b.member("m", fb)])
            b.add_class([a], [b.member("m", b.new_fn(0, 1, 1, "sC"))])
            sid = b.next_s
            b.next_s += 1
            b.snap_names.append([sid, {"inherited": "sA", "own": "sB", "fresh": "sNew", "sibling": "sC"}[late_name]])
            b.ops.append(op("post", f=fb, c=b.next_c))
            b.next_c += 1
            b.ops.append(op("snap", f=fb, c=sid))
            b.add_class([kb], [b.member("m", b.new_fn(0, 1))])
            out.append(b.case())
    return out


def shapes():
    """Hand-picked shapes: chain, gap, two bases, diamond, unrelated sibling - x placements of contracts."""
    out = []
    for pa, pb, pc in itertools.product([0, 1, 2], repeat=3):
        for post in (0, 1):
            # chain with foreign decorator layers above the contracts of the overriding functions
            b = Builder()
            fa = b.new_fn(pa, post)
            a = b.add_class([], [b.member("m", fa)])
            fb = b.new_fn(pb, post)
            b.ops.append(op("wrap", f=fb))
            bb = b.add_class([a], [b.member("m", fb)])
            fc = b.new_fn(pc, post)
            b.ops.append(op("wrap", f=fc))
            b.ops.append(op("wrap", f=fc))
            b.add_class([bb], [b.member("m", fc)])
            out.append(b.case())
            # chain A <- B <- C on method m
            b = Builder()
            a = b.add_class([], [b.member("m", b.new_fn(pa, post))])
            bb = b.add_class([a], [b.member("m", b.new_fn(pb, post))])
            b.add_class([bb], [b.member("m", b.new_fn(pc, post))])
            out.append(b.case())
            # gap: B does not override
            b = Builder()
            a = b.add_class([], [b.member("m", b.new_fn(pa, post))])
            bb = b.add_class([a], [b.member("n", b.new_fn(pb, post))])
            b.add_class([bb], [b.member("m", b.new_fn(pc, post))])
            out.append(b.case())
            # two bases
            b = Builder()
            a = b.add_class([], [b.member("m", b.new_fn(pa, post))])
            bb = b.add_class([], [b.member("m", b.new_fn(pb, post))])
            b.add_class([a, bb], [b.member("m", b.new_fn(pc, post))])
            out.append(b.case())
            # diamond
            b = Builder()
            r = b.add_class([], [b.member("m", b.new_fn(1, post))])
            a = b.add_class([r], [b.member("m", b.new_fn(pa, post))])
            bb = b.add_class([r], [b.member("m", b.new_fn(pb, post))])
            b.add_class([a, bb], [b.member("m", b.new_fn(pc, post))])
            out.append(b.case())
    # invariants: every check_on on base x every check_on on derived, plus a sibling
    cos = [(True, False), (False, True), (True, True)]
    for ca in cos:
        for cb in cos:
            for late in (False, True):
                b = Builder()
                a = b.add_class([], [b.member("m", b.new_fn())])
                if not late:
                    b.add_inv(a, *ca)
                bb = b.add_class([a], [b.member("n", b.new_fn())])
                b.add_inv(bb, *cb)
                if late:
                    b.add_inv(a, *ca)
                s = b.add_class([a], [b.member("n", b.new_fn())])
                b.add_inv(s, True, False)
                out.append(b.case())
    # constructors are not inherited; properties; static/class methods
    for key in ("__init__", "s", "c", "p"):
        for pa, pb in itertools.product([0, 1], repeat=2):
            b = Builder()
            if key == "p":
                a = b.add_class([], [b.member("p", fget=b.new_fn(pa, 1), fset=b.new_fn(pa, 0))])
                b.add_class([a], [b.member("p", fget=b.new_fn(pb, 1), fset=b.new_fn(pb, 1))])
            else:
                a = b.add_class([], [b.member(key, b.new_fn(pa, 1, 1))])
                b.add_class([a], [b.member(key, b.new_fn(pb, 1))])
            out.append(b.case())
    # diamonds under invariants: root decorated (inherited wrappers must not be copied down) and
    # root undecorated with one decorated branch (the inherited method is wrapped for that branch)
    for root_inv in (True, False):
        for branch_inv in (True, False):
            for pc in (0, 1):
                b = Builder()
                r = b.add_class([], [b.member("m", b.new_fn(1, 1))])
                if root_inv:
                    b.add_inv(r, True, False)
                x = b.add_class([r], [b.member("n", b.new_fn())])
                if branch_inv:
                    b.add_inv(x, True, False)
                y = b.add_class([r], [b.member("m", b.new_fn(pc, 1))])
                b.add_class([x, y], [])
                out.append(b.case())
    # duplicate snapshot names across levels
    b = Builder()
    a = b.add_class([], [b.member("m", b.new_fn(0, 1, 1, "dup"))])
    b.add_class([a], [b.member("m", b.new_fn(0, 1, 1, "dup"))])
    out.append(b.case())
    return out
