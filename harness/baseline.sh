#!/bin/sh
# Run the pinned baseline suite on /repo and report whether every stable_pass test passes.
cd /repo && /venv/bin/python -m pytest -q -p no:cacheprovider --timeout=900 --continue-on-collection-errors --junitxml=/tmp/verif_baseline.xml >/tmp/verif_baseline.log 2>&1
/venv/bin/python - <<'PY'
import json, xml.etree.ElementTree as ET
base=json.load(open('/root/.vp/BASELINE.json'))
want=set(base['stable_pass'])
t=ET.parse('/tmp/verif_baseline.xml')
ok=set()
for tc in t.iter('testcase'):
    name=tc.get('classname')+'::'+tc.get('name')
    if not any(ch.tag in('failure','error','skipped') for ch in tc): ok.add(name)
missing=sorted(want-ok)
print("baseline: %d/%d stable tests pass" % (len(want&ok), len(want)))
for m in missing[:20]: print("  FAIL", m)
raise SystemExit(1 if missing else 0)
PY
