#!/bin/sh
# Run the pinned baseline suite on /repo (or $VERIF_REPO) and report whether every stable_pass test passes.
R="${VERIF_REPO:-/repo}"
X="/tmp/verif_baseline.$$"
cd "$R" && PYTHONPATH="$R" /venv/bin/python -m pytest -q -p no:cacheprovider --timeout=900 --continue-on-collection-errors --junitxml=$X.xml >$X.log 2>&1
/venv/bin/python - $X.xml <<'PY'
import json, sys, xml.etree.ElementTree as ET
base=json.load(open('/root/.vp/BASELINE.json'))
want=set(base['stable_pass'])
t=ET.parse(sys.argv[1])
ok=set()
for tc in t.iter('testcase'):
    name=tc.get('classname')+'::'+tc.get('name')
    if not any(ch.tag in('failure','error','skipped') for ch in tc): ok.add(name)
missing=sorted(want-ok)
print("baseline: %d/%d stable tests pass" % (len(want&ok), len(want)))
for m in missing[:20]: print("  FAIL", m)
raise SystemExit(1 if missing else 0)
PY
rc=$?
rm -f $X.xml $X.log
exit $rc
