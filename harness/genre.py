"""Generators of re-entrancy programs (dom="reentry")."""

REPAIRED = {"shortcutDiscards": False, "idDuringBody": False, "ctorTestsMembership": True}
UPSTREAM = {"shortcutDiscards": True, "idDuringBody": True, "ctorTestsMembership": False}


def script(actions=(), truthy=True):
    return {"actions": list(actions), "truthy": truthy}


def call_fn(f):
    return {"callFn": {"f": f}}


def call_meth(i, m):
    return {"callMethod": {"inst": i, "m": m}}


def construct(i):
    return {"construct": {"inst": i}}


def super_init(i, c):
    return {"superInit": {"inst": i, "cls": c}}


def random_program(rng, nfns=3, ncls=2, max_calls=2, p_false=0.15, plain_sub=False):
    """Bodies may only call 'later' callables (acyclic when run bare); conditions and invariants may call
    anything.  Rank: functions by index; then methods; constructors only at the top level or in bodies."""
    nf = rng.randint(1, nfns)
    nc = rng.randint(0, ncls)
    # class chain: class c>0 derives from c-1 with probability 0.6
    bases = [None if c == 0 or rng.random() < 0.4 else c - 1 for c in range(nc)]
    modes = ["dbc"] * nc
    if plain_sub:
        for c in range(nc):
            modes[c] = rng.choice(["dbc", "plain"]) if bases[c] is None else modes[bases[c]]
    ninst_per = [rng.randint(1, 2) for _ in range(nc)]
    inst_cls = [c for c in range(nc) for _ in range(ninst_per[c])]
    ninst = len(inst_cls)
    nmeth = [rng.randint(1, 3) for _ in range(nc)]
    guarded = [[rng.random() < 0.75 for _ in range(nmeth[c])] for c in range(nc)]

    def any_call(exclude_construct=True):
        opts = [call_fn(rng.randrange(nf))]
        if ninst:
            i = rng.randrange(ninst)
            opts.append(call_meth(i, rng.randrange(nmeth[inst_cls[i]])))
        return rng.choice(opts)

    def cond_script(self_inst=None):
        acts = [any_call() for _ in range(rng.randint(0, max_calls))]
        if self_inst is not None and rng.random() < 0.6:
            acts.append(call_meth(self_inst, rng.randrange(nmeth[inst_cls[self_inst]])))
        return script(acts, rng.random() >= p_false)

    fns = []
    for f in range(nf):
        later = [call_fn(g) for g in range(f + 1, nf)]
        body_acts = [rng.choice(later) for _ in range(rng.randint(0, max_calls))] if later else []
        if ninst and rng.random() < 0.4:
            i = rng.randrange(ninst)
            body_acts.append(call_meth(i, rng.randrange(nmeth[inst_cls[i]])))
        fns.append({"pre": [cond_script() for _ in range(rng.randint(0, 2))],
                    "post": [cond_script() for _ in range(rng.randint(0, 1))],
                    "body": script(body_acts)})
    classes = []
    for c in range(nc):
        base_invs = classes[bases[c]]["invs"] if bases[c] is not None else []
        own = []
        # a plain (non-DBC) subclass shares its decorated base's invariant lists (pinned behaviour): it declares none
        for _ in range(0 if (modes[c] == "plain" and bases[c] is not None) else rng.randint(0 if bases[c] is not None else 1, 2)):
            acts = []
            # an invariant calls public/private methods of `self`: expressed per instance at run time, so the
            # script names a method index valid for every class of the chain (index 0)
            own.append(script(acts, rng.random() >= p_false))
        invs = base_invs + own
        init_acts = []
        if bases[c] is not None and rng.random() < 0.85:
            pos = rng.choice(["first", "middle", "last"])
        else:
            pos = None
        meths = []
        for m in range(nmeth[c]):
            acts = []
            for _ in range(rng.randint(0, max_calls)):
                if rng.random() < 0.5 and m + 1 < nmeth[c]:
                    acts.append(("self", rng.randrange(m + 1, nmeth[c])))
                else:
                    # bodies run bare must terminate: a method body only calls 'later' methods (never functions)
                    later = [(i, mm) for i, cc in enumerate(inst_cls) if cc > c for mm in range(nmeth[cc])]
                    # ... or a later method of ANY instance of the same class (the same method set on another object)
                    later += [(i, mm) for i, cc in enumerate(inst_cls) if cc == c for mm in range(m + 1, nmeth[c])]
                    if later:
                        acts.append(call_meth(*rng.choice(later)))
            meths.append({"guarded": guarded[c][m], "body": acts})
        classes.append({"invs": invs, "init": {"pos": pos, "calls": rng.randint(0, 2)}, "initWrapped": True, "meths": meths,
                        "_ninvs_own": len(own)})
    # instantiate per-instance scripts: method bodies / invariants that refer to `self` need the instance id, so
    # every instance gets its own class copy in the program (class index = instance's class; scripts use a
    # placeholder resolved below).  To keep the model simple each class has exactly the instances listed.
    prog_classes = []
    for c in range(nc):
        d = classes[c]
        prog_classes.append(d)
    # resolve: since scripts are per class, `self` calls are only generated for classes with ONE instance
    for c in range(nc):
        insts = [i for i, cc in enumerate(inst_cls) if cc == c or _derives(bases, cc, c)]
        d = prog_classes[c]
        one = insts[0] if len(insts) == 1 else None
        for md in d["meths"]:
            acts = []
            for a in md["body"]:
                if isinstance(a, tuple):
                    if one is not None and inst_cls[one] == c:
                        acts.append(call_meth(one, a[1]))
                else:
                    acts.append(a)
            md["body"] = script(acts)
        own_i = [i for i, cc in enumerate(inst_cls) if cc == c]
        init = d["init"]
        acts = []
        sup = super_init(own_i[0], bases[c]) if (init["pos"] and len(own_i) == 1 and not _has_subclass_instances(bases, inst_cls, c)) else None
        calls = []
        if len(own_i) == 1 and not _has_subclass_instances(bases, inst_cls, c):
            for _ in range(init["calls"]):
                calls.append(call_meth(own_i[0], rng.randrange(nmeth[c])))
        if sup is None:
            acts = calls
        elif init["pos"] == "first":
            acts = [sup] + calls
        elif init["pos"] == "last":
            acts = calls + [sup]
        else:
            acts = calls[:1] + [sup] + calls[1:]
        d["init"] = script(acts)
        # invariants calling methods of self
        if len(insts) == 1 and inst_cls[insts[0]] == c:
            for k in range(len(d["invs"]) - d["_ninvs_own"], len(d["invs"])):
                if rng.random() < 0.5:
                    d["invs"][k] = script([call_meth(insts[0], rng.randrange(nmeth[c]))], d["invs"][k]["truthy"])
        del d["_ninvs_own"]
    prog = {"fns": fns, "classes": prog_classes, "instCls": inst_cls}
    top = []
    for i in range(ninst):
        top.append(construct(i))
    for _ in range(rng.randint(1, 4)):
        top.append(any_call())
    case = {"dom": "reentry", "prog": prog, "variant": REPAIRED, "top": top, "fuel": 400, "bases": bases, "clsMode": modes,
            "pyLimit": 700,
            "asyncMeths": dict(("%d.%d" % (c, m), True) for c in range(nc) for m in range(nmeth[c]) if rng.random() < 0.3)}
    # trailing truthy preconditions of a function with a postcondition may be realised as snapshot captures:
    # evaluated after the preconditions, while the function is still in progress, never violated
    caps = {}
    for f, d in enumerate(fns):
        if d["post"] and d["pre"]:
            n = 0
            for c_ in reversed(d["pre"]):
                if c_["truthy"]:
                    n += 1
                else:
                    break
            if n and rng.random() < 0.6:
                caps[str(f)] = rng.randint(1, n)
    case["captures"] = caps
    # some functions are coroutine functions (their conditions stay plain functions)
    case["asyncFns"] = dict((str(f), True) for f in range(nf) if rng.random() < 0.3)
    if any(modes[c] == "plain" and bases[c] is not None for c in range(nc)):
        # what the library can actually see: a plain subclass of a decorated class is created behind its back
        import copy
        actual = copy.deepcopy(prog)
        for c in range(nc):
            if modes[c] == "plain" and bases[c] is not None:
                actual["classes"][c]["initWrapped"] = False
                for md in actual["classes"][c]["meths"]:
                    md["guarded"] = False
        case["specProg"] = prog
        case["prog"] = actual
        case["pubProg"] = prog
    return case


def _derives(bases, c, anc):
    while c is not None:
        c = bases[c]
        if c == anc:
            return True
    return False


def _has_subclass_instances(bases, inst_cls, c):
    return any(_derives(bases, cc, c) for cc in inst_cls)


class _Budget(Exception):
    pass


def cost_within(case, budget=4000):
    """Cheap event-count simulation of the frame semantics, only used to discard programs whose
    evaluation explodes combinatorially (a generator guard, not an oracle)."""
    prog = case.get("pubProg", case["prog"])
    n = [0]

    def tick():
        n[0] += 1
        if n[0] > budget:
            raise _Budget()

    def script(s, stack, depth):
        for a in s["actions"]:
            act(a, stack, depth)

    def act(a, stack, depth):
        if depth > 60:
            raise _Budget()
        k = next(iter(a))
        v = a[k]
        if k == "callFn":
            d = prog["fns"][v["f"]]
            key = ("fn", v["f"])
            if (key, "c") in stack:
                tick()
                script(d["body"], stack, depth + 1)
                return
            for c in d["pre"]:
                tick()
                script(c, stack | {(key, "c")}, depth + 1)
            tick()
            script(d["body"], stack, depth + 1)
            for c in d["post"]:
                tick()
                script(c, stack | {(key, "c")}, depth + 1)
        elif k == "callMethod":
            i = v["inst"]
            c = prog["classes"][prog["instCls"][i]]
            md = c["meths"][v["m"]]
            key = ("inst", i)
            if not md["guarded"] or (key, "i") in stack:
                tick()
                script(md["body"], stack, depth + 1)
                return
            for _ in range(2):
                for s in c["invs"]:
                    tick()
                    script(s, stack | {(key, "i")}, depth + 1)
            tick()
            script(md["body"], stack | {(key, "i")}, depth + 1)
        elif k in ("construct", "superInit"):
            i = v["inst"]
            cid = prog["instCls"][i] if k == "construct" else v["cls"]
            c = prog["classes"][cid]
            key = ("inst", i)
            tick()
            script(c["init"], stack | {(key, "i")}, depth + 1)
            if (key, "i") not in stack:
                for s in prog["classes"][prog["instCls"][i]]["invs"]:
                    tick()
                    script(s, stack | {(key, "i")}, depth + 1)

    try:
        for a in case["top"]:
            act(a, frozenset(), 0)
    except _Budget:
        return False
    return True
