"""Checker-domain materialiser: turn a case description into real decorated
Python (functions / DBC class chains) on the icontract of /repo, run the call
with instrumented user callables, and return the canonical observation.

Case (JSON-able dict), also sent verbatim to the Lean driver (dom="checker"):

  kind       function | method | static | class | propget | propset | propdel | init
  async      bool
  fid        id standing for the decorated function object (in-progress key)
  levels     [ {pre:[contract], snaps:[snapshot], posts:[contract]} ... ]   base class first
  paramNames [str]   (including the receiver for method-like kinds)
  kwdefaults [[name, id]]
  args, kwargs   the call (args include the receiver id for method-like kinds)
  inProgress [id]  ids in the in-progress set before the call
  cond/capture/fac/msg  [[id, answer]]   body: answer         (the oracle)
"""
import asyncio
import inspect
import re
import sys
import warnings

import common

icontract = common.assert_repo_import()
import icontract._checkers as _ck  # noqa: E402
import icontract._represent as _rep  # noqa: E402

warnings.simplefilter("ignore", RuntimeWarning)

_MISSING = object()


class UExc(Exception):
    pass


class UExcFalsy(Exception):
    def __bool__(self):
        return False


class UBase(BaseException):
    pass


class UBaseFalsy(BaseException):
    def __bool__(self):
        return False


NONE_ID = 777
EXC_CLASSES = [UExc, ValueError, LookupError, ArithmeticError, RuntimeError, TypeError, AssertionError]
BASE_CLASSES = [UBase, KeyboardInterrupt, SystemExit, GeneratorExit, asyncio.CancelledError]


def delivered_by_throw(exc_id):
    """Exception ids 9000..9999: delivered by `coro.throw` at a real suspension point (cancellation)."""
    return 9000 <= exc_id < 10000


class _Suspend:
    def __init__(self, exc):
        self.exc = exc

    def __await__(self):
        yield self


class NonExc:
    """What a faulty error factory returns."""


class World:
    """Objects of one case, with their case-level ids."""

    def __init__(self):
        self.by_pyid = {}
        self.objs = {}
        self.log = []
        self.lazy_self = None  # id to give to the first unknown instance (constructors)
        self.repr_raises = {}

    def reg(self, obj, i):
        self.by_pyid[id(obj)] = i
        self.objs[i] = obj
        return obj

    def val(self, i, truth="truthy", cid=None):
        if i == NONE_ID:
            # the value with this id is the very object None (an Optional argument passed as None)
            if i not in self.objs:
                self.objs[i] = None
                self.by_pyid[id(None)] = i
            return None
        if i in self.objs:
            o = self.objs[i]
            if isinstance(o, V) and cid is not None:
                o._truth, o._cid = truth, cid
            return o
        return self.reg(V(self, i, truth, cid), i)

    def exc(self, e):
        i = e["id"]
        if i in self.objs:
            return self.objs[i]
        is_exc = e.get("isException", True)
        truthy = e.get("truthy", True)
        if truthy:
            cls = (EXC_CLASSES[i % len(EXC_CLASSES)] if is_exc else BASE_CLASSES[i % len(BASE_CLASSES)])
        else:
            cls = UExcFalsy if is_exc else UBaseFalsy
        return self.reg(cls("user exception %d" % i), i)

    def id_of(self, obj):
        i = self.by_pyid.get(id(obj))
        if i is None and self.lazy_self is not None and self.lazy_cls is not None and isinstance(obj, self.lazy_cls):
            i = self.lazy_self
            self.reg(obj, i)
            self.lazy_self = None
        return i

    lazy_cls = None

    def canon_val(self, name, v):
        if name == "_ARGS" and isinstance(v, tuple):
            return ["t", [self.id_of(x) for x in v]]
        if name == "_KWARGS" and isinstance(v, dict):
            return ["d", sorted([k, self.id_of(x)] for k, x in v.items())]
        if name == "OLD" and isinstance(v, _ck.Old):
            return ["old", sorted([k, self.id_of(x)] for k, x in vars(v).items())]
        i = self.id_of(v)
        if i is None:
            return ["?", type(v).__name__]
        return ["o", i]

    def canon_kw(self, kw):
        return sorted([k, self.canon_val(k, v)] for k, v in kw.items() if v is not _MISSING)


class V:
    """A value with instrumented truthiness."""

    def __init__(self, world, i, truth, cid):
        self._w = world
        self._i = i
        self._truth = truth
        self._cid = cid

    def __bool__(self):
        if self._cid is not None:
            self._w.log.append(["bool", self._cid])
        t = self._truth
        if t == "truthy":
            return True
        if t == "falsy":
            return False
        raise self._w.exc(t["raises"]["e"])

    def __repr__(self):
        e = self._w.repr_raises.get(self._i)
        if e is not None:
            self._w.log.append(["repr", self._i])
            raise self._w.exc(e)
        return "V%d" % self._i


def _ans_kind(a):
    return next(iter(a)) if isinstance(a, dict) else a


class Materialised:
    pass


def _params_src(sig):
    """Python source of a parameter list with the given kinds and defaults."""
    parts = []
    seen_posonly = False
    star_done = False
    for i, p in enumerate(sig):
        k = p["kind"]
        if k != "posOnly" and seen_posonly:
            parts.append("/")
            seen_posonly = False
        if k == "posOnly":
            seen_posonly = True
        if k == "kwOnly" and not star_done:
            parts.append("*")
            star_done = True
        d = "=H_D[%r]" % p["name"] if p.get("default") is not None else ""
        if p.get("pyNone"):
            d = "=None"          # (a parameter whose default is the very object None)
        if k == "varPos":
            parts.append("*" + p["name"])
            star_done = True
        elif k == "varKw":
            parts.append("**" + p["name"])
        else:
            parts.append(p["name"] + d)
    if seen_posonly:
        parts.append("/")
    return ", ".join(parts)


def py_signature(case):
    """`inspect.Signature` over ids: CPython's own binding is the oracle for what the body receives."""
    kinds = {"posOnly": inspect.Parameter.POSITIONAL_ONLY, "posOrKw": inspect.Parameter.POSITIONAL_OR_KEYWORD,
             "varPos": inspect.Parameter.VAR_POSITIONAL, "kwOnly": inspect.Parameter.KEYWORD_ONLY,
             "varKw": inspect.Parameter.VAR_KEYWORD}
    ps = []
    for p in case["sig"]:
        d = p.get("default")
        ps.append(inspect.Parameter(p["name"], kinds[p["kind"]],
                                    default=inspect.Parameter.empty if d is None else d))
    return inspect.Signature(ps)


_BARE_CACHE = {}


def py_bind(case):
    """{param: canonical value} as CPython binds the call, or None if it rejects it.

    The oracle is a *real call* of a bare function with the same signature (not
    `inspect.Signature.bind`, which rejects `f(1, a=2)` for `def f(a, /, **kw)`)."""
    sig = case["sig"]
    src = _params_src(sig)
    dvals = dict((p["name"], p["default"]) for p in sig if p.get("default") is not None)
    key = (src, tuple(sorted(dvals.items())))
    fn = _BARE_CACHE.get(key)
    if fn is None:
        ns = {"H_D": dvals}
        exec("def bare(%s):\n    return locals()" % src, ns)
        fn = _BARE_CACHE[key] = ns["bare"]
    try:
        loc = fn(*case["args"], **dict(case["kwargs"]))
    except TypeError:
        return None
    kinds = dict((p["name"], p["kind"]) for p in sig)
    out = {}
    for n, v in loc.items():
        if kinds[n] == "varPos":
            out[n] = ["t", list(v)]
        elif kinds[n] == "varKw":
            out[n] = ["d", sorted([k, x] for k, x in v.items())]
        else:
            out[n] = ["o", v]
    return out


def build(case):
    """Materialise the case. Returns the Materialised object (source, namespace, world, oracle holder)."""
    w = World()
    m = Materialised()
    m.set_oracle = None
    orc = {}

    def set_oracle(step):
        orc["cond"] = dict((c, a) for c, a in step["cond"])
        orc["cap"] = dict((s, a) for s, a in step["capture"])
        orc["fac"] = dict((c, a) for c, a in step["fac"])
        orc["msg"] = dict((c, a) for c, a in step["msg"])
        orc["body"] = step["body"]

    set_oracle(case)
    is_async = case["async"]
    awaitable_objects = set(case.get("awaitableObjects", []))
    kind = case["kind"]

    def behave(a, cid, site):
        k = _ans_kind(a)
        if k == "val":
            d = a["val"]
            r = w.val(d["v"], d["t"], cid if site == "cond" else None)
            if site == "cond" and not is_async and cid % 4 == 1 and type(r) is V and not case.get("plainCondValues"):
                # the value a condition of a SYNC callable returns happens to be an awaitable object (a Future, a handle
                # with __await__): it is a value like any other - judged by its truth value, never awaited, never refused
                r.__class__ = _AwaitableCondV
            return r
        if k == "raises":
            raise w.exc(a["raises"]["e"])
        if k == "coro":
            inner = a["coro"]["inner"]

            async def _c():
                w.log.append(["await" + site, cid])
                return await abehave(inner, cid, site)

            if is_async and site == "cond" and cid in awaitable_objects:
                return _AwaitableObject(_c())      # an awaitable that is not a coroutine (like a Future)
            return _c()
        raise AssertionError(a)

    async def abehave(a, cid, site):
        """Like behave, inside a coroutine: marked exceptions arrive by throw at a real suspension point."""
        if _ans_kind(a) == "raises" and delivered_by_throw(a["raises"]["e"]["id"]):
            await _Suspend(w.exc(a["raises"]["e"]))
            raise AssertionError("resumed after suspension without an exception")
        return behave(a, cid, site)

    def cond_hook(cid, kw):
        w.log.append(["cond", cid, w.canon_kw(kw)])
        return behave(orc["cond"][cid], cid, "cond")

    async def acond_hook(cid, kw):
        w.log.append(["cond", cid, w.canon_kw(kw)])
        return await abehave(orc["cond"][cid], cid, "cond")

    awaitable_capture_values = set(case.get("awaitableCaptureValues", []))

    def cap_hook(sid, kw):
        w.log.append(["capture", sid, w.canon_kw(kw)])
        r = behave(orc["cap"][sid], sid, "capture")
        if is_async and sid in awaitable_capture_values and isinstance(r, V) and not isinstance(r, _AwaitableV):
            # the captured pre-state happens to be an awaitable object (a Future, a Task): it is a VALUE, not to be awaited
            r.__class__ = _AwaitableV
            r._awaited_log = w.log
            r._sid = sid
        return r

    async def acap_hook(sid, kw):
        w.log.append(["capture", sid, w.canon_kw(kw)])
        return await abehave(orc["cap"][sid], sid, "capture")

    def fac_hook(cid, kw):
        w.log.append(["errfac", cid, w.canon_kw(kw)])
        a = orc["fac"][cid]
        k = _ans_kind(a)
        if k == "exc":
            return w.exc(a["exc"]["e"])
        if k == "nonExc":
            return NonExc()
        raise w.exc(a["raises"]["e"])

    def canon_bound(bound):
        out = []
        for k, v in bound.items():
            if isinstance(v, tuple):
                out.append([k, ["t", [w.id_of(x) for x in v]]])
            elif isinstance(v, dict):
                out.append([k, ["d", sorted([kk, w.id_of(x)] for kk, x in v.items())]])
            else:
                out.append([k, w.canon_val("", v)])
        return sorted(out)

    def body_hook(bound):
        body_ans = orc["body"]
        w.log.append(["body", canon_bound(bound)])
        k = _ans_kind(body_ans)
        if k == "ret":
            if kind in ("init",):
                w.by_pyid[id(None)] = body_ans["ret"]["v"]  # __init__ must return None: None stands for the result id
                return None
            return w.val(body_ans["ret"]["v"])
        raise w.exc(body_ans["raises"]["e"])

    async def abody_hook(bound):
        body_ans = orc["body"]
        if _ans_kind(body_ans) == "raises" and delivered_by_throw(body_ans["raises"]["e"]["id"]):
            w.log.append(["body", canon_bound(bound)])
            await _Suspend(w.exc(body_ans["raises"]["e"]))
            raise AssertionError("resumed after suspension without an exception")
        return body_hook(bound)

    defaults = dict((n, w.val(i)) for n, i in case["kwdefaults"])
    ns = {
        "icontract": icontract,
        "H_cond": cond_hook,
        "H_acond": acond_hook,
        "H_cap": cap_hook,
        "H_acap": acap_hook,
        "H_fac": fac_hook,
        "H_body": body_hook,
        "H_abody": abody_hook,
        "H_D": defaults,
        "H_MISSING": _MISSING,
        "H_ERR": {},
    }

    lines = []
    err_classes = {}

    def err_expr(c):
        e = c["err"]
        k = _ans_kind(e)
        cid = c["id"]
        if k == "none":
            return None
        if k == "cls":
            d = e["cls"]
            base = "Exception" if d["subBase"] else "object"
            name = "ErrCls_%d" % cid
            lines.append("class %s(%s):" % (name, base))
            lines.append("    _cid = %d" % cid)
            if not d["truthy"]:
                lines.append("    def __bool__(self): return False")
            lines.append("    pass")
            err_classes[cid] = name
            return name
        if k == "inst":
            ns["H_ERR"][cid] = w.exc(e["inst"]["e"])
            return "H_ERR[%d]" % cid
        if k == "fac":
            args = e["fac"]["args"]
            # some of the factory's parameters have defaults of their own (every second one, for even contract ids):
            # the library must still pass the call's values
            def _p(ix, a):
                if a == "varkw":
                    return "**varkw"
                if a == "varargs":
                    return "*varargs"
                return "%s=H_MISSING" % a if (cid % 2 == 0 and ix % 2 == 1) else a
            plain_ = [_p(ix, a) for ix, a in enumerate(args)]
            plain_ = sorted(plain_, key=lambda t: (t.startswith("**"), t.startswith("*"), "=" in t))
            named_ = [t for t in plain_ if not t.startswith("*")]
            if cid % 3 == 0 and named_ and not any(t.startswith("*") and not t.startswith("**") for t in plain_):
                # ... and the last named parameter is keyword-only: the library passes everything by keyword
                at = plain_.index(named_[-1])
                plain_ = plain_[:at] + ["*"] + plain_[at:]
            sig_ = ", ".join(plain_)
            lines.append("def fac_%d(%s):" % (cid, sig_))
            lines.append("    return H_fac(%d, dict(%s))" % (cid, ", ".join("%s=%s" % (a, a) for a in args)))
            return "fac_%d" % cid
        if k == "other":
            ns["H_ERR"][cid] = 12345
            return "H_ERR[%d]" % cid
        raise AssertionError(e)

    def cond_def(c):
        cid = c["id"]
        names = c["args"]
        mand = set(c["mandatory"])
        plist = [n if n in mand else "%s=H_MISSING" % n for n in names]
        if cid % 3 == 0 and plist:
            # the last parameter is keyword-only (with or without a default)
            order = [t for t in plist if "=" not in t] + [t for t in plist if "=" in t]
            plist = order[:-1] + ["*", order[-1]]
        elif any("=" in t for t in plist):
            plist = [t for t in plist if "=" not in t] + [t for t in plist if "=" in t]
        params = ", ".join(plist)
        kwd = "dict(%s)" % ", ".join("%s=%s" % (a, a) for a in names)
        if c["coroFn"]:
            lines.append("async def cond_%d(%s):" % (cid, params))
            lines.append("    return await H_acond(%d, %s)" % (cid, kwd))
        else:
            lines.append("def cond_%d(%s):" % (cid, params))
            lines.append("    return H_cond(%d, %s)" % (cid, kwd))

    def snap_def(s):
        sid = s["id"]
        kwd = "dict(%s)" % ", ".join("%s=%s" % (a, a) for a in s["args"])
        # for even snapshot ids every parameter after the first has a default of its own (the snapshot is always
        # named explicitly): the capture must still receive the call's values
        cl_ = [("%s=H_MISSING" % a) if (sid % 2 == 0 and ix >= 1) else a for ix, a in enumerate(s["args"])]
        if sid % 3 == 0 and len(cl_) >= 2:
            cl_ = cl_[:-1] + ["*", cl_[-1]]          # keyword-only last parameter
        cparams = ", ".join(cl_)
        if s["coroFn"]:
            lines.append("async def cap_%d(%s):" % (sid, cparams))
            lines.append("    return await H_acap(%d, %s)" % (sid, kwd))
        else:
            lines.append("def cap_%d(%s):" % (sid, cparams))
            lines.append("    return H_cap(%d, %s)" % (sid, kwd))

    EN = ", enabled=True" if case.get("enabledExplicit") else ""
    decos = []  # per level: list of decorator source lines, outermost first
    for lv in case["levels"]:
        d = []
        for c in lv["posts"]:
            cond_def(c)
            ee = err_expr(c)
            d.append(
                "@icontract.ensure(cond_%d, description='c%d'%s%s)" % (c["id"], c["id"], ", error=%s" % ee if ee else "", EN)
            )
        for s_ in lv["snaps"]:
            snap_def(s_)
            d.append("@icontract.snapshot(cap_%d, name=%r%s)" % (s_["id"], s_["name"], EN))
        for c in lv["pre"]:
            cond_def(c)
            ee = err_expr(c)
            d.append(
                "@icontract.require(cond_%d, description='c%d'%s%s)" % (c["id"], c["id"], ", error=%s" % ee if ee else "", EN)
            )
        d.reverse()
        decos.append(d)

    pnames = case["paramNames"]
    psrc = _params_src(case["sig"])
    bound_src = "dict(%s)" % ", ".join("%s=%s" % (p, p) for p in pnames)
    adef = "async def" if is_async else "def"
    body_line = "    return await H_abody(%s)" % bound_src if is_async else "    return H_body(%s)" % bound_src

    if kind == "function":
        assert len(case["levels"]) == 1
        for dl in decos[0]:
            lines.append(dl)
        lines.append("%s f(%s):" % (adef, psrc))
        lines.append(body_line)
    else:
        mname = {"method": "m", "static": "m", "class": "m", "propget": "p", "propset": "p", "propdel": "p", "init": "__init__"}[
            kind
        ]
        for li, d in enumerate(decos):
            base = "icontract.DBC" if li == 0 else "L%d" % (li - 1)
            lines.append("class L%d(%s):" % (li, base))
            ind = "    "
            if kind == "static":
                lines.append(ind + "@staticmethod")
            elif kind == "class":
                lines.append(ind + "@classmethod")
            elif kind == "propget":
                lines.append(ind + "@property")
            elif kind in ("propset", "propdel"):
                lines.append(ind + "@property")
                lines.append(ind + "def p(self): return None")
                lines.append(ind + ("@p.setter" if kind == "propset" else "@p.deleter"))
            for dl in d:
                lines.append(ind + dl)
            lines.append(ind + "%s %s(%s):" % (adef, mname, psrc))
            lines.append(ind + body_line)

    src = "\n".join(lines) + "\n"
    m.world = w
    m.src = src
    m.ns = ns
    m.case = case
    m.orc = orc
    m.set_oracle = set_oracle
    return m


_DESC_RE = re.compile(r"\bc(\d+): ")


def classify_exception(w, exc):
    i = w.by_pyid.get(id(exc))
    if i is not None:
        return ["user", i]
    t = type(exc)
    cid = getattr(t, "_cid", None)
    if cid is not None:
        return ["viol", cid]
    msg = str(exc.args[0]) if exc.args else ""
    cause = exc.__cause__
    cause_id = w.by_pyid.get(id(cause)) if cause is not None else None
    if isinstance(exc, icontract.ViolationError):
        mm = _DESC_RE.search(msg)
        return ["viol", int(mm.group(1)) if mm else None]
    if isinstance(exc, TypeError):
        names = re.search(r"have not been set: (\[[^\]]*\])", msg)
        nl = eval(names.group(1)) if names else None
        mm = _DESC_RE.search(msg)
        if "contract condition have not been set" in msg:
            return ["TypeError", "missingCondArgs", None, nl]
        if "snapshot have not been set" in msg:
            return ["TypeError", "missingCaptureArgs", None, nl]
        if "contract error have not been set" in msg:
            return ["TypeError", "missingErrorArgs", None, nl]
        if '"_ARGS"' in msg and "function call" in msg:
            return ["TypeError", "reservedKwarg", "_ARGS"]
        if '"_KWARGS"' in msg and "function call" in msg:
            return ["TypeError", "reservedKwarg", "_KWARGS"]
        if "Unexpected argument 'result'" in msg:
            return ["TypeError", "reservedResolved", "result"]
        if "Unexpected argument 'OLD'" in msg:
            return ["TypeError", "reservedResolved", "OLD"]
        if "returned by the contract's error" in msg:
            return ["TypeError", "factoryNotException", None]
        if "exception class supplied" in msg:
            return ["TypeError", "classNotException", None]
        return ["other", "TypeError", None]
    if isinstance(exc, ValueError):
        if "Unexpected coroutine (async) condition" in msg:
            return ["ValueError", "coroFnCondOnSync", None, cause_id]
        if "Unexpected coroutine resulting from the condition" in msg:
            return ["ValueError", "coroCondOnSync", None, cause_id]
        if "Unexpected coroutine (async) snapshot capture" in msg:
            return ["ValueError", "coroFnCaptureOnSync", None, cause_id]
        if "Unexpected coroutine resulting from the snapshot capture" in msg:
            return ["ValueError", "coroCaptureOnSync", None, cause_id]
        if "Failed to negate" in msg:
            return ["ValueError", "negateFailed", None, cause_id]
        return ["ValueError", "?", msg[:80]]
    if isinstance(exc, RuntimeError) and "Failed to recompute" in msg:
        mm = _DESC_RE.search(msg)
        return ["RuntimeError", int(mm.group(1)) if mm else None, cause_id]
    if isinstance(exc, NotImplementedError):
        return ["NotImplementedError", None]
    return ["other", t.__name__, msg[:80]]


class _AwaitableV(V):
    """a captured value that is itself awaitable: awaiting it is observable"""

    def __await__(self):
        self._awaited_log.append(["awaited-captured-value", self._sid])
        return 12345
        yield


class _AwaitableCondV(V):
    """the value of a condition of a sync callable that is itself awaitable (not a coroutine)"""

    def __await__(self):
        raise AssertionError("the value of a sync condition must not be awaited")
        yield


class _AwaitableObject:
    """An awaitable that is not a coroutine object (as asyncio.Future, a Task or any object with __await__)."""

    def __init__(self, co):
        self._co = co

    def __await__(self):
        return self._co.__await__()

    def __del__(self):
        self._co.close()


def _drive(coro):
    """Run a coroutine; at a real suspension point deliver the pending exception by `throw`."""
    try:
        y = coro.send(None)
        for _ in range(50):
            if isinstance(y, _Suspend):
                y = coro.throw(y.exc)
            else:
                break
    except StopIteration as e:
        return e.value
    coro.close()
    # the library itself suspended (or needed a running event loop) where the user's awaitables do not suspend: an
    # observable difference, reported as the outcome of the call
    raise UnexpectedSuspension("the call suspended at %r although no user awaitable suspends" % (y,))


class UnexpectedSuspension(Exception):
    pass


def run(case, keep=False):
    """Materialise and run one call; returns the canonical observation dict."""
    return run_seq([case], keep=keep)[0]


def run_seq(steps, keep=False):
    """Materialise the first step's program and run every step's call on it, in one context.

    Steps share the program (kind, levels, parameters); each brings its own oracle and call.
    The in-progress state is preset from the first step only and then left to the library."""
    case = steps[0]
    m = build(case)
    w = m.world
    kind = case["kind"]
    first = {"src": m.src} if keep else {}

    orig_gen = getattr(_rep, "generate_message", None)

    def gen_message(contract, resolved_kwargs):
        cid = None
        d = getattr(contract, "description", None)
        if isinstance(d, str) and d.startswith("c"):
            try:
                cid = int(d[1:])
            except ValueError:
                pass
        w.log.append(["msg", cid])
        a = m.orc["msg"].get(cid, "ok")
        if _ans_kind(a) == "raises":
            raise w.exc(a["raises"]["e"])
        return orig_gen(contract=contract, resolved_kwargs=resolved_kwargs)

    if orig_gen is not None:
        _rep.generate_message = gen_message
    try:
        try:
            exec(compile(m.src, "<case>", "exec"), m.ns)
        except BaseException as e:  # definition-time failure
            first.update({"define": ["raise", type(e).__name__, str(e)[:120]], "trace": [], "out": None})
            return [first] + [dict(first) for _ in steps[1:]]
        ns = m.ns
        inst = None
        last = None
        if kind == "function":
            f = ns["f"]
            checker = _ck.find_checker(f)
        else:
            last = ns["L%d" % (len(case["levels"]) - 1)]
            if kind in ("method", "propget", "propset", "propdel"):
                inst = last.__new__(last)
                if kind == "method":
                    checker = _ck.find_checker(inspect.getattr_static(last, "m"))
                else:
                    prop = inspect.getattr_static(last, "p")
                    checker = _ck.find_checker({"propget": prop.fget, "propset": prop.fset, "propdel": prop.fdel}[kind])
            elif kind in ("class", "static"):
                checker = _ck.find_checker(inspect.getattr_static(last, "m").__func__)
            elif kind == "init":
                checker = _ck.find_checker(inspect.getattr_static(last, "__init__"))
            else:
                raise AssertionError(kind)
        bare = inspect.unwrap(checker) if checker is not None else (inspect.unwrap(ns["f"]) if kind == "function" else None)

        def cid_of(contract):
            d = getattr(contract, "description", None)
            return int(d[1:]) if isinstance(d, str) and d[1:].isdigit() else None

        if checker is not None:
            first["pre"] = [[cid_of(c) for c in g] for g in getattr(checker, "__preconditions__", [])]
            first["posts"] = [cid_of(c) for c in getattr(checker, "__postconditions__", [])]
            first["snaps"] = [s.name for s in getattr(checker, "__postcondition_snapshots__", [])]
        else:
            first["pre"], first["posts"], first["snaps"] = [], [], []

        var = getattr(_ck, "_IN_PROGRESS", None)
        token = None
        fid = case["fid"]
        if var is not None:
            pre_set = set()
            for i in case["inProgress"]:
                if i == fid and bare is not None:
                    pre_set.add(id(bare))
                else:
                    pre_set.add(-i - 1)
            token = var.set(pre_set if case["inProgress"] else None)
        results = []
        try:
            for si, step in enumerate(steps):
                obs = first if si == 0 else {}
                obs["define"] = ["ok"]
                m.set_oracle(step)
                w.log = []
                w.repr_raises = dict((i, e) for i, e in step.get("reprRaises", []))
                args = [w.val(i) for i in step["args"]]
                kwargs = dict((k, w.val(i)) for k, i in step["kwargs"])
                recv_id = step["args"][0] if step["args"] else None
                if kind == "function":
                    call = lambda: ns["f"](*args, **kwargs)  # noqa: E731
                elif kind in ("method", "propget", "propset", "propdel"):
                    if recv_id is not None:
                        w.reg(inst, recv_id)
                    rest = args[1:]
                    call = {"method": lambda: inst.m(*rest, **kwargs), "propget": lambda: inst.p,
                            "propset": lambda: setattr(inst, "p", rest[0]), "propdel": lambda: delattr(inst, "p")}[kind]
                elif kind == "class":
                    if recv_id is not None:
                        w.reg(last, recv_id)
                    rest = args[1:]
                    call = lambda: last.m(*rest, **kwargs)  # noqa: E731
                elif kind == "static":
                    call = lambda: last.m(*args, **kwargs)  # noqa: E731
                elif kind == "init":
                    w.lazy_self = recv_id
                    w.lazy_cls = last
                    if recv_id is not None and recv_id in w.objs:
                        old = w.objs.pop(recv_id)
                        w.by_pyid.pop(id(old), None)
                    rest = args[1:]
                    call = lambda: last(*rest, **kwargs)  # noqa: E731
                try:
                    r = call()
                    if case["async"] and inspect.iscoroutine(r):
                        r = _drive(r)
                    if kind in ("propset", "propdel", "init"):
                        out = ["ret", None]
                    else:
                        out = ["ret", w.id_of(r)]
                except common.Infra:
                    raise
                except BaseException as e:  # noqa: B902
                    out = ["raise", classify_exception(w, e)]
                    obs["exc"] = {"type": type(e).__name__, "is_assertion": isinstance(e, AssertionError),
                                  "is_violation_error": isinstance(e, icontract.ViolationError),
                                  "arg0_str": bool(e.args) and isinstance(e.args[0], str),
                                  "nargs": len(e.args)}
                if var is not None:
                    cur = var.get()
                    after = []
                    for x in sorted(cur) if cur else []:
                        if bare is not None and x == id(bare):
                            after.append(fid)
                        elif x < 0:
                            after.append(-x - 1)
                        else:
                            after.append(["?", x])
                    obs["inprog"] = sorted(after, key=str)
                obs["trace"] = w.log
                obs["out"] = out
                if step.get("manual") and checker is not None:
                    obs["manual"] = _manual_verdict(w, step, checker)
                results.append(obs)
        finally:
            if token is not None:
                var.reset(token)
        return results
    finally:
        if orig_gen is not None:
            _rep.generate_message = orig_gen


def _manual_verdict(w, step, checker):
    """Judge the call by hand from the introspected lists, the way the documented integrators do
    (tests/test_for_integrators.py): select_condition_kwargs / select_capture_kwargs / Old."""
    bound = py_bind(step)
    if bound is None:
        return None
    kwargs = {}
    for n, v in bound.items():
        if v[0] == "o":
            kwargs[n] = w.objs.get(v[1]) if v[1] in w.objs else w.val(v[1])
        elif v[0] == "t":
            kwargs[n] = tuple(w.val(i) for i in v[1])
        else:
            kwargs[n] = dict((k, w.val(i)) for k, i in v[1])
    saved = w.log
    w.log = []

    def aw(x):
        # an integrator of coroutine functions awaits what the conditions / captures return
        return _drive(x) if inspect.iscoroutine(x) else x

    try:
        pre = getattr(checker, "__preconditions__")
        success = True
        for group in pre:
            success = True
            for contract in group:
                ck = _ck.select_condition_kwargs(contract=contract, resolved_kwargs=kwargs)
                success = bool(aw(contract.condition(**ck)))
                if not success:
                    break
            if success:
                break
        res = {"pre": success, "post": None}
        if success and _ans_kind(step["body"]) == "ret":
            posts = getattr(checker, "__postconditions__")
            snaps = getattr(checker, "__postcondition_snapshots__")
            kw2 = dict(kwargs)
            if posts and snaps:
                old = {}
                for sn in snaps:
                    ck = _ck.select_capture_kwargs(a_snapshot=sn, resolved_kwargs=kw2)
                    old[sn.name] = aw(sn.capture(**ck))
                kw2["OLD"] = _ck.Old(mapping=old)
            kw2["result"] = None if step["kind"] == "init" else w.val(step["body"]["ret"]["v"])
            ok = True
            for contract in posts:
                ck = _ck.select_condition_kwargs(contract=contract, resolved_kwargs=kw2)
                if not aw(contract.condition(**ck)):
                    ok = False
                    break
            res["post"] = ok
        return res
    except BaseException as e:  # noqa: B902
        return {"error": "%s: %s" % (type(e).__name__, str(e)[:100])}
    finally:
        w.log = saved


def model_view(case, mo):
    """Bring the model's observation into the same canonical form as `run`'s:
    the body event shows the *bound* parameters, computed by CPython's own binding
    (`inspect.Signature.bind`) of the forwarded (args, kwargs) to the bare signature."""
    trace = []
    out = mo["out"]
    rejected = False
    for ev in mo["trace"]:
        if ev[0] == "body":
            c2 = dict(case)
            c2["args"], c2["kwargs"] = ev[1], ev[2]
            bound = py_bind(c2)
            if bound is None:
                # Python itself rejects the call when the wrapper forwards it: TypeError, the body never starts
                rejected = True
                break
            trace.append(["body", sorted([k, v] for k, v in bound.items())])
        else:
            trace.append(ev)
    if rejected:
        out = ["raise", ["other", "TypeError", None]]
    if out[0] == "ret" and case["kind"] in ("propset", "propdel", "init"):
        out = ["ret", None]
    return {"trace": trace, "out": out, "inprog": sorted(mo["inprog"], key=str)}


def loosen(x):
    """Blank the parts of an outcome the implementation side cannot identify
    (contract ids inside library TypeErrors/ValueErrors)."""
    if isinstance(x, list) and x and x[0] == "raise":
        r = list(x[1])
        if r[0] in ("TypeError", "ValueError") and len(r) > 2 and r[1] not in ("reservedKwarg", "reservedResolved", "?"):
            r[2] = None
        if r[0] == "NotImplementedError":
            r = ["NotImplementedError", None]
        return ["raise", r]
    return x
