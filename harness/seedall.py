#!/venv/bin/python
"""Developer tool (not a registered check): run every seeded change under seeded/ through
seedtest.py with the checks named in its meta.json and summarise which are caught.

  seedall.py [names...]          sequentially on /repo (the way a check is used)
  VERIF_JOBS=6 seedall.py ...    in parallel, each worker on its own scratch git worktree of /repo under /tmp
                                 (VERIF_REPO tells seedtest.py and the checks which tree to use; the proof gate is
                                 skipped in that mode - concurrent `lake build`s would fight over the build lock)
"""
import concurrent.futures
import glob
import json
import os
import queue
import subprocess
import sys

VERIF = os.path.dirname(os.path.dirname(os.path.abspath(__file__)))
only = sys.argv[1:]
JOBS = int(os.environ.get("VERIF_JOBS", "1"))


def run_one(d, repo=None):
    key = os.path.basename(d.rstrip("/"))
    meta = json.load(open(os.path.join(d, "meta.json")))
    checks = meta.get("run_checks") or [meta["breaks_property"]]
    env = dict(os.environ)
    if repo:
        env.update(VERIF_REPO=repo, VERIF_NO_BUILD="1", VERIF_SEEDTEST_EVIDENCE="/tmp/seedtest_evidence_%s" % os.path.basename(repo))
    p = subprocess.run(["/venv/bin/python", os.path.join(VERIF, "harness", "seedtest.py"), os.path.join(d, "patch.diff"),
                        os.path.join(d, "demo.py")] + checks, stdout=subprocess.PIPE, stderr=subprocess.STDOUT, env=env)
    out = p.stdout.decode()
    caught = [c for c in checks if ("%s = {'rc': 1" % c) in out]
    infra = [c for c in checks if ("%s = {'rc': 2" % c) in out]
    applies = "patch does not apply" not in out and "refusing" not in out
    demo = "demo_patched = 1" in out and "demo_clean = 0" in out
    base = "baseline_rc = 0" in out or bool(os.environ.get("VERIF_SKIP_BASELINE"))
    row = (key, applies, demo, base, caught, checks)
    line = ("%-8s applies=%s demo_fails_only_when_patched=%s suite_passes=%s caught_by=%s of %s" % row
            + ("" if meta["breaks_property"] in caught else "   (NOT by the check of %s)" % meta["breaks_property"])
            + ("   INFRA in %s" % infra if infra else ""))
    return row, line


def main():
    dirs = [d for d in sorted(glob.glob(os.path.join(VERIF, "seeded", "*", "")))
            if os.path.exists(os.path.join(d, "meta.json")) and (not only or os.path.basename(d.rstrip("/")) in only)]
    rows = []
    if JOBS <= 1:
        for d in dirs:
            row, line = run_one(d)
            rows.append(row)
            print(line)
            sys.stdout.flush()
    else:
        trees = queue.Queue()
        made = []
        for i in range(JOBS):
            t = "%s_%d" % (os.environ.get("VERIF_TREES", "/tmp/seedrepo"), i)
            subprocess.run(["git", "-C", "/repo", "worktree", "remove", "--force", t], stdout=subprocess.DEVNULL, stderr=subprocess.DEVNULL)
            subprocess.run(["git", "-C", "/repo", "worktree", "add", "--detach", t], check=True, stdout=subprocess.DEVNULL, stderr=subprocess.DEVNULL)
            made.append(t)
            trees.put(t)

        def job(d):
            t = trees.get()
            try:
                return run_one(d, repo=t)
            finally:
                trees.put(t)

        try:
            with concurrent.futures.ThreadPoolExecutor(JOBS) as ex:
                for row, line in ex.map(job, dirs):
                    rows.append(row)
                    print(line)
                    sys.stdout.flush()
        finally:
            for t in made:
                subprocess.run(["git", "-C", "/repo", "worktree", "remove", "--force", t], stdout=subprocess.DEVNULL, stderr=subprocess.DEVNULL)
                subprocess.run(["rm", "-rf", "/tmp/seedtest_evidence_%s" % os.path.basename(t)])
    bad = [r for r in rows if not (r[1] and r[2] and r[3] and r[4])]
    print("%d seeded changes, %d not caught / stale" % (len(rows), len(bad)))
    return 1 if bad else 0


if __name__ == "__main__":
    sys.exit(main())
