#!/venv/bin/python
"""Developer tool (not a registered check): run every seeded change under seeded/ through
seedtest.py with the checks named in its meta.json and summarise which are caught."""
import glob
import json
import os
import subprocess
import sys

VERIF = os.path.dirname(os.path.dirname(os.path.abspath(__file__)))
only = sys.argv[1:]
rows = []
for d in sorted(glob.glob(os.path.join(VERIF, "seeded", "*", ""))):
    key = os.path.basename(d.rstrip("/"))
    if only and key not in only:
        continue
    meta = json.load(open(os.path.join(d, "meta.json")))
    checks = meta.get("run_checks") or [meta["breaks_property"]]
    p = subprocess.run(["/venv/bin/python", os.path.join(VERIF, "harness", "seedtest.py"), os.path.join(d, "patch.diff"),
                        os.path.join(d, "demo.py")] + checks, stdout=subprocess.PIPE, stderr=subprocess.STDOUT)
    out = p.stdout.decode()
    caught = [c for c in checks if ("%s = {'rc': 1" % c) in out]
    applies = "patch does not apply" not in out
    demo = "demo_patched = 1" in out and "demo_clean = 0" in out
    base = "baseline_rc = 0" in out or bool(os.environ.get("VERIF_SKIP_BASELINE"))
    rows.append((key, applies, demo, base, caught, checks))
    print("%-8s applies=%s demo_fails_only_when_patched=%s suite_passes=%s caught_by=%s of %s" % rows[-1]
          + ("" if meta["breaks_property"] in caught else "   (NOT by the check of %s)" % meta["breaks_property"]))
    sys.stdout.flush()
bad = [r for r in rows if not (r[1] and r[2] and r[3] and r[4])]
print("%d seeded changes, %d not caught / stale" % (len(rows), len(bad)))
sys.exit(1 if bad else 0)
