"""Shared pieces of the class-history properties (C04, C17, C18)."""
import implmeta


def run_impl(case):
    return implmeta.run(case)


def canon_model_obs(mobs):
    """Model observation -> the implementation's shape (drop spec fields, snaps as ids)."""
    out = []
    for c in mobs:
        members = []
        for m in c["members"]:
            key = m[0]
            accs = []
            for a in (m[1] if len(m) > 1 else []):
                accs.append({"pre": a["pre"], "snaps": a["snaps"], "posts": a["posts"], "which": a["which"]})
            members.append([key, accs])
        out.append({"k": c["k"], "mro": c["mro"], "inv": c["inv"], "invCall": c["invCall"], "invSetattr": c["invSetattr"],
                    "members": members})
    return out


def model_view(case, mo):
    return {"steps": [{"err": s["err"], "obs": canon_model_obs(s["obs"])} for s in mo["steps"]], "hook": mo["hook"]}


def impl_obs_sorted(obs):
    return [{**c, "members": [[k, sorted(a, key=lambda d: d["which"])] for k, a in c["members"]]} for c in obs]
