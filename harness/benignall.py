#!/venv/bin/python
"""Developer tool (not a registered check): the converse of seedall.py.  Every change under benign/ is a
BEHAVIOUR-PRESERVING refactoring of the library (written by sub-agents that knew nothing of /verif); each is applied to a
scratch worktree and ALL 20 quick checks are run on it.  What the checks may say about such a tree:

  exit 0                                   the ideal answer
  VIOLATION ... no-failing-input-found     acceptable: a harmless rewrite broke the correspondence (a private name the
                                           harness hooks into is gone) and no failing input exists - the brief's wording
  VIOLATION with a replay of an input      a FALSE ALARM (unless the refactoring is not behaviour-preserving after all):
                                           to be investigated

  VERIF_JOBS=6 benignall.py [names...]
"""
import concurrent.futures
import glob
import json
import os
import queue
import subprocess
import sys

VERIF = os.path.dirname(os.path.dirname(os.path.abspath(__file__)))
only = sys.argv[1:]
JOBS = int(os.environ.get("VERIF_JOBS", "4"))
PROPS = ["C%02d" % i for i in range(1, 21)]


def run_one(d, repo):
    key = os.path.basename(d.rstrip("/"))
    env = dict(os.environ, VERIF_REPO=repo, VERIF_NO_BUILD="1", VERIF_SKIP_BASELINE="1",
               VERIF_SEEDTEST_EVIDENCE="/tmp/seedtest_evidence_%s" % os.path.basename(repo))
    p = subprocess.run(["/venv/bin/python", os.path.join(VERIF, "harness", "seedtest.py"), os.path.join(d, "patch.diff"), "-"] + PROPS,
                       stdout=subprocess.PIPE, stderr=subprocess.STDOUT, env=env)
    out = p.stdout.decode()
    if "patch does not apply" in out or "refusing" in out:
        return key, {"applies": False}, "%-8s does not apply" % key
    alarms, lost, infra = [], [], []
    for pid in PROPS:
        for line in out.splitlines():
            if line.startswith(pid + " = "):
                if "'rc': 1" in line:
                    (lost if "no-failing-input-found" in line else alarms).append(pid)
                elif "'rc': 2" in line:
                    infra.append(pid)
    res = {"applies": True, "false_alarms": alarms, "correspondence_lost": lost, "infra": infra}
    line = "%-8s false_alarms=%s correspondence_lost=%s%s" % (key, alarms, lost, ("  INFRA in %s" % infra) if infra else "")
    return key, res, line


def main():
    dirs = [d for d in sorted(glob.glob(os.path.join(VERIF, "benign", "*", "")))
            if os.path.exists(os.path.join(d, "patch.diff")) and (not only or os.path.basename(d.rstrip("/")) in only)]
    trees = queue.Queue()
    made = []
    for i in range(JOBS):
        t = "%s_%d" % (os.environ.get("VERIF_TREES", "/tmp/benignrepo"), i)
        subprocess.run(["git", "-C", "/repo", "worktree", "remove", "--force", t], stdout=subprocess.DEVNULL, stderr=subprocess.DEVNULL)
        subprocess.run(["git", "-C", "/repo", "worktree", "add", "--detach", t], check=True, stdout=subprocess.DEVNULL, stderr=subprocess.DEVNULL)
        made.append(t)
        trees.put(t)

    def job(d):
        t = trees.get()
        try:
            return run_one(d, t)
        finally:
            trees.put(t)

    results = {}
    try:
        with concurrent.futures.ThreadPoolExecutor(JOBS) as ex:
            for key, res, line in ex.map(job, dirs):
                results[key] = res
                print(line)
                sys.stdout.flush()
    finally:
        for t in made:
            subprocess.run(["git", "-C", "/repo", "worktree", "remove", "--force", t], stdout=subprocess.DEVNULL, stderr=subprocess.DEVNULL)
            subprocess.run(["rm", "-rf", "/tmp/seedtest_evidence_%s" % os.path.basename(t)])
    for key, res in results.items():
        p = os.path.join(VERIF, "benign", key, "result.json")
        json.dump(res, open(p, "w"), indent=1)
    bad = [k for k, r in results.items() if r.get("false_alarms") or r.get("infra") or not r.get("applies")]
    print("%d benign changes, %d with a false alarm / infra / not applying" % (len(results), len(bad)))
    return 1 if bad else 0


if __name__ == "__main__":
    sys.exit(main())
