#!/venv/bin/python
"""MANIFEST.setup_cmd: build the Lean library + driver and run the axiom audit."""
import os
import sys

sys.path.insert(0, os.path.dirname(os.path.abspath(__file__)))
import common  # noqa: E402

b = common.build_lean(force_audit=True)
if not b["ok"]:
    print(b["log"][-6000:])
    sys.exit(1)
bad = {n: a for n, a in b["audit"].items() if any(x not in common.ALLOWED_AXIOMS for x in a)}
hits = common.grep_forbidden()
print("lean build ok in %.1fs; %d property theorems audited; %d with unexpected axioms; %d forbidden tokens"
      % (b["wall"], len(b["audit"]), len(bad), len(hits)))
for n, a in bad.items():
    print("  ", n, a)
for h in hits:
    print("  ", h)
sys.exit(1 if bad or hits else 0)
