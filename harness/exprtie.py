"""Translation of a condition expression + environment into the Lean model's `expr` domain
(the fragment with a concrete `Ops`: ints, bools, None, strings, lists, opaque objects with attributes,
a few builtins); `None` when the expression leaves the fragment - such cases are still checked
against the CPython oracle, just not tied to the model."""
import ast

import implexpr

BUILTINS = ["len", "abs", "bool", "min", "max", "sum", "sorted", "list", "tuple", "set", "dict", "str", "repr"]
_ARITY = {"len": (1,), "abs": (1,), "bool": (1,), "min": (2, 3), "max": (2, 3), "sum": (1,), "list": (1,), "tuple": (1,), "set": (1,), "str": (1,), "repr": (1,), "sorted": (1,)}
_KW = {"sorted": ({"reverse"}, (1,)), "max": ({"default"}, (1,)), "min": ({"default"}, (1,)), "sum": ({"start"}, (1,)), "dict": (None, (0, 1))}
_CONV = {-1: "none", 115: "s", 114: "r", 97: "a"}
_BIN = {ast.Add: "+", ast.Sub: "-", ast.Mult: "*", ast.FloorDiv: "//", ast.Mod: "%"}
_CMP = {ast.Eq: "==", ast.NotEq: "!=", ast.Lt: "<", ast.LtE: "<=", ast.Gt: ">", ast.GtE: ">=", ast.Is: "is",
        ast.IsNot: "is not", ast.In: "in", ast.NotIn: "not in"}
_UN = {ast.Not: "not", ast.USub: "neg", ast.UAdd: "pos", ast.Invert: "inv"}


class Unsupported(Exception):
    pass


def _stored_names(target):
    return [n.id for n in ast.walk(target) if isinstance(n, ast.Name)]


def to_lean(expr_src, names, objs, lookups=None):
    """names: {name: python value} (arguments > closure > globals, already merged); lookups: the three
    dictionaries separately (the model merges them itself).  Returns the driver input dict or None."""
    if "\n" in expr_src:
        return None
    try:
        tree, poskeys, order = implexpr.position_keys(expr_src)
    except SyntaxError:
        return None
    ids = dict((id(n), i) for i, n in enumerate(order))
    texts = {}
    comps = []
    used_names = set()

    def conv(n, bound):
        i = ids[id(n)]
        texts[i] = ast.get_source_segment(expr_src, n)
        if isinstance(n, ast.Constant):
            v = n.value
            if not (v is None or isinstance(v, (bool, int, str))):
                raise Unsupported("constant")
            return {"k": "const", "id": i, "v": implexpr.to_val(v, objs)}
        if isinstance(n, ast.Name):
            if n.id not in bound:
                if n.id in names:
                    v = names[n.id]
                    if not (v is None or isinstance(v, (bool, int, str, list, implexpr.Obj)) or type(v) in (tuple, set, dict)):
                        raise Unsupported("opaque value used")
                    used_names.add(n.id)
                elif n.id not in BUILTINS:
                    raise Unsupported("name " + n.id)
            return {"k": "name", "id": i, "n": n.id}
        if isinstance(n, ast.Attribute):
            if n.attr not in ("a", "b"):
                raise Unsupported("attribute")
            return {"k": "attr", "id": i, "e": conv(n.value, bound), "a": n.attr}
        if isinstance(n, ast.Subscript):
            if isinstance(n.slice, ast.Tuple):
                raise Unsupported("tuple index")
            return {"k": "subscr", "id": i, "e": conv(n.value, bound), "i": conv(n.slice, bound)}
        if isinstance(n, ast.Slice):
            return {"k": "slice", "id": i, "lo": None if n.lower is None else conv(n.lower, bound),
                    "hi": None if n.upper is None else conv(n.upper, bound), "step": None if n.step is None else conv(n.step, bound)}
        if isinstance(n, ast.Starred):
            return {"k": "starred", "id": i, "e": conv(n.value, bound)}
        if isinstance(n, ast.Call):
            if not (isinstance(n.func, ast.Name) and n.func.id in BUILTINS and n.func.id not in names and n.func.id not in bound):
                raise Unsupported("callee")
            if any(isinstance(a, ast.GeneratorExp) for a in n.args):
                raise Unsupported("generator")
            starred = any(isinstance(a, ast.Starred) for a in n.args)
            if n.keywords or starred:
                fname = n.func.id
                if n.keywords:
                    if fname not in _KW:
                        raise Unsupported("keywords")
                    allowed, arities = _KW[fname]
                    if any(k.arg is None for k in n.keywords) and fname != "dict":
                        raise Unsupported("** in call")
                    if allowed is not None and (len(n.keywords) != 1 or n.keywords[0].arg not in allowed):
                        raise Unsupported("keyword")
                    if starred or len(n.args) not in arities:
                        raise Unsupported("arity")
                else:
                    # starred arguments: the number of arguments is only known at run time - the driver answers
                    # NotImplemented for arities it does not know, which makes the case leave the fragment
                    if fname not in ("min", "max", "sum", "len", "list", "tuple"):
                        raise Unsupported("starred callee")
                return {"k": "callkw", "id": i, "f": conv(n.func, bound), "args": [conv(a, bound) for a in n.args],
                        "kws": [[k.arg, conv(k.value, bound)] for k in n.keywords]}
            if n.func.id not in _ARITY or len(n.args) not in _ARITY[n.func.id]:
                raise Unsupported("arity")
            return {"k": "call", "id": i, "f": conv(n.func, bound), "args": [conv(a, bound) for a in n.args]}
        if isinstance(n, ast.Tuple):
            return {"k": "coll", "id": i, "kind": "tuple", "es": [conv(e, bound) for e in n.elts]}
        if isinstance(n, ast.Set):
            return {"k": "coll", "id": i, "kind": "set", "es": [conv(e, bound) for e in n.elts]}
        if isinstance(n, ast.Dict):
            return {"k": "dict", "id": i, "items": [[None if k is None else conv(k, bound), conv(v, bound)] for k, v in zip(n.keys, n.values)]}
        if isinstance(n, ast.JoinedStr):
            return {"k": "fstring", "id": i, "parts": [conv(v, bound) for v in n.values]}
        if isinstance(n, ast.FormattedValue):
            if n.conversion not in _CONV:
                raise Unsupported("conversion")
            return {"k": "fvalue", "id": i, "e": conv(n.value, bound), "conv": _CONV[n.conversion],
                    "spec": None if n.format_spec is None else conv(n.format_spec, bound)}
        if isinstance(n, ast.UnaryOp):
            return {"k": "unary", "id": i, "op": _UN[type(n.op)], "e": conv(n.operand, bound)}
        if isinstance(n, ast.BinOp):
            if type(n.op) not in _BIN:
                raise Unsupported("binop")
            return {"k": "bin", "id": i, "op": _BIN[type(n.op)], "l": conv(n.left, bound), "r": conv(n.right, bound)}
        if isinstance(n, ast.BoolOp):
            return {"k": "boolop", "id": i, "isAnd": isinstance(n.op, ast.And), "es": [conv(v, bound) for v in n.values]}
        if isinstance(n, ast.Compare):
            return {"k": "compare", "id": i, "left": conv(n.left, bound), "ops": [_CMP[type(o)] for o in n.ops],
                    "cs": [conv(c, bound) for c in n.comparators]}
        if isinstance(n, ast.IfExp):
            return {"k": "ifexp", "id": i, "c": conv(n.test, bound), "t": conv(n.body, bound), "e": conv(n.orelse, bound)}
        if isinstance(n, ast.List):
            if any(isinstance(e, ast.Starred) for e in n.elts):
                return {"k": "coll", "id": i, "kind": "list", "es": [conv(e, bound) for e in n.elts]}
            return {"k": "display", "id": i, "es": [conv(e, bound) for e in n.elts]}
        if isinstance(n, ast.ListComp):
            if bound:
                raise Unsupported("nested comprehension")
            targets = []
            for g in n.generators:
                if g.is_async:
                    raise Unsupported("async comprehension")
                targets.extend(_stored_names(g.target))
            b2 = bound | set(targets)
            # the iterable of the first `for` is evaluated in the enclosing scope
            first = conv(n.generators[0].iter, bound)
            inner = [conv(n.elt, b2)]
            for gi, g in enumerate(n.generators):
                if gi > 0:
                    inner.append(conv(g.iter, b2))
                inner.extend(conv(c, b2) for c in g.ifs)
            comps.append((i, n))
            return {"k": "comp", "id": i, "targets": targets, "first": first, "inner": inner}
        raise Unsupported(type(n).__name__)

    try:
        e = conv(tree, frozenset())
    except Unsupported:
        return None
    # opaque objects: their attributes a / b where present
    name_vals = []
    for k, v in names.items():
        j = implexpr.to_val(v, objs)
        if j is None:
            if k in used_names:
                return None
            continue
        name_vals.append([k, j])
    attrs = []
    changed = True
    seen = 0
    while changed:
        changed = False
        for oi in range(seen, len(objs)):
            o = objs[oi]
            seen = oi + 1
            for a in ("a", "b"):
                if hasattr(o, a) and not isinstance(o, dict):
                    j = implexpr.to_val(getattr(o, a), objs)
                    if j is None:
                        return None
                    attrs.append([oi, a, j])
                    changed = True
    scope = dict(names)
    comp_vals = []
    for i, n in comps:
        try:
            v = eval(compile(ast.Expression(n), "<comp>", "eval"), dict(scope))
            j = implexpr.to_val(v, objs)
            if j is None:
                return None
            comp_vals.append([i, j])
        except Exception:  # noqa: B902
            comp_vals.append([i, None])
    lk = None
    if lookups is not None:
        lk = []
        for d in lookups:
            items = []
            for k, v in d.items():
                j = implexpr.to_val(v, objs)
                if j is not None:
                    items.append([k, j])
            lk.append(items)
    return {"dom": "expr", "expr": e, "names": name_vals, **({"lookups": lk} if lk is not None else {}), "builtins": [b for b in BUILTINS if b not in names],
            "attrs": attrs, "comps": comp_vals, "texts": [[i, t] for i, t in sorted(texts.items())],
            "lookupNames": sorted(names.keys())}
