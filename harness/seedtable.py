#!/venv/bin/python
"""Developer tool: rewrite the table of seeded changes in DESIGN.md (section 12.6) from seeded/*/meta.json."""
import glob
import json
import os
import re

VERIF = os.path.dirname(os.path.dirname(os.path.abspath(__file__)))
rows = ["| seeded | breaks | change | caught by quick checks (the check of the broken property first) |", "|---|---|---|---|"]
for d in sorted(glob.glob(os.path.join(VERIF, "seeded", "*", "meta.json"))):
    m = json.load(open(d))
    key = os.path.basename(os.path.dirname(d))
    summary = " ".join(m["summary"].split()).replace("|", "/")[:230]
    rows.append("| %s | %s | %s | %s |" % (key, m["breaks_property"], summary, ", ".join(m.get("caught_by_quick_checks", []))))
p = os.path.join(VERIF, "DESIGN.md")
s = open(p).read()
a = s.index("| seeded | ")
b = s.index("\n\n", a)
s = s[:a] + "\n".join(rows) + s[b:]
open(p, "w").write(s)
print(len(rows) - 2, "rows")
