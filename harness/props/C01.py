"""C01 - preconditions gate every call."""
import ckprop
import genck
from ckprop import run_impl, model_view, shrink_candidates  # noqa: F401
import directed

DESCRIPTION = ("Lean: Props/C01.lean (body entered <-> DNF of the precondition groups holds; no capture, contract's "
               "error otherwise), for all group lists and oracles. Tie: real decorated callables of every kind vs the model.")
RULE = ("bounded-exhaustive chains (<=3 classes x <=2 own conditions x all truth assignments x 8 callable kinds x "
        "sync/async x +-post x +-snapshot) plus seeded random cases (raising conditions, raising __bool__, "
        "coroutines, all error forms); distinct = canonical structure+oracle key; non-trivial = at least one precondition")
PROJECTION = "(body entered?, any capture?, outcome kind with the contract id of the surfaced error)"
EXHAUSTIVE_STREAM = True
ASSUMPTIONS = ["user callables answer as a function of the site (A-oracle)",
               "generator functions are not covered (the body runs after the wrapper returned)"]
NEIGHBOURS = [{"from": "C04", "limit": 400, "why": "inherited precondition groups as built by the real metaclass decide whether the body is entered"},
              {"from": "C05", "limit": 400, "why": "the arguments the preconditions are decided on are those of the call"},
              {"from": "C10", "limit": 400, "why": "calls made from a running body are ordinary checked calls"},
              {"from": "C18", "tags": ["hist"], "limit": 700, "why": "callables below foreign functools.wraps decorators and late class decorations keep their preconditions"},
              {"from": "C11", "limit": 600, "why": "after any outcome of a call - also a violation whose error is a BaseException - the next call is gated again"}]


run_directed = directed.run


def cases(tier, rng):
    for c in directed.used_before_override_cases():
        yield "directed-used-before-override", c
    for c in directed.generator_functions_cases():
        yield "directed-generator-functions", c
    for c in directed.awaitable_kinds_cases():
        yield "directed-awaitable-kinds", c
    thorough = tier == "thorough"
    for c in directed.falsy_and_truthy_values_cases():
        yield "directed-falsy-and-truthy-values", c
    mg = 3 if thorough else 2
    for c in genck.exhaustive_pre(genck.KINDS, [False, True], 3, mg,
                                  with_post=(False, True), with_snap=(False, True)):
        yield "exh", c
    n = 40000 if thorough else 4000
    aw = {"T": 8, "F": 4, "R": 1, "BR": 1, "CT": 1, "CF": 1, "CR": 0.5}
    for _ in range(n):
        yield "rnd", genck.random_case(rng, ans_weights=aw, falsy_errors=True, raising_errors=True)


def search_cases(rng, hint, n):
    aw = {"T": 8, "F": 4, "R": 1, "BR": 1, "CT": 1, "CF": 1, "CR": 0.5}
    kinds = [hint["kind"]] if hint else genck.KINDS
    for _ in range(n):
        yield "search", genck.random_case(rng, kinds=kinds, ans_weights=aw, falsy_errors=True, raising_errors=True)


def project(case, obs):
    if obs.get("define", ["ok"]) != ["ok"]:
        return ["define-failed"]
    return [ckprop.entered(obs), ckprop.captured(obs), implck_loosen(obs["out"])]


def implck_loosen(x):
    import implck
    return implck.loosen(x)


def spec(case, mo, io):
    fails = []
    if io.get("define", ["ok"]) != ["ok"]:
        return ["definition raised %s" % (io["define"],)]
    sp = mo["spec"]
    if not sp["callOk"]:
        return fails
    ent, cap = ckprop.entered(io), ckprop.captured(io)
    dnf = sp["dnfHolds"]
    if ent and not dnf:
        fails.append("body entered although no precondition group holds")
    if not dnf and cap:
        fails.append("snapshot captured although the precondition does not hold")
    if sp["totalPre"]:
        if dnf and not ent and sp["capTotal"]:
            fails.append("effective precondition holds but the body was not entered: %s" % (io["out"],))
        if not dnf:
            if io["out"][0] != "raise":
                fails.append("precondition violated but the call returned")
            elif sp["expectedErr"] is not None and implck_loosen(io["out"]) != implck_loosen(["raise", sp["expectedErr"]]):
                fails.append("precondition violated: expected %s, got %s" % (sp["expectedErr"], io["out"]))
    return fails


def classify(case, mo, io, fails):
    sp = mo["spec"]
    if any("no precondition group holds" in f or "but the call returned" in f for f in fails) and sp.get("falsyErrorInvolved"):
        return "falsy-error-object"
    if any("body was not entered" in f for f in fails) and sp.get("earlierGroupErrorNotTotal"):
        return "eager-error-creation"
    return "unclassified"


def nontrivial_key(case, mo):
    if not any(l["pre"] for l in case["levels"]):
        return None
    return ckprop.shape_key(case)


def stats(case, mo, io, dist):
    dist["kind:" + case["kind"]] += 1
    dist["async" if case["async"] else "sync"] += 1
    dist["groups:%d" % len(mo["pre"])] += 1
    dist["dnf:%s" % mo["spec"]["dnfHolds"]] += 1
    dist["totalPre:%s" % mo["spec"]["totalPre"]] += 1
    dist["out:" + (io["out"][0] if io.get("out") else "none")] += 1
    nf = sum(1 for _c, a in case["cond"] if ckprop.ans_kind(a) == "val" and a["val"]["t"] == "falsy")
    dist["falsy>=2" if nf >= 2 else "falsy<2"] += 1
