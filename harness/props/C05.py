"""C05 - contracts observe the same argument values the body receives."""
import itertools

import ckprop
import genck
import implck
from ckprop import run_impl, model_view  # noqa: F401
import directed

DESCRIPTION = ("Lean: Props/C05.lean (resolved keyword arguments agree with CPython's binding for every non-variadic "
               "parameter of every well-formed signature and every accepted call; _ARGS/_KWARGS; missing names). "
               "Spec validation: the Lean PyBind spec vs inspect.Signature.bind vs what the instrumented body receives. "
               "Oracle: every condition / capture / error factory receives, for each non-variadic parameter it names, "
               "the object the body receives.")
RULE = ("all well-formed signatures with <=3 parameters over the 5 parameter kinds x default patterns (<=4 in the thorough "
        "tier) x every call shape with <=4 positionals and every keyword subset (+1 foreign keyword when ** exists, "
        "+ keywords named like positional-only parameters) that CPython accepts, plus rejected shapes for the tie; "
        "seeded random signatures up to 8 parameters; each call exercises a precondition naming every non-variadic "
        "parameter, a snapshot, a falsy postcondition and its error factory; distinct = (signature, call shape)")
PROJECTION = "(keyword arguments received by every condition/capture/error factory, body binding, outcome)"
ASSUMPTIONS = ["defaults whose `!=` with inspect.Parameter.empty is exotic are not covered (resolve_kwdefaults uses !=)",
               "the names of the variadic parameters themselves are outside the claim (pinned by the suite)"]
EXHAUSTIVE_STREAM = True

KINDS = ["posOnly", "posOrKw", "varPos", "kwOnly", "varKw"]
RANK = dict((k, i) for i, k in enumerate(KINDS))
NAMES = ["a", "b", "c", "d", "e", "f", "g", "h"]
NEIGHBOURS = [{"from": "C08", "limit": 400, "why": "captures receive the call's argument values"},
              {"from": "C09", "limit": 400, "why": "error factories receive the call's argument values"},
              {"from": "C19", "limit": 400, "why": "a parameter called result / OLD of a function without postconditions is an ordinary parameter"}]


HOSTILE = ["error", "contract", "func", "condition", "instance", "args", "kwargs", "resolved_kwargs", "description", "a_repr",
           "enabled", "name", "capture", "violation_error", "mapping", "location", "param_names", "kwdefaults", "snapshot",
           "wrapper", "checker", "value", "key", "cls_", "in_progress", "exception", "msg", "e", "err", "error_kwargs", "condition_kwargs",
           "old_as_mapping", "snap", "result_", "check", "group", "preconditions", "postconditions", "snapshots", "a", "k", "v"]
HOSTILE_PAIRS = [(HOSTILE[i], HOSTILE[(i + 7) % len(HOSTILE)]) for i in range(len(HOSTILE))]


def signatures(n):
    """All well-formed signatures with exactly n parameters (names by position)."""
    for kinds in itertools.product(KINDS, repeat=n):
        if any(RANK[kinds[i]] > RANK[kinds[i + 1]] for i in range(n - 1)):
            continue
        if kinds.count("varPos") > 1 or kinds.count("varKw") > 1:
            continue
        pos = [i for i, k in enumerate(kinds) if k in ("posOnly", "posOrKw")]
        kwo = [i for i, k in enumerate(kinds) if k == "kwOnly"]
        # trailing defaults among positionals: choose how many of the last positionals have defaults
        for npd in range(0, len(pos) + 1):
            for kwd in itertools.product([False, True], repeat=len(kwo)):
                sig = []
                for i, k in enumerate(kinds):
                    d = None
                    if i in pos and pos.index(i) >= len(pos) - npd:
                        d = 20 + i
                    if i in kwo and kwd[kwo.index(i)]:
                        d = 20 + i
                    sig.append({"name": NAMES[i], "kind": k, "default": d})
                yield sig


def call_shapes(sig, max_pos=4):
    pos = [p for p in sig if p["kind"] in ("posOnly", "posOrKw")]
    has_vp = any(p["kind"] == "varPos" for p in sig)
    has_vk = any(p["kind"] == "varKw" for p in sig)
    kwable = [p["name"] for p in sig if p["kind"] in ("posOrKw", "kwOnly")]
    extra = []
    if has_vk:
        extra = ["zz"] + [p["name"] for p in sig if p["kind"] == "posOnly"][:1]
    for npos in range(0, min(max_pos, len(pos) + (2 if has_vp else 1)) + 1):
        args = [10 + i for i in range(npos)]
        cands = kwable + extra
        for r in range(0, len(cands) + 1):
            for ks in itertools.combinations(cands, r):
                yield args, [[k, 40 + i] for i, k in enumerate(ks)]


def make_case(sig, args, kwargs, rng, kind="function", async_=False, hostile=None):
    nonvar = [p["name"] for p in sig if p["kind"] not in ("varPos", "varKw")]
    lv = {"pre": [], "snaps": [], "posts": []}
    case = genck.base_case("function", async_, [lv])
    if kind == "method":
        case = genck.base_case("method", async_, [lv])
        sk = "posOnly" if any(p["kind"] == "posOnly" for p in sig) else "posOrKw"
        sig = [{"name": "self", "kind": sk, "default": None}] + sig
        args = [50] + args
        nonvar = ["self"] + nonvar
    genck.set_sig(case, sig)
    if rng.random() < 0.12:
        # an argument is passed explicitly as the very object None (id 777): it is a value like any other - not "missing",
        # not to be replaced by the parameter's default
        own = 1 if kind == "method" else 0
        spots = [("a", i) for i in range(own, len(args))] + [("k", i) for i in range(len(kwargs))]
        if spots:
            where, i = rng.choice(spots)
            args, kwargs = list(args), [list(kv) for kv in kwargs]
            if where == "a":
                args[i] = 777
            else:
                kwargs[i][1] = 777
    case["args"], case["kwargs"] = args, kwargs
    lv["pre"].append(genck.contract(1, nonvar + ["_ARGS", "_KWARGS"], err={"cls": {"subBase": True, "truthy": True}}))
    sub = rng.sample(nonvar, min(len(nonvar), rng.randint(0, 2)))
    if rng.random() < 0.15:
        sub = sub + ["nope"]
    if rng.random() < 0.5 and kwargs:
        sub = sub + [rng.choice(kwargs)[0]]
    if hostile is not None:
        sub = list(hostile)
    sub = list(dict.fromkeys(sub))
    lv["pre"].append(genck.contract(2, sub, err={"cls": {"subBase": True, "truthy": True}}))
    if nonvar:
        s1args = rng.sample(nonvar, min(len(nonvar), rng.randint(1, 2)))
        # (often named like the parameter it captures - the default naming of `snapshot(lambda lst: ...)`; captures made
        # later must still receive the ARGUMENT of that name, not the captured value)
        # (`self` and names like `mapping` included: the snapshot of `lambda self: ...` is called `self`)
        s1name = s1args[0] if rng.random() < 0.5 else "s1"
        lv["snaps"].append(genck.snapshot(1, s1name, s1args))
    if len(nonvar) >= 2:
        # (even id: the capture's parameters after the first have defaults of their own - the call's values must win)
        s2args = rng.sample(nonvar, min(len(nonvar), rng.randint(2, 3)))
        if lv["snaps"][0]["name"] != "s1" and lv["snaps"][0]["name"] not in s2args:
            s2args[0] = lv["snaps"][0]["name"]
        lv["snaps"].append(genck.snapshot(2, "s2", list(dict.fromkeys(s2args))))
    fsub = rng.sample(nonvar, min(len(nonvar), rng.randint(0, 3))) + rng.sample(["_ARGS", "_KWARGS", "result", "OLD"], 2)
    if hostile is not None:
        fsub = list(hostile) + ["result"]
    if not lv["snaps"]:
        fsub = [x for x in fsub if x != "OLD"]
    lv["posts"].append(genck.contract(3, rng.sample(nonvar, min(len(nonvar), 2)) + ["result"], err={"fac": {"args": fsub}}))
    case["cond"] = [[1, genck.T(101)], [2, genck.T(102)], [3, genck.F(103)]]
    if rng.random() < 0.2:
        # a falsy guard in front: the later condition of the group (which may ask for a name this call does not
        # provide) must not even be prepared
        case["cond"][0] = [1, genck.F(101)]
    return genck.fill_oracle_defaults(case)


run_directed = directed.run


def cases(tier, rng):
    for c in directed.partial_binding_a_parameter_name_cases():
        yield "directed-partial-binding-a-parameter-name", c
    for c in directed.odd_capture_callables_cases():
        yield "directed-odd-capture-callables", c
    for c in directed.functions_from_one_definition_cases():
        yield "directed-functions-from-one-definition", c
    thorough = tier == "thorough"
    for c in directed.contracts_on_partial_cases():
        yield "directed-contracts-on-partial", c
    for c in directed.shared_decorator_cases():
        yield "directed-shared-contract", c
    # parameters named like the library's own helper parameters / local variables
    for names in HOSTILE_PAIRS:
        for kinds in (("posOrKw", "posOrKw"), ("posOnly", "kwOnly"), ("posOrKw", "kwOnly")):
            sig = [{"name": names[0], "kind": kinds[0], "default": None}, {"name": names[1], "kind": kinds[1], "default": 21}]
            for args, kwargs in call_shapes(sig):
                for a_ in (False, True):
                    c = make_case(sig, args, kwargs, rng, async_=a_, hostile=names)
                    if implck.py_bind(c) is not None:
                        yield "hostile-parameter-names", c
    import inspect as _i  # noqa
    for n in range(0, (4 if thorough else 3) + 1):
        for sig in signatures(n):
            for args, kwargs in call_shapes(sig):
                c = make_case(sig, args, kwargs, rng, kind="method" if rng.random() < 0.15 else "function",
                              async_=rng.random() < 0.35)
                ok = implck.py_bind(c) is not None
                if ok or rng.random() < 0.1:
                    yield ("exh" if ok else "rejected"), c
    for _ in range(6000 if thorough else 600):
        n = rng.randint(4, 8)
        sigs = None
        # random well-formed signature of n parameters
        kinds = sorted([rng.choice(KINDS) for _ in range(n)], key=lambda k: RANK[k])
        while kinds.count("varPos") > 1:
            kinds.remove("varPos")
        while kinds.count("varKw") > 1:
            kinds.remove("varKw")
        pos = [i for i, k in enumerate(kinds) if k in ("posOnly", "posOrKw")]
        npd = rng.randint(0, len(pos))
        sig = []
        for i, k in enumerate(kinds):
            d = None
            if i in pos and pos.index(i) >= len(pos) - npd:
                d = 20 + i
            if k == "kwOnly" and rng.random() < 0.5:
                d = 20 + i
            sig.append({"name": NAMES[i], "kind": k, "default": d})
        shapes = list(call_shapes(sig, max_pos=6))
        rng.shuffle(shapes)
        for args, kwargs in shapes[:40]:
            c = make_case(sig, args, kwargs, rng, async_=rng.random() < 0.35)
            ok = implck.py_bind(c) is not None
            if ok or rng.random() < 0.05:
                yield ("rnd" if ok else "rejected"), c


def search_cases(rng, hint, n):
    out = []
    for t, c in cases("quick", rng):
        out.append((t, c))
        if len(out) >= n:
            break
    return out


def project(case, obs):
    if obs.get("define", ["ok"]) != ["ok"]:
        return ["define-failed"]
    return [obs["trace"], implck.loosen(obs["out"])]


def spec(case, mo, io):
    if io.get("define", ["ok"]) != ["ok"]:
        return ["definition raised %s" % (io["define"],)]
    fails = []
    bound = implck.py_bind(case)
    sp = mo["spec"]
    # spec validation: the Lean PyBind spec agrees with CPython
    if sp["sigWf"]:
        if sp["pyAccepts"] != (bound is not None):
            fails.append("SPEC: Lean pyAccepts=%s but CPython %s the call" % (sp["pyAccepts"], "accepts" if bound else "rejects"))
        elif bound is not None:
            for n, v in sp["pyValues"]:
                if bound.get(n) != ["o", v]:
                    fails.append("SPEC: Lean pyValue(%s)=%s, CPython binds %s" % (n, v, bound.get(n)))
    if bound is None:
        return fails
    kinds = dict((p["name"], p["kind"]) for p in case["sig"])
    bb = ckprop.body_bound(io)
    if bb is not None and bb != bound:
        fails.append("body received %s, CPython binds %s" % (bb, bound))
    by = ckprop.contracts_by_id(case)
    snaps = dict((x["id"], x) for lv in case["levels"] for x in lv["snaps"])
    for ev in io["trace"]:
        if ev[0] not in ("cond", "capture", "errfac"):
            continue
        got = dict((k, v) for k, v in ev[2])
        if ev[0] == "cond":
            asked = by[ev[1]][1]["args"]
        elif ev[0] == "capture":
            asked = snaps[ev[1]]["args"]
        else:
            asked = by[ev[1]][1]["err"]["fac"]["args"]
        for n in asked:
            if kinds.get(n) in ("posOnly", "posOrKw", "kwOnly"):
                if got.get(n) != bound[n]:
                    fails.append("%s %d received %s=%s, the body receives %s" % (ev[0], ev[1], n, got.get(n), bound[n]))
            elif n == "_ARGS":
                if got.get(n) != ["t", list(case["args"])]:
                    fails.append("%s %d received _ARGS=%s, call has %s" % (ev[0], ev[1], got.get(n), case["args"]))
            elif n == "_KWARGS":
                if got.get(n) != ["d", sorted([k, v] for k, v in case["kwargs"])]:
                    fails.append("%s %d received _KWARGS=%s, call has %s" % (ev[0], ev[1], got.get(n), case["kwargs"]))
        extra = set(got) - set(asked)
        if extra:
            fails.append("%s %d received names it did not ask for: %s" % (ev[0], ev[1], sorted(extra)))
    # a condition asking for a name the call does not provide: TypeError naming it, condition not evaluated
    provided = set(n for n, k in kinds.items() if k in ("posOnly", "posOrKw", "kwOnly")) | set(k for k, _v in case["kwargs"]) \
        | {"_ARGS", "_KWARGS"} | set(n for n, k in kinds.items() if k in ("varPos", "varKw"))
    c2 = by[2][1]
    missing = [n for n in c2["mandatory"] if n not in provided]
    guard_false = dict((c, a) for c, a in case["cond"])[1]["val"]["t"] != "truthy"
    if missing and guard_false:
        # evaluation of the group stops at the falsy guard: the condition that cannot be supplied is never prepared
        if any(ev[0] == "cond" and ev[1] == 2 for ev in io["trace"]):
            fails.append("condition 2 evaluated although the group's first condition was falsy")
        if not (io["out"][0] == "raise" and io["out"][1][0] != "TypeError"):
            fails.append("the first condition of the group is falsy and a later one asks for %s which the call does not provide: "
                         "expected the violation of the first, got %s" % (missing, io["out"]))
    elif missing:
        if any(ev[0] == "cond" and ev[1] == 2 for ev in io["trace"]):
            fails.append("condition 2 evaluated although %s is not provided" % missing)
        r = io["out"]
        if not (r[0] == "raise" and r[1][0] == "TypeError" and r[1][1] == "missingCondArgs" and set(missing) <= set(r[1][3] or [])):
            fails.append("condition asks for %s which the call does not provide: expected TypeError naming it, got %s" % (missing, r))
    if not missing and io["out"][0] == "raise" and (io["out"][1][0] == "TypeError" or list(io["out"][1][:2]) == ["other", "TypeError"]):
        fails.append("CPython accepts the call and every name the contracts ask for is provided, yet the call raised %s "
                     "(the arguments did not reach a condition / capture / error factory)" % (io["out"][1],))
    return fails


def classify(case, mo, io, fails):
    if any(f.startswith("SPEC:") for f in fails):
        return "spec-validation"
    kinds = [p["kind"] for p in case["sig"]]
    npos = len([k for k in kinds if k in ("posOnly", "posOrKw")])
    if "varPos" in kinds and len(case["args"]) > npos + (1 if case["kind"] == "method" else 0) * 0 and any(k in ("kwOnly", "varKw") for k in kinds):
        return "surplus-positional-bound-to-keyword-only"
    if any(p["kind"] == "posOnly" and p["name"] in [k for k, _v in case["kwargs"]] for p in case["sig"]):
        return "keyword-shadows-positional-only"
    return "unclassified"


def nontrivial_key(case, mo):
    return (case["async"], tuple((p["name"], p["kind"], p["default"] is not None) for p in case["sig"]), len(case["args"]),
            tuple(sorted(k for k, _v in case["kwargs"])))


def stats(case, mo, io, dist):
    dist["params:%d" % len(case["sig"])] += 1
    dist["async" if case["async"] else "sync"] += 1
    for p in case["sig"]:
        dist["kind:" + p["kind"]] += 1
    dist["accepted:%s" % (implck.py_bind(case) is not None)] += 1
    dist["npos:%d" % len(case["args"])] += 1
    dist["nkw:%d" % len(case["kwargs"])] += 1
    dist["out:" + (str(io["out"][1][0]) if io.get("out") and io["out"][0] == "raise" else "ret")] += 1
