"""C10 - contracts calling contracted code terminate; only own re-entry goes unchecked."""
import copy

import genre
import implre
import directed

DESCRIPTION = ("Lean: Props/C10.lean (the wrappers' in-progress set discipline computes exactly the frame-stack semantics; "
               "termination in general: contracts add no divergence - if the program stripped of its contracts finishes within some "
               "depth, so does the contracted one, within a depth depending on the program only - and its corollary for invariants "
               "calling public methods; fuel monotonicity; the upstream discipline diverged). Tie: programs of "
               "scripts (conditions / bodies / invariants that call each other) are built as real contracted functions and "
               "classes and run under a lowered recursion limit; every dynamic call's evaluations are logged. Oracle: the "
               "frame-stack reference semantics (Spec/Frames.lean), which never mentions the in-progress set.")
RULE = ("seeded random programs: 1-3 contracted functions (0-2 preconditions, 0-1 postcondition each) and 0-2 classes with "
        "invariants, 1-3 methods (public/private), constructors calling super().__init__() first / in the middle / last; "
        "every condition, postcondition and invariant script makes 0-2 calls to any function or method (so contracts re-enter "
        "directly and mutually, several times), bodies call only 'later' callables (so that bare execution terminates); "
        "1-4 top-level calls per program in one context; non-trivial = some contract script makes a call")
PROJECTION = "(per top-level call: the ordered log of condition / postcondition / invariant / body evaluations, the outcome incl. RecursionError)"
ASSUMPTIONS = ["conditions are deterministic scripts (A-oracle)", "user programs whose *bare* bodies recurse without bound are outside the claim"]


run_directed = directed.run
NEIGHBOURS = [{"from": "C11", "limit": 400, "why": "the in-progress marks are released on every exit, so later calls are checked"},
              {"from": "C03", "limit": 400, "why": "re-entrancy of invariant checks on all member kinds"}]


def cases(tier, rng):
    for c in directed.capture_reenters_function_cases():
        yield "directed-capture-reenters-function", c
    for c in directed.contract_on_builtin_with_callback_cases():
        yield "directed-contract-on-builtin-with-callback", c
    for c in directed.nested_constructor_keeps_outer_marks_cases():
        yield "directed-nested-constructor-keeps-outer-marks", c
    for c in directed.deep_nesting_cases():
        yield "directed-deep-nesting", c
    for c in directed.method_contracts_during_reentry_cases():
        yield "directed-method-contracts-during-reentry", c
    thorough = tier == "thorough"
    for c in directed.contracts_on_bound_methods_cases():
        yield "directed-contracts-on-bound-methods", c
    for c in directed.constructor_calls_back_cases():
        yield "directed-constructor-calls-back", c
    for c in directed.contract_calls_same_method_of_fresh_object_cases():
        yield "directed-same-method-of-fresh-object", c
    for c in directed.construct_inside_contract_cases():
        yield "directed-construct-inside-contract", c
    for _ in range(12000 if thorough else 1500):
        c_ = genre.random_program(rng, nfns=3, ncls=2, max_calls=2)
        if genre.cost_within(c_):
            yield "rnd", c_
    for _ in range(3000 if thorough else 300):
        c_ = genre.random_program(rng, nfns=4, ncls=2, max_calls=2, p_false=0.3)
        if genre.cost_within(c_):
            yield "deep", c_


def search_cases(rng, hint, n):
    for _ in range(n):
        c_ = genre.random_program(rng, nfns=4, ncls=2, max_calls=3)
        if genre.cost_within(c_):
            yield "search", c_


def run_impl(case):
    return implre.run(case)


def model_view(case, mo):
    return {"steps": [{"trace": s["trace"], "out": s["out"], "inprog_size": len(s["inprog"])} for s in mo["steps"]]}


def project(case, obs):
    return [[s["out"], s["trace"] if s["out"] != ["timeout"] else None, s["inprog_size"]] for s in obs["steps"]]


def spec(case, mo, io):
    fails = []
    for k, (ms, is_) in enumerate(zip(mo["steps"], io["steps"])):
        a = case["top"][k]
        if ms["specOut"] == ["timeout"]:
            continue      # the user program itself does not terminate: outside the claim
        if is_["out"] == ["timeout"]:
            fails.append("call %d %s: RecursionError - contract evaluation did not terminate" % (k, a))
            continue
        if is_["out"][0] == "other":
            fails.append("call %d %s: unexpected %s" % (k, a, is_["out"]))
            continue
        if is_["trace"] != ms["specTrace"]:
            fails.append("call %d %s: evaluations %s, own re-entry semantics gives %s" % (k, a, is_["trace"], ms["specTrace"]))
        if is_["out"] != ms["specOut"]:
            fails.append("call %d %s: outcome %s, expected %s" % (k, a, is_["out"], ms["specOut"]))
        if is_["inprog_size"] != 0:
            fails.append("call %d %s: %d ids still in progress after the call" % (k, a, is_["inprog_size"]))
    return fails


def classify(case, mo, io, fails):
    return "unclassified"


def _has_reentry(case):
    p = case["prog"]
    for d in p["fns"]:
        if any(s["actions"] for s in d["pre"] + d["post"]):
            return True
    return any(s["actions"] for c in p["classes"] for s in c["invs"])


def nontrivial_key(case, mo):
    if not _has_reentry(case):
        return None
    return repr((case["prog"], case["top"]))


def stats(case, mo, io, dist):
    p = case["prog"]
    dist["fns:%d" % len(p["fns"])] += 1
    dist["classes:%d" % len(p["classes"])] += 1
    dist["reentry:%s" % _has_reentry(case)] += 1
    for s in io["steps"]:
        dist["out:" + s["out"][0]] += 1
    dist["max_trace:%d" % min(50, 10 * (max([len(s["trace"]) for s in io["steps"]] + [0]) // 10))] += 1


def shrink_candidates(case):
    if len(case["top"]) > 1:
        for i in range(len(case["top"])):
            if "construct" in case["top"][i]:
                continue
            c = copy.deepcopy(case)
            c["top"] = [a for j, a in enumerate(case["top"]) if j == i or "construct" in a]
            yield c
