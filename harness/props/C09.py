"""C09 - the `error` argument decides exactly what a violation raises."""
import copy

import ckprop
import genck
import implck
from ckprop import shrink_candidates  # noqa: F401
from props import C19 as _C19
import directed

DESCRIPTION = ("Lean: Props/C09.lean (dispatch of createViolationError; decoration-time validation table). Oracle on the "
               "implementation: what surfaces for each error form, factory called exactly once with exactly the named "
               "subset of the call's values, non-exception factory result -> TypeError.")
RULE = ("bounded-exhaustive: 4 error forms x {pre, post} x 8 kinds x sync/async x factory parameter subsets of "
        "{params, _ARGS, _KWARGS, result, OLD, a missing name}; seeded random chains with mixed error forms, raising / "
        "non-exception factories; decoration-time table of malformed `error` values in extra_checks; non-trivial = a "
        "violation surfaces")
PROJECTION = "(outcome with identity, error-factory events with their keyword arguments, exception type facts)"
ASSUMPTIONS = ["user callables answer as a function of the site (A-oracle)"]
EXHAUSTIVE_STREAM = True

AW = {"T": 5, "F": 5, "R": 0.5, "BR": 0.5}
NEIGHBOURS = [{"from": "C05", "tags": ["hostile"], "limit": 1500, "why": "error factories are called with the call's values whatever the parameters are named"},
              {"from": "C05", "limit": 600, "why": "error factories are called with the call's values however the factory declares its parameters"}]


def _exh():
    for kind in genck.KINDS:
        pn, _ = genck.params_of(kind)
        for async_ in (False, True):
            if async_ and kind not in genck.ASYNC_KINDS:
                continue
            for role in ("pre", "post"):
                errs = ["none", {"cls": {"subBase": True, "truthy": True}}, {"cls": {"subBase": True, "truthy": False}},
                        {"inst": {"e": genck.exc(401, True, True)}}, {"inst": {"e": genck.exc(401, False, False)}}]
                names = list(pn) + ["_ARGS", "_KWARGS"] + (["result", "OLD"] if role == "post" else []) + ["nope"]
                subsets = [[]] + [[n] for n in names] + [names[:2], names[-3:-1]]
                for sub in subsets:
                    errs.append({"fac": {"args": sub}})
                for err in errs:
                    facs = [None]
                    if isinstance(err, dict) and "fac" in err:
                        facs = [{"exc": {"e": genck.exc(301, True, True)}}, {"exc": {"e": genck.exc(301, False, False)}},
                                "nonExc", genck.R(genck.exc(501, True))]
                    for fa in facs:
                        lv = {"pre": [], "snaps": [], "posts": []}
                        case = genck.base_case(kind, async_, [lv])
                        c = genck.contract(1, [pn[-1]] if pn else [], err=err)
                        if role == "pre":
                            lv["pre"].append(c)
                        else:
                            c["args"] = ["result"]
                            c["mandatory"] = ["result"]
                            lv["posts"].append(c)
                            lv["snaps"].append(genck.snapshot(1, "s1", [pn[0]] if pn else []))
                        case["cond"] = [[1, genck.F(101)]]
                        if fa is not None:
                            case["fac"] = [[1, fa]]
                        yield genck.fill_oracle_defaults(case)


run_directed = directed.run


def cases(tier, rng):
    for c in directed.async_error_function_on_invariant_cases():
        yield "directed-async-error-function-on-invariant", c
    for c in directed.base_exception_error_classes_cases():
        yield "directed-base-exception-error-classes", c
    for c in directed.error_function_bad_returns_cases():
        yield "directed-error-function-bad-returns", c
    for c in directed.error_function_called_every_time_cases():
        yield "directed-error-function-called-every-time", c
    for c in directed.callable_exception_instance_cases():
        yield "directed-callable-exception-instance", c
    for c in directed.error_functions_sharing_code_cases():
        yield "directed-error-functions-sharing-code", c
    for t, c in _C19.cases(tier, rng):
        if c.get('dom') == 'define' and c['what'] in ('error_arg',):
            yield 'def_' + t, c
    yield from _ck_cases(tier, rng)


def _ck_cases(tier, rng):
    thorough = tier == "thorough"
    for c in _exh():
        yield "exh", c
        if ckprop.ans_kind(c["levels"][0]["pre"][0]["err"] if c["levels"][0]["pre"] else c["levels"][0]["posts"][0]["err"]) in ("inst", "cls", "none") \
                and rng.random() < 0.5:
            c2 = copy.deepcopy(c)
            c2["twice"] = True
            yield "twice", c2
    for _ in range(30000 if thorough else 4000):
        yield "rnd", genck.random_case(rng, ans_weights=AW, falsy_errors=True, raising_errors=True, max_posts=2)


def search_cases(rng, hint, n):
    kinds = [hint["kind"]] if hint else genck.KINDS
    for _ in range(n):
        yield "search", genck.random_case(rng, kinds=kinds, ans_weights=AW, falsy_errors=True, raising_errors=True)


def project(case, obs):
    if case.get('dom') == 'define':
        return _C19.project(case, obs)
    return _ck_project(case, obs)


def _ck_project(case, obs):
    if obs.get("define", ["ok"]) != ["ok"]:
        return ["define-failed"]
    return [implck.loosen(obs["out"]), [ev for ev in obs["trace"] if ev[0] in ("errfac", "msg")]]


def _surfaced(case, mo, io):
    """(role, contract) whose violation the Spec says surfaces, or None."""
    sp = mo["spec"]
    by = ckprop.contracts_by_id(case)
    if not sp["callOk"]:
        return None
    if sp["totalPre"] and not sp["dnfHolds"]:
        pre, _p, _s = ckprop.chain_lists(case)
        cond = dict((c, a) for c, a in case["cond"])
        for cid in pre[-1]:
            a = cond[cid]
            if not (ckprop.ans_kind(a) == "val" and a["val"]["t"] == "truthy"):
                return by[cid]
        return None
    if sp["totalPre"] and sp["dnfHolds"] and sp["capTotal"] and ckprop.ans_kind(case["body"]) == "ret" \
            and sp["postTotal"] and sp["postFirstFalsy"] is not None:
        return by[sp["postFirstFalsy"]]
    return None


def spec(case, mo, io):
    if case.get('dom') == 'define':
        return _C19.spec(case, mo, io)
    return _ck_spec(case, mo, io)


def _ck_spec(case, mo, io):
    if io.get("define", ["ok"]) != ["ok"]:
        return ["definition raised %s" % (io["define"],)]
    fails = []
    if "second" in io and [io["second"]["out"], io["second"]["trace"]] != [io["out"], io["trace"]]:
        fails.append("the same violation raised again gives %s %s, the first time %s %s"
                     % (io["second"]["out"], io["second"]["trace"], io["out"], io["trace"]))
    sur = _surfaced(case, mo, io)
    facs = [ev for ev in io["trace"] if ev[0] == "errfac"]
    if sur is None:
        return fails
    role, c = sur
    cid = c["id"]
    ek = ckprop.ans_kind(c["err"])
    out = io["out"]
    exc = io.get("exc", {})
    others = [ev for ev in facs if ev[1] != cid]
    if others:
        fails.append("error factory of c%s called although its violation does not surface" % [ev[1] for ev in others])
    mine = [ev for ev in facs if ev[1] == cid]
    fa = dict((k, v) for k, v in case["fac"]).get(cid)
    msgans = dict((k, v) for k, v in case["msg"]).get(cid, "ok")
    bound = ckprop.py_bound(case)
    res_id = case["body"]["ret"]["v"] if role == "post" and case["kind"] not in ("propset", "propdel", "init") else None
    old = mo["spec"]["oldExpected"]
    avail = set(bound) | {"_ARGS", "_KWARGS"}
    if role == "post":
        avail.add("result")
        _pre, posts, snaps = ckprop.chain_lists(case)
        if posts and snaps:
            avail.add("OLD")
    if out[0] != "raise":
        fails.append("c%d violated but the call returned" % cid)
        return fails
    r = out[1]
    if ek == "none":
        if ckprop.ans_kind(msgans) == "ok":
            if r != ["viol", cid] or not exc.get("is_violation_error") or not exc.get("is_assertion") or not exc.get("arg0_str"):
                fails.append("default error: expected ViolationError(message) for c%d, got %s %s" % (cid, r, exc))
    elif ek == "cls":
        if ckprop.ans_kind(msgans) == "ok":
            if r != ["viol", cid] or exc.get("type") != "ErrCls_%d" % cid or not exc.get("arg0_str") or exc.get("nargs") != 1:
                fails.append("error class: expected ErrCls_%d(message), got %s %s" % (cid, r, exc))
    elif ek == "inst":
        if r != ["user", c["err"]["inst"]["e"]["id"]]:
            fails.append("error instance: expected the very object %d, got %s" % (c["err"]["inst"]["e"]["id"], r))
    elif ek == "fac":
        want = c["err"]["fac"]["args"]
        missing = [n for n in want if n not in avail]
        if missing:
            if r[:2] != ["TypeError", "missingErrorArgs"] or sorted(r[3] or []) != sorted(missing):
                fails.append("factory asks for %s: expected TypeError naming them, got %s" % (missing, r))
            if mine:
                fails.append("factory called although %s is not available" % missing)
        else:
            if len(mine) != 1:
                fails.append("error factory of c%d called %d times" % (cid, len(mine)))
            for ev in mine:
                got = dict((k, v) for k, v in ev[2])
                if sorted(got) != sorted(set(want)):
                    fails.append("factory of c%d received names %s, asked for %s" % (cid, sorted(got), sorted(want)))
                for n, v in got.items():
                    ev_ = ckprop.expected_value(case, n, bound, res_id, old)
                    if n == "result" and res_id is None:
                        continue
                    if ev_ is not None and v != ev_:
                        fails.append("factory of c%d received %s=%s, the call's value is %s" % (cid, n, v, ev_))
            k = ckprop.ans_kind(fa)
            if k == "exc" and r != ["user", fa["exc"]["e"]["id"]]:
                fails.append("factory returned exception %d, caller got %s" % (fa["exc"]["e"]["id"], r))
            if k == "nonExc" and r[:2] != ["TypeError", "factoryNotException"]:
                fails.append("factory returned a non-exception, expected TypeError, got %s" % (r,))
            if k == "raises" and r != ["user", fa["raises"]["e"]["id"]]:
                fails.append("factory raised %d, caller got %s" % (fa["raises"]["e"]["id"], r))
    return fails


def classify(case, mo, io, fails):
    if case.get('dom') == 'define':
        return _C19.classify(case, mo, io, fails)
    return _ck_classify(case, mo, io, fails)


def _ck_classify(case, mo, io, fails):
    return "unclassified"


def nontrivial_key(case, mo):
    if case.get('dom') == 'define':
        return _C19.nontrivial_key(case, mo)
    return _ck_nontrivial_key(case, mo)


def _ck_nontrivial_key(case, mo):
    if mo["out"][0] != "raise":
        return None
    return ckprop.shape_key(case) + (str(mo["out"][1][:2]),)


def stats(case, mo, io, dist):
    if case.get('dom') == 'define':
        return _C19.stats(case, mo, io, dist)
    return _ck_stats(case, mo, io, dist)


def _ck_stats(case, mo, io, dist):
    dist["kind:" + case["kind"]] += 1
    dist["async" if case["async"] else "sync"] += 1
    sur = _surfaced(case, mo, io)
    if sur:
        dist["surfaced:%s:%s" % (sur[0], ckprop.ans_kind(sur[1]["err"]))] += 1
    else:
        dist["surfaced:none"] += 1
    dist["out:" + (str(io["out"][1][0]) if io.get("out") and io["out"][0] == "raise" else "ret")] += 1


def run_impl(case):
    if case.get("twice"):
        a, b = implck.run_seq([case, case])
        a["second"] = {"out": b["out"], "trace": b["trace"]}
        return a
    return _C19.run_impl(case)


def model_view(case, mo):
    return _C19.model_view(case, mo)
