"""C20 - violation messages are deterministic and bounded."""
import exprprop
import implexpr
import directed

DESCRIPTION = ("Lean: Props/C20.lean (the value lines are a function of the set of resolved arguments - any permutation of "
               "distinct-keyed keyword arguments gives the identical list; the lines are sorted by expression text; every line "
               "is `key was a_repr(value)` hence bounded by the a_repr limits; unrepresentable arguments and _ARGS/_KWARGS not "
               "named by the condition are left out; nothing else influences the message). Tie as for C06 (message lines = "
               "reprPairs of the model). Oracle on the implementation: identical message under keyword-order permutations, "
               "positional vs keyword calls, repetition and interleaving with other calls, in fresh interpreters under 4 "
               "PYTHONHASHSEED values (sets / dicts / string sets as values); lines sorted; every value equals the contract's "
               "own a_repr (default and small user Repr; require / ensure / invariant) for values far above the limits, "
               "including the loop values of all() examples; classes, functions, lambdas, methods, modules, builtins and "
               "unnamed _ARGS/_KWARGS never shown.")
RULE = ("seeded random violated conditions x {3 keyword permutations, positional, repeat} x {default a_repr, small user Repr} x "
        "{require, ensure, invariant}; big-value and unrepresentable-argument templates; hash-seed batches of 40 cases x 4 seeds; "
        "distinct = (AST node kinds, layout)")
PROJECTION = "(ViolationError?, value lines, recomputed node -> value, Python's log) on the modelled fragment"
ASSUMPTIONS = ["reprlib.Repr subclasses given as a_repr are themselves deterministic (A-repr)",
               "sets of strings / dicts reach the message only through a_repr (reprlib sorts them)"]
WORKERS = None

SMALL = {"maxlist": 3, "maxstring": 12, "maxother": 12, "maxdict": 2, "maxset": 3, "maxtuple": 2, "maxlevel": 2, "maxlong": 12}

BIG = [
    (["xs"], "len(xs) < 0", {"xs": "BIGLIST:200"}),
    (["xs"], "all(e < 50 for e in xs)", {"xs": "BIGLIST:200"}),
    (["s"], "s == ''", {"s": "BIGSTR:60"}),
    (["s", "x"], "len(s) < x", {"s": "BIGSTR:60", "x": 3}),
    (["d"], "len(d) < 0", {"d": "BIGDICT:80"}),
    (["d"], "d['k001'] > 5", {"d": "BIGDICT:80"}),
    (["ss"], "len(ss) < 0", {"ss": "STRSET:40"}),
    (["ss"], "all(len(e) > 5 for e in ss)", {"ss": "STRSET:40"}),
    (["ss"], "'nope' in ss", {"ss": "STRSET:9"}),
    (["ss"], "{e for e in ss} == set()", {"ss": "STRSET:9"}),
    (["ss"], "sorted(ss) == []", {"ss": "STRSET:40"}),
    (["nest"], "len(nest) > 5", {"nest": "NESTED:12"}),
    (["big"], "all(len(e) < 2 for e in big)", {"big": "BIGNEST"}),
    (["big"], "all(len(e) < 2 for e in big) and len(big) > 0", {"big": "BIGNEST"}),
    (["big", "x"], "[e for e in big if len(e) > 100] == [] and x > 100", {"big": "BIGNEST", "x": 1}),
    (["x"], "x > 10 ** 80", {"x": 10 ** 60}),
    (["x"], "[x] * 100 == []", {"x": 1}),
    (["x"], "str(x) * 500 == ''", {"x": 1}),
    (["x"], "{x: 'v' * 400} == {}", {"x": 1}),
]

HIDDEN = [
    (["x", "f"], "x > 100", {"x": 1, "f": "FUNC"}),
    (["x", "f"], "f is None and x > 100", {"x": 1, "f": "FUNC"}),
    (["x", "f"], "f(x) is None", {"x": {"oa": 1}, "f": "LAMBDA"}),
    (["x", "c"], "c is None or x > 100", {"x": 1, "c": "CLASS"}),
    (["x", "c"], "c.__name__ == 'nope' and x > 100", {"x": 1, "c": "CLASS"}),
    (["x", "m"], "m.sep == 'nope' or x > 100", {"x": 1, "m": "MODULE"}),
    (["x", "b"], "b([x]) > 100", {"x": 1, "b": "BUILTIN"}),
    (["x", "meth"], "meth(x) > 100", {"x": 1, "meth": "METHOD"}),
    (["x", "meth", "c", "m", "f", "b"], "x > 100", {"x": 1, "meth": "METHOD", "c": "CLASS", "m": "MODULE", "f": "FUNC", "b": "BUILTIN"}),
    (["x"], "len([x]) > 100 and abs(x) > 0", {"x": 1}),
    (["x"], "implexpr_tick(x) > 100", {"x": 1}),
]
NEIGHBOURS = [{"from": "C06", "limit": 400, "why": "messages are a function of the current values only"}]


def _variants(rng, params, allow_positional=True):
    vs = [{}]
    for _ in range(3):
        order = list(params)
        rng.shuffle(order)
        vs.append({"order": order})
    if allow_positional:
        vs.append({"positional": True})
    vs.append({})
    return vs


run_directed = directed.run


def cases(tier, rng):
    for c in directed.placeholders_named_but_not_evaluated_cases():
        yield "directed-placeholders-named-but-not-evaluated", c
    for c in directed.async_message_equals_sync_cases():
        yield "directed-async-message-equals-sync", c
    thorough = tier == "thorough"
    for c in directed.rewritten_file_cases():
        yield "directed-rewritten-file", c
    for c in directed.default_limits_cases():
        yield "directed-default-limits", c
    for c in exprprop.special_cases(rng):
        c = dict(c, variants=[{}, {}])
        yield "special", c
    for params, expr, env in BIG:
        for a_repr in (None, SMALL):
            for kind in ("require", "ensure", "invariant"):
                for layout in ("oneline", "multiline"):
                    c = {"dom": "expr", "expr": expr, "env": env, "params": list(params), "layout": layout, "kind": kind,
                         "variants": _variants(rng, params)}
                    if a_repr:
                        c["a_repr"] = a_repr
                    if kind == "invariant":
                        c["fields"] = list(params)
                        c["expr"] = implexpr.self_expr(expr, c["fields"])
                        c["params"] = ["self"]
                    yield "big-values", c
    # many keyword arguments swallowed by **kw: every one is listed, whatever the order they are given in
    for nkw in (3, 49, 50, 51, 64, 130):
        extra = dict(("k%03d" % i, i) for i in range(nkw))
        for expr in ("x > 100", "len(_KWARGS) < 0 or x > 100"):
            cparams = ["x"] if "_KWARGS" not in expr else ["x", "_KWARGS"]
            names = ["x"] + sorted(extra)
            vs = [{}]
            for _ in range(3):
                order = list(names)
                rng.shuffle(order)
                vs.append({"order": order})
            vs.append({"order": list(reversed(names))})
            yield "many-kwargs", {"dom": "expr", "expr": expr, "env": {"x": 1}, "params": cparams, "fparams": ["x", "**kw"],
                                  "extra_kwargs": extra, "layout": "oneline", "variants": vs}
    # the closure variable is re-bound and bound back: the same violation gives the same message again
    for expr in ("x > cl + 100", "cl < 0 or x > 100", "[cl, x] == []"):
        yield "closure-rebound", {"dom": "expr", "expr": expr, "env": {"x": 1}, "params": ["x"], "layout": "oneline",
                                  "rebind_cl": [9, -3, 5]}
    # the program tightens the limits of its Repr object after the contracts were declared
    for params, expr, env in BIG[:8]:
        for kind in ("require", "ensure", "invariant"):
            c = {"dom": "expr", "expr": expr, "env": env, "params": list(params), "layout": "oneline", "kind": kind,
                 "a_repr": dict(SMALL, maxlist=30, maxstring=200), "a_repr_after": {"maxlist": 2, "maxstring": 9, "maxdict": 1, "maxset": 2}}
            if kind == "invariant":
                c["fields"] = list(params)
                c["expr"] = implexpr.self_expr(expr, c["fields"])
                c["params"] = ["self"]
            yield "limits-changed-after-declaration", c
    # several contracts declared in one scope, violated in different orders: what one message shows (e.g. _ARGS / _KWARGS)
    # does not depend on which sibling contract was violated before
    sibs = [{"dom": "expr", "expr": "len(_ARGS) > 5 or x > 100", "env": {"x": 1, "y": 2}, "params": ["_ARGS", "x"], "fparams": ["x", "y"], "layout": "oneline"},
            {"dom": "expr", "expr": "x > 100", "env": {"x": 1, "y": 2}, "params": ["x", "y"], "layout": "oneline"},
            {"dom": "expr", "expr": "len(_KWARGS) > 5 or x > 100", "env": {"x": 1, "y": 2}, "params": ["_KWARGS", "x"], "fparams": ["x", "y"], "layout": "oneline"},
            {"dom": "expr", "expr": "y > 100", "env": {"x": 1, "y": 2}, "params": ["y"], "fparams": ["x", "y"], "layout": "multiline"},
            {"dom": "expr", "expr": "x > cl + 100", "env": {"x": 1, "y": 2}, "params": ["x"], "fparams": ["x", "y"], "layout": "oneline", "kind": "ensure"}]
    yield "sibling-contracts-any-order", {"dom": "batchorder", "cases": sibs,
                                          "orders": [[0, 1, 2, 3, 4], [4, 3, 2, 1, 0], [1, 0, 3, 2, 4], [2, 4, 0, 1, 3]]}
    # textually identical comprehensions / generator expressions in conditions that see DIFFERENT sets of names (other
    # parameters, other keyword arguments swallowed by **kw), violated one after the other in several orders
    same = [{"dom": "expr", "expr": "all(e > 100 for e in xs)", "env": {"xs": [1, 2]}, "params": ["xs"], "layout": "oneline"},
            {"dom": "expr", "expr": "all(e > 100 for e in xs) or y > 100", "env": {"xs": [1, 2], "y": 3}, "params": ["xs", "y"], "layout": "oneline"},
            {"dom": "expr", "expr": "[e for e in xs if e > 100] == xs", "env": {"xs": [1, 2]}, "params": ["xs"], "layout": "multiline"},
            {"dom": "expr", "expr": "[e for e in xs if e > 100] == xs", "env": {"xs": [1, 2], "n": 4}, "params": ["xs"], "fparams": ["xs", "n"], "layout": "oneline"},
            {"dom": "expr", "expr": "[e for e in xs if e > 100] == xs", "env": {"xs": [1, 2]}, "params": ["xs"], "fparams": ["xs", "**kw"],
             "extra_kwargs": {"k1": 1, "k2": 2}, "layout": "oneline"},
            {"dom": "expr", "expr": "all(e > 100 for e in xs)", "env": {"xs": [1, 2], "s": "a"}, "params": ["xs", "s"], "layout": "oneline", "kind": "ensure"}]
    yield "same-comprehension-different-names", {"dom": "batchorder", "cases": same,
                                                 "orders": [[0, 1, 2, 3, 4, 5], [5, 4, 3, 2, 1, 0], [3, 2, 4, 0, 5, 1], [1, 5, 0, 4, 2, 3]]}
    for params, expr, env in HIDDEN:
        for kind in ("require", "ensure"):
            for named in (False, True):
                c = {"dom": "expr", "expr": expr.replace("implexpr_tick", "tick"), "env": env, "params": list(params),
                     "layout": "oneline", "kind": kind, "variants": _variants(rng, params)}
                if named:
                    c["named"] = True        # the condition is a named function: only the arguments are listed
                yield "unrepresentable-arguments", c
    # _ARGS / _KWARGS: shown only when the condition names them
    for cparams, expr in ((["x", "y"], "x > 100"), (["_ARGS", "x"], "len(_ARGS) > 5 or x > 100"),
                          (["_KWARGS", "x"], "len(_KWARGS) > 5 or x > 100"), (["_ARGS", "_KWARGS"], "len(_ARGS) + len(_KWARGS) > 5")):
        for positional in (False, True):
            yield "args-kwargs", {"dom": "expr", "expr": expr, "env": {"x": 1, "y": 2}, "params": cparams, "fparams": ["x", "y"],
                                  "layout": "oneline", "variants": [{"positional": positional}, {"positional": positional}]}
    for _ in range(6000 if thorough else 700):
        kind = rng.choice(["require", "require", "ensure", "invariant"])
        params = ["x", "y", "xs", "s", "o", "d", "n"]
        extra = {"kind": kind, "variants": _variants(rng, params)}
        if rng.random() < 0.4:
            extra["a_repr"] = SMALL
        feats = exprprop.ALL_FEATURES if kind != "invariant" else dict(exprprop.ALL_FEATURES, walrus=False)
        c = exprprop.make_case(rng, depth=rng.choice([2, 3]), features=feats, params=params, **extra)
        if c:
            yield "random-" + kind, c
    for _ in range(2000 if thorough else 300):
        params = ["x", "y", "xs", "s", "o", "n"]
        c = exprprop.make_case(rng, depth=2, features=exprprop.MODEL_FEATURES, params=params, variants=_variants(rng, params))
        if c:
            yield "modelled", c
    for _ in range(4 if thorough else 1):
        sub = []
        for params, expr, env in BIG:
            if "for e in ss)" in expr:
                continue      # iterating a set: the first falsifying element itself depends on the hash seed
            sub.append({"dom": "expr", "expr": expr, "env": env, "params": list(params), "layout": "oneline"})
            sub.append({"dom": "expr", "expr": expr, "env": env, "params": list(params), "layout": "oneline", "a_repr": SMALL})
        sub.append({"dom": "expr", "expr": "x > 100", "env": {"x": 1}, "params": ["x"], "fparams": ["x", "**kw"], "layout": "oneline",
                    "extra_kwargs": dict(("k%03d" % i, i) for i in range(64))})
        while len(sub) < 70:
            c = exprprop.make_case(rng, depth=2, features=exprprop.ALL_FEATURES)
            if c:
                sub.append(c)
        yield "hash-seeds", {"dom": "hashseed", "cases": sub, "seeds": [0, 1, 2, 12345]}


def search_cases(rng, hint, n):
    for _ in range(n):
        params = ["x", "y", "xs", "s", "o", "d", "n"]
        c = exprprop.make_case(rng, depth=rng.choice([2, 3]), features=exprprop.ALL_FEATURES, params=params, variants=_variants(rng, params))
        if c:
            yield "search", c


driver_inputs = exprprop.driver_inputs
model_view = exprprop.model_view
project = exprprop.project
stats = exprprop.stats
classify = exprprop.classify
nontrivial_key = lambda case, mos: exprprop.kinds_key(case)  # noqa: E731


def run_impl(case):
    if case["dom"] == "batchorder":
        return exprprop.run_batchorder(case)
    if case["dom"] == "hashseed":
        return exprprop.run_hashseed(case)
    return implexpr.run_batch([case])[0]


def spec(case, mos, io):
    if case["dom"] == "batchorder":
        return exprprop.check_batchorder(case, io)
    if case["dom"] == "hashseed":
        return exprprop.check_hashseed(case, io)
    exprprop.mark_fragment(case, mos)
    fails = exprprop.check_determinism(case, io, mos)
    rb = io.get("rebinds") or []
    if rb and rb[-1]["cl"] == 5 and io.get("message") is not None and rb[-1].get("message") != io["message"]:
        fails.append("the same violation after the closure variable was re-bound and bound back gives a different message:\n%s\n--- vs ---\n%s"
                     % (rb[-1].get("message"), io["message"]))
    return fails
