"""C19 - misuse is rejected at the earliest point with the documented error."""
import copy
import itertools

import ckprop
import genck
import impldef
import implck
import directed

DESCRIPTION = ("Lean: Props/C19.lean (decision tables over the model of decorator construction / application and of the "
               "wrapper's first lines). Tie + oracle: every misuse kind x decorator x callable kind is built with the real "
               "decorators; the exception class and the phase (construction / decoration / call before any user code) are "
               "compared with the table.")
RULE = ("exhaustive table: reserved parameter names (_ARGS/_KWARGS as any of the 5 parameter kinds x require/ensure/"
        "metaclass), reserved call keywords and result/OLD parameters (x 8 callable kinds x sync/async), invariant "
        "conditions (parameter lists x coroutine), snapshot naming (0/1/2 parameters x named/unnamed), snapshot "
        "application (no checker / only preconditions / k postconditions / duplicate name), 8 kinds of `error` "
        "argument x 3 decorators x variants; distinct = the case itself")
PROJECTION = "(accepted or exception class, phase)"
EXHAUSTIVE_STREAM = True
ASSUMPTIONS = []

ERRS = ["none", "excClass", "otherClass", "excInstance", "function", "method", "callableObject", "otherValue"]
BELOW0 = {"hasChecker": False, "nPosts": 0, "snapNames": []}


def dcase(what, **kw):
    c = {"dom": "define", "what": what, "deco": "require", "enabled": True, "err": "none", "condArgs": ["self"],
         "condMandatory": ["self"], "coroFn": False, "name": None, "captureArgs": ["x"], "below": BELOW0, "sig": [],
         "variant": 0}
    c.update(kw)
    return c


run_directed = directed.run


def cases(tier, rng):
    for c in directed.reserved_placeholders_without_var_keyword_cases():
        yield "directed-reserved-placeholders-without-var-keyword", c
    for c in directed.coroutine_invariant_spellings_cases():
        yield "directed-coroutine-invariant-spellings", c
    for c in directed.reserved_keyword_after_valid_calls_cases():
        yield "directed-reserved-keyword-after-valid-calls", c
    for deco in ("require", "ensure", "invariant"):
        for e in ERRS:
            for v in range(10 if e == "otherValue" else 4):
                for en in (True, False):
                    yield "error_arg", dcase("error_arg", deco=deco, err=e, variant=v, enabled=en)
    for args, mand in [([], []), (["self"], ["self"]), (["self"], []), (["x"], ["x"]), (["self", "x"], ["self", "x"]),
                       (["self", "x"], ["self"]), (["x"], []), (["x", "y"], ["x", "y"]), (["other"], ["other"])]:
        for co in (False, True):
            for en in (True, False):
                yield "invariant_cond", dcase("invariant_cond", condArgs=args, condMandatory=mand, coroFn=co, enabled=en)
    # a coroutine function is no invariant condition, with or without an explicit (valid) `error`
    for e in ("excClass", "excInstance", "function", "method"):
        for args, mand in [([], []), (["self"], ["self"])]:
            for co in (False, True):
                yield "invariant_cond_with_error", dcase("invariant_cond", condArgs=args, condMandatory=mand, coroFn=co, err=e)
    # variadic parameters of an invariant condition are parameters like any other: only `self` may be demanded
    for args, var in [(["args"], {"args": "varPos"}), (["kw"], {"kw": "varKw"}), (["self", "rest"], {"rest": "varPos"}),
                      (["self", "opts"], {"opts": "varKw"}), (["a", "k"], {"a": "varPos", "k": "varKw"}),
                      (["self", "a", "k"], {"a": "varPos", "k": "varKw"})]:
        for en in (True, False):
            yield "invariant_cond", dcase("invariant_cond", condArgs=args, condMandatory=args, coroFn=False, enabled=en, variadic=var)
    for name in (None, "n"):
        for cargs in ([], ["x"], ["x", "y"], ["x", "y", "z"]):
            for en in (True, False):
                yield "snapshot_name", dcase("snapshot_name", name=name, captureArgs=cargs, enabled=en)
    for has in (False, True):
        for nposts in (0, 1, 2):
            for names in ([], ["a"], ["a", "b"]):
                if not has and (nposts or names):
                    continue
                if names and nposts == 0:
                    continue
                for nm in ("a", "c", None):
                    for en in (True, False):
                        yield "snapshot_apply", dcase("snapshot_apply", name=nm, captureArgs=["x"], enabled=en,
                                                      below={"hasChecker": has, "nPosts": nposts, "snapNames": names})
    for rn in ("_ARGS", "_KWARGS", "fine"):
        for kind in ("posOnly", "posOrKw", "varPos", "kwOnly", "varKw"):
            for deco in ("require", "ensure", "metaclass"):
                for extra in ([], [{"name": "a", "kind": "posOnly" if kind == "posOnly" else "posOrKw", "default": None}]):
                    sig = extra + [{"name": rn, "kind": kind, "default": None}]
                    yield "reserved_param", dcase("reserved_param", deco=deco, sig=sig)
    # call-time misuse on real wrappers (checker domain)
    for kind in genck.KINDS:
        for async_ in (False, True):
            if async_ and kind not in genck.ASYNC_KINDS:
                continue
            if kind in ("propget", "propset", "propdel"):
                continue
            for mis in ("kw__ARGS", "kw__KWARGS", "param_result", "param_OLD", "param_result_nopost", "param_result_None", "param_OLD_None"):
                for with_pre in (False, True):
                    lv = {"pre": [], "snaps": [], "posts": []}
                    c = genck.base_case(kind, async_, [lv])
                    if with_pre:
                        lv["pre"].append(genck.contract(1, [], err={"cls": {"subBase": True, "truthy": True}}))
                    if mis.startswith("kw_"):
                        sig = c["sig"] + [{"name": "kw", "kind": "varKw", "default": None}]
                        genck.set_sig(c, sig)
                        c["kwargs"] = [[mis[3:], 60]]
                        lv["posts"].append(genck.contract(2, ["result"], err={"cls": {"subBase": True, "truthy": True}}))
                    else:
                        nm = "result" if "result" in mis else "OLD"
                        sig = c["sig"] + [{"name": nm, "kind": "posOrKw", "default": 61}]
                        if mis.endswith("_None"):
                            sig[-1]["pyNone"] = True      # the parameter's value at the call is the very object None
                        genck.set_sig(c, sig)
                        if not mis.endswith("nopost"):
                            lv["posts"].append(genck.contract(2, [], err={"cls": {"subBase": True, "truthy": True}}))
                        else:
                            lv["pre"].append(genck.contract(3, [], err={"cls": {"subBase": True, "truthy": True}}))
                    c["misuse"] = mis
                    yield "call_" + mis, genck.fill_oracle_defaults(c)
                    if mis.startswith("kw_"):
                        # the same call made re-entrantly (from one of the function's own contracts): still rejected
                        c2 = copy.deepcopy(c)
                        c2["inProgress"] = [c2["fid"]]
                        yield "call_" + mis + "_reentrant", genck.fill_oracle_defaults(c2)


def search_cases(rng, hint, n):
    return list(cases("quick", rng))[:n]


def run_impl(case):
    if case["dom"] == "define":
        return impldef.run(case)
    return implck.run(case)


def model_view(case, mo):
    if case["dom"] == "define":
        return {"out": mo["out"]}
    return implck.model_view(case, mo)


def project(case, obs):
    if case["dom"] == "define":
        return obs["out"]
    if obs.get("define", ["ok"]) != ["ok"]:
        return ["define-failed", obs["define"][:2]]
    return [obs["trace"], implck.loosen(obs["out"])]


def expected_define(case):
    """The property's own table (independent of the Lean model)."""
    w = case["what"]
    if not case["enabled"] and w != "reserved_param":
        return ["ok"]
    if w == "error_arg":
        return ["ok"] if case["err"] in ("none", "excClass", "excInstance", "function", "method") else ["raise", "ValueError"]
    if w == "invariant_cond":
        if case["coroFn"]:
            return ["raise", "ValueError"]
        return ["ok"] if case["condMandatory"] in ([], ["self"]) else ["raise", "ValueError"]
    if w == "snapshot_name":
        if case["name"] is None and len(case["captureArgs"]) != 1:
            return ["raise", "ValueError"]
        return ["ok"]
    if w == "snapshot_apply":
        if case["name"] is None and len(case["captureArgs"]) != 1:
            return ["raise", "ValueError"]
        nm = case["name"] or case["captureArgs"][0]
        b = case["below"]
        if not b["hasChecker"] or b["nPosts"] == 0:
            return ["raise", "ValueError"]          # not preceded by a postcondition
        if nm in b["snapNames"]:
            return ["raise", "ValueError"]
        return ["ok"]
    if w == "reserved_param":
        return ["raise", "TypeError"] if any(p["name"] in ("_ARGS", "_KWARGS") for p in case["sig"]) else ["ok"]
    raise AssertionError(w)


def spec(case, mo, io):
    if case["dom"] == "define":
        exp = expected_define(case)
        if io["out"] != exp:
            return ["%s %s: expected %s, got %s (%s)" % (case["what"], {k: case[k] for k in ("deco", "err", "condMandatory", "coroFn", "name", "captureArgs", "below", "enabled")}, exp, io["out"], io.get("msg"))]
        if case["what"] == "error_arg" and exp != ["ok"] and io.get("phase") != "construct":
            return ["bad `error` rejected only at %s, not when the decorator is created" % io.get("phase")]
        if case["what"] == "invariant_cond" and exp != ["ok"] and io.get("phase") != "construct":
            return ["bad invariant condition rejected only at %s" % io.get("phase")]
        return []
    fails = []
    mis = case["misuse"]
    if io.get("define", ["ok"]) != ["ok"]:
        return ["definition raised %s" % (io["define"],)]
    if mis.startswith("kw_"):
        exp = ["raise", ["TypeError", "reservedKwarg", mis[3:]]]
    elif mis.endswith("nopost"):
        exp = None
    else:
        exp = ["raise", ["TypeError", "reservedResolved", "result" if "result" in mis else "OLD"]]
    if exp is not None:
        if io["out"] != exp:
            fails.append("%s: expected %s, got %s" % (mis, exp, io["out"]))
        if io["trace"]:
            fails.append("%s: user code ran before the rejection: %s" % (mis, io["trace"]))
    else:
        if io["out"][0] != "ret":
            fails.append("a parameter named result without postconditions must be accepted, got %s" % (io["out"],))
    return fails


def classify(case, mo, io, fails):
    if case["dom"] == "define" and case["what"] == "snapshot_apply" and case["below"]["hasChecker"] and case["below"]["nPosts"] == 0:
        return "snapshot-with-only-preconditions"
    return "unclassified"


def nontrivial_key(case, mo):
    return repr(sorted((k, repr(v)) for k, v in case.items() if k not in ("cond", "capture", "fac", "msg")))


def stats(case, mo, io, dist):
    dist["what:" + (case.get("what") or case.get("misuse"))] += 1
    dist["out:" + str(io["out"][:2] if case["dom"] == "define" else io["out"][0])] += 1
