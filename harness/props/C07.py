"""C07 - a violation always surfaces as the contract's error with the true condition text."""
import exprprop
import implexpr
import directed

DESCRIPTION = ("Lean: Props/C07.lean (whenever Python evaluates a well-formed condition, the re-evaluation returns normally - so "
               "the violation is never replaced by 'Failed to recompute' - and every node it computes outside comprehension "
               "scopes is a node Python evaluated; a falsy first operand of `and` skips the later operands altogether; a "
               "comprehension part that cannot be re-computed is ignored). Tie as for C06. Oracle on the implementation: for "
               "guard-style conditions (later operands defined only when earlier ones hold) under all falsifying inputs, in 7 "
               "decorator layouts + multi-line layouts with operators at line ends and identifiers starting with def/class/"
               "async/lambda, for require / ensure / invariant and a custom error class: the caller gets the configured error; "
               "the message names the declaring file and a line inside the decorator, carries the description and a condition "
               "text that parses to the evaluated expression; side-effect probes run exactly twice as often as in one Python "
               "evaluation; the re-evaluator's recorded nodes are a subset of the nodes Python evaluated.")
RULE = ("seeded random guard-heavy conditions (depth 2-3) x 7 layouts x {require, ensure, invariant} x {ViolationError, custom "
        "error} + tick-probe conditions + genexpr.SPECIAL + hand-written multi-line layouts; distinct = (AST node kinds, layout)")
PROJECTION = exprprop_projection = "(ViolationError?, value lines, recomputed node -> value, Python's log) on the modelled fragment"
ASSUMPTIONS = ["inspect / asttokens recover the decorator text from the source file (exercised through 7+ layouts, not modelled)",
               "side-effect probes `tick(...)` observe evaluation; conditions are otherwise side-effect free"]

TRICKY = [
    (["value", "default", "classes"], "value > 100 and\n        default > value and\n        classes > default",
     {"value": 1, "default": 2, "classes": 3}),
    (["value", "definition", "async_mode"], "value > 100 or\n        definition > 100 or\n        async_mode > 100",
     {"value": 1, "definition": 2, "async_mode": 3}),
    (["value", "lambda_x", "classify"], "(value > 100 and\n        classify > 0) or (\n        lambda_x > 100)",
     {"value": 1, "lambda_x": 2, "classify": 3}),
    (["value", "defaults"], "value + \\\n        defaults > 100", {"value": 1, "defaults": 2}),
    (["value", "returns", "class_"], "0 < value < 10 // value and\n        returns[0] > 0 and\n        class_ is None",
     {"value": 11, "returns": [], "class_": None}),
    (["x", "name"], 'x > 100 or\n        name == "def foo" or\n        name == "class Bar: pass"', {"x": 1, "name": "abc"}),
    (["x", "name"], 'x > 100 or  # def in a comment, class too\n        name == "@decorator"', {"x": 1, "name": "abc"}),
    (["x", "name"], 'x > 100 and name in (\n        "async def f(): pass",\n        "@icontract.require(lambda: True)")', {"x": 1, "name": "abc"}),
    (["x", "xs"], "xs and xs[0] > 0", {"x": 1, "xs": []}),
    (["x", "n"], "n is None or n.y", {"x": 1, "n": 0}),
    (["n"], "0 < n < 10 // n", {"n": 0}),
    (["t"], "len(t) > 0 and len(t[0]) > 0", {"t": []}),
    (["a", "b"], "not a or b[0]", {"a": 1, "b": [0]}),
]
NEIGHBOURS = [{"from": "C09", "limit": 400, "why": "a violation raised with the message built from the call's values"},
              {"from": "C06", "limit": 500, "why": "the re-evaluation that builds the text computes Python's values"}]


run_directed = directed.run


def cases(tier, rng):
    for c in directed.condition_raising_type_error_cases():
        yield "directed-condition-raising-type-error", c
    for c in directed.base_exception_error_classes_cases():
        yield "directed-base-exception-error-classes", c
    thorough = tier == "thorough"
    for c in directed.rewritten_file_cases():
        yield "directed-rewritten-file", c
    for c in exprprop.special_cases(rng):
        yield "special", c
    for params, expr, env in TRICKY:
        for layout in ("multiline", "comments", "keyword", "oneline") if "\n" in expr else implexpr.LAYOUTS:
            for kind in ("require", "ensure"):
                yield "tricky-layout", {"dom": "expr", "expr": expr, "env": env, "params": params, "layout": layout, "kind": kind}
    feats = dict(exprprop.ALL_FEATURES)
    for _ in range(7000 if thorough else 800):
        kind = rng.choice(["require", "require", "ensure", "invariant"])
        extra = {"kind": kind}
        if rng.random() < 0.2:
            extra["error"] = "ValueError"
        c = exprprop.make_case(rng, depth=rng.choice([2, 3]), features=feats if kind != "invariant" else dict(feats, walrus=False),
                               params=None if kind != "invariant" else ["x", "y", "xs", "s", "o", "d", "n"], **extra)
        if c:
            yield "random-" + kind, c
    for _ in range(3000 if thorough else 400):
        c = exprprop.make_case(rng, depth=rng.choice([2, 3]), features=exprprop.MODEL_FEATURES, params=["x", "y", "xs", "s", "o", "n"])
        if c:
            yield "modelled", c
    for _ in range(1500 if thorough else 200):
        # conditions given as named functions: the message carries the function's name instead of a lambda's text
        c = exprprop.make_case(rng, depth=2, features=dict(feats, walrus=False), kind=rng.choice(["require", "ensure"]), named=True)
        if c:
            yield "named-function", c
    for _ in range(3000 if thorough else 400):
        c = exprprop.tick_case(rng)
        if c:
            yield "tick-probes", c


def search_cases(rng, hint, n):
    for _ in range(n):
        c = exprprop.make_case(rng, depth=rng.choice([2, 3]), features=exprprop.ALL_FEATURES)
        if c:
            yield "search", c


driver_inputs = exprprop.driver_inputs
model_view = exprprop.model_view
project = exprprop.project
stats = exprprop.stats
classify = exprprop.classify


def run_impl(case):
    return implexpr.run_batch([case])[0]


def spec(case, mos, io):
    exprprop.mark_fragment(case, mos)
    return exprprop.check_surface(case, io)


def nontrivial_key(case, mos):
    return exprprop.kinds_key(case)
