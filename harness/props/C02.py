"""C02 - postconditions gate every normal return; results and exceptions pass unchanged."""
import copy

import ckprop
import genck
import implck
import directed
from ckprop import model_view, shrink_candidates  # noqa: F401

DESCRIPTION = ("Lean: Props/C02.lean. Tie + oracle: after a normal return the postconditions of the chain are evaluated "
               "in order up to the first falsy one; all truthy -> the very object returned by the body; body raises -> "
               "that very exception, no postcondition evaluated.")
RULE = ("bounded-exhaustive: <=3 postconditions placed on chains of <=3 classes x all truth assignments x 4 body outcomes "
        "(two returns, Exception, BaseException) x +-snapshot x 8 kinds x sync/async; plus seeded random cases; "
        "non-trivial = at least one postcondition and the body is reached")
PROJECTION = "(post conditions evaluated after the body in order, outcome with object identity)"
EXHAUSTIVE_STREAM = True
ASSUMPTIONS = ["user callables answer as a function of the site (A-oracle)"]

AW = {"T": 8, "F": 4, "R": 1, "BR": 1, "CT": 1, "CF": 1, "CR": 0.5}


run_directed = directed.run
NEIGHBOURS = [{"from": "C10", "limit": 500, "why": "calls made by a BODY - recursive ones included - are fully checked: their postconditions gate their returns"},
              {"from": "C04", "limit": 1500, "why": "inherited postconditions as built by the real metaclass gate the return"},
              {"from": "C18", "limit": 400, "why": "postconditions below foreign wrappers / of late decorated classes gate the return"},
              {"from": "C13", "limit": 400, "why": "postconditions of async callables are awaited and judged"},
              {"from": "C11", "limit": 400, "why": "after an exception postconditions gate the following calls again"},
              {"from": "C07", "limit": 400, "why": "a violated postcondition raises the violation error whatever its message needs to re-evaluate"},
              {"from": "C16", "tags": ["seq"], "limit": 500, "why": "a postcondition is judged on the values of the call at hand, whatever earlier calls supplied"},
              {"from": "C17", "limit": 600, "why": "a postcondition added to a subclass member after its class exists gates that member only"}]


def cases(tier, rng):
    for c in directed.post_init_inherits_cases():
        yield "directed-post-init-inherits", c
    for c in directed.awaitable_kinds_cases():
        yield "directed-awaitable-kinds", c
    thorough = tier == "thorough"
    for c in directed.falsy_and_truthy_values_cases():
        yield "directed-falsy-and-truthy-values", c
    for c in directed.special_results_cases():
        yield "directed-special-results", c
    for c in directed.used_before_override_cases():
        yield "directed-used-before-override", c
    for c in genck.exhaustive_post(genck.KINDS, [False, True], 3, 3 if thorough else 2):
        yield "exh", c
    if not thorough:
        for c in genck.exhaustive_post(["method", "function"], [False, True], 3, 3):
            yield "exh3", c
    for _ in range(40000 if thorough else 4000):
        c = genck.random_case(rng, ans_weights=AW, falsy_errors=True, raising_errors=True, max_posts=3)
        yield "rnd", c
        if rng.random() < 0.15:
            # the same call again after a call whose body raised (Exception / BaseException alike)
            c2 = copy.deepcopy(c)
            c2["after"] = {"raises": {"e": genck.exc(rng.choice([7100, 7101, 7600, 7601, 7604]), rng.random() < 0.5)}}
            yield "after-fault", c2


def search_cases(rng, hint, n):
    kinds = [hint["kind"]] if hint else genck.KINDS
    for _ in range(n):
        yield "search", genck.random_case(rng, kinds=kinds, ans_weights=AW, falsy_errors=True, raising_errors=True, max_posts=3)


def _post_conds(case, obs):
    _b, body, after = ckprop.split_trace(case, obs)
    if body is None:
        return None
    return [ev[1] for ev in after if ev[0] == "cond"]


def project(case, obs):
    if obs.get("define", ["ok"]) != ["ok"]:
        return ["define-failed"]
    return [_post_conds(case, obs), implck.loosen(obs["out"])]


def spec(case, mo, io):
    if io.get("define", ["ok"]) != ["ok"]:
        return ["definition raised %s" % (io["define"],)]
    sp = mo["spec"]
    fails = []
    if not sp["callOk"] or not ckprop.entered(io):
        return fails
    pc = _post_conds(case, io)
    _pre, posts, _snaps = ckprop.chain_lists(case)
    b = case["body"]
    if ckprop.ans_kind(b) == "raises":
        if io["out"] != ["raise", ["user", b["raises"]["e"]["id"]]]:
            fails.append("body raised %d but the caller got %s" % (b["raises"]["e"]["id"], io["out"]))
        if pc:
            fails.append("postconditions %s evaluated although the body raised" % pc)
        return fails
    exp_ret = ckprop.expected_ret(case)
    if sp["postTotal"]:
        ff = sp["postFirstFalsy"]
        exp_eval = posts if ff is None else posts[:posts.index(ff) + 1]
        if pc != exp_eval:
            fails.append("postconditions evaluated %s, expected %s" % (pc, exp_eval))
        if ff is None:
            if io["out"] != exp_ret:
                fails.append("all postconditions hold: expected %s, got %s" % (exp_ret, io["out"]))
        else:
            if io["out"][0] != "raise":
                fails.append("postcondition c%d violated but the call returned" % ff)
            elif sp["expectedPostErr"] is not None and implck.loosen(io["out"]) != implck.loosen(["raise", sp["expectedPostErr"]]):
                fails.append("postcondition c%d violated: expected %s, got %s" % (ff, sp["expectedPostErr"], io["out"]))
    else:
        if pc != posts[:len(pc)]:
            fails.append("postconditions evaluated out of order: %s vs %s" % (pc, posts))
        if io["out"][0] == "ret" and io["out"] != exp_ret:
            fails.append("returned %s instead of the body's %s" % (io["out"], exp_ret))
        if io["out"][0] == "ret" and len(pc) != len(posts):
            fails.append("returned although only %s of %s were evaluated" % (pc, posts))
    # contracts see the objects the body saw, plus result
    bound = ckprop.body_bound(io)
    _b, _body, after = ckprop.split_trace(case, io)
    for ev in after:
        if ev[0] in ("cond", "errfac"):
            for name, val in ev[2]:
                if name == "result" and exp_ret is not None and exp_ret[1] is not None and val != ["o", exp_ret[1]]:
                    fails.append("c%d saw result=%s, body returned %s" % (ev[1], val, exp_ret))
                if name in bound and val != bound[name]:
                    fails.append("c%d saw %s=%s, body saw %s" % (ev[1], name, val, bound[name]))
    return fails


def classify(case, mo, io, fails):
    return "unclassified"


def nontrivial_key(case, mo):
    if not any(l["posts"] for l in case["levels"]):
        return None
    if not (mo["spec"]["callOk"] and any(ev[0] == "body" for ev in mo["trace"])):
        return None
    return ckprop.shape_key(case)


def stats(case, mo, io, dist):
    dist["kind:" + case["kind"]] += 1
    dist["async" if case["async"] else "sync"] += 1
    dist["posts:%d" % len(mo["posts"])] += 1
    dist["body:" + ckprop.ans_kind(case["body"])] += 1
    dist["postTotal:%s" % mo["spec"]["postTotal"]] += 1
    dist["out:" + (io["out"][0] if io.get("out") else "none")] += 1
    nf = sum(1 for c, a in case["cond"] if ckprop.ans_kind(a) == "val" and a["val"]["t"] == "falsy"
             and c in mo["posts"])
    dist["falsy_posts>=2" if nf >= 2 else "falsy_posts<2"] += 1


def run_impl(case):
    if "after" in case:
        first = copy.deepcopy(case)
        first["body"] = case["after"]
        first["cond"] = [[c, genck.T(100 + c)] for c, _a in case["cond"]]
        first["capture"] = [[s_, genck.T(200 + s_)] for s_, _a in case["capture"]]
        _a, b = implck.run_seq([first, case])
        return b
    return ckprop.run_impl(case)
