"""C16 - deterministic evaluation order and first-failure reporting."""
import ckprop
import directed
import genck
import implck
import copy

import ckprop as _ckp

DESCRIPTION = ("Lean: Props/C16.lean (phase order of the trace, list order inside a phase, early stops). Tie: the full "
               "ordered site log of real calls equals the model's. Oracle: the expected order is recomputed in the harness "
               "from the declared chain (inherited before own, innermost decorator first, groups until one holds, a group "
               "stops at its first falsy).")
RULE = ("bounded-exhaustive chains (<=3 classes x <=2 own pre x <=1 own post, all truth assignments) and seeded random "
        "chains biased to several simultaneously falsy conditions; non-trivial = at least two contracts and >=1 falsy")
PROJECTION = "the full ordered site log (cond / bool / await / capture / body / errfac / msg events with their keyword arguments) + outcome"
ASSUMPTIONS = ["user callables answer as a function of the site (A-oracle)"]

AW = {"T": 5, "F": 5, "R": 0.3, "BR": 0.3, "CT": 0.5, "CF": 0.5}
NEIGHBOURS = [{"from": "C18", "limit": 400, "why": "the order of inherited and own contracts on real calls"},
              {"from": "C17", "limit": 400, "why": "the lists evaluated are those of the class of the instance"},
              {"from": "C05", "limit": 1200, "why": "evaluation of a conjunctive group stops at its first falsy condition: later conditions are not even prepared"},
              {"from": "C03", "limit": 500, "why": "all invariants are evaluated, in order, at the end of every kind of constructor; the first falsy one is reported"},
              {"from": "C04", "limit": 1500, "why": "inherited postconditions and snapshots of EVERY base precede the own ones"},
              {"from": "C09", "limit": 600, "why": "the error of the first falsy condition is raised whatever kind of object it is"},
              {"from": "C07", "limit": 500, "tags": ["special", "tick-probes"], "why": "a violated condition is re-evaluated exactly once for its message: every operand with an effect runs twice in all"}]


run_directed = directed.run


def cases(tier, rng):
    for c in directed.diamond_orders_cases():
        yield "directed-diamond-orders", c
    thorough = tier == "thorough"
    for c in genck.exhaustive_pre(genck.KINDS if thorough else ["function", "method", "class", "propset"], [False, True], 3, 2,
                                  with_post=(False, True), with_snap=(False, True)):
        yield "exh", c
    for _ in range(40000 if thorough else 5000):
        yield "rnd", genck.random_case(rng, ans_weights=AW, raising_errors=True, max_posts=3)
    for tc in seq_cases(tier, rng):
        yield tc


def seq_cases(tier, rng):
    """several calls on the SAME decorated callable (a method with inherited, weakened preconditions) under different truth
    assignments: the order of evaluation and the reported condition of a call do not depend on the calls before it"""
    thorough = tier == "thorough"
    n = 0
    while n < (6000 if thorough else 700):
        c = genck.random_case(rng, kinds=["method", "class", "static", "propset"], ans_weights={"T": 5, "F": 5}, max_posts=1)
        if sum(1 for lv in c["levels"] if lv["pre"]) < 2:
            continue
        n += 1
        steps = [c]
        ids = [x["id"] for lv in c["levels"] for x in lv["pre"] + lv["posts"]]
        for _ in range(rng.randint(2, 4)):
            c2 = copy.deepcopy(c)
            c2["cond"] = [[k, (genck.T(100 + k) if rng.random() < 0.5 else genck.F(100 + k)) if k in ids else a] for k, a in c["cond"]]
            steps.append(c2)
        yield "seq", {"dom": "checker-sequence", "seq": steps}
    # calls on one callable that differ in WHICH optional names they supply (through **kw): a condition / capture /
    # error factory with an optional parameter gets the value of the call at hand or its own default - never what an
    # earlier call made of it
    for async_ in (False, True):
        for role in ("pre", "post"):
            for orders in ([0, 1], [1, 0], [0, 1, 0], [1, 0, 1], [0, 0, 1], [1, 1, 0]):
                for truth in (genck.T, genck.F):
                    lv = {"pre": [], "snaps": [], "posts": []}
                    c = genck.base_case("function", async_, [lv])
                    genck.set_sig(c, [{"name": "x", "kind": "posOrKw", "default": None}, {"name": "kw", "kind": "varKw", "default": None}])
                    con = genck.contract(2, ["x", "k"] + (["result"] if role == "post" else []), mandatory=["x"] + (["result"] if role == "post" else []),
                                         err={"fac": {"args": ["x", "k"]}})
                    lv["pre" if role == "pre" else "posts"].append(con)
                    if role == "post":
                        lv["snaps"].append(genck.snapshot(4, "s4", ["x", "k"]))
                    c["cond"] = [[2, truth(102)]]
                    c["args"], c["kwargs"] = [10], []
                    genck.fill_oracle_defaults(c)
                    steps = []
                    for o in orders:
                        st = copy.deepcopy(c)
                        st["kwargs"] = [["k", 40]] if o else []
                        steps.append(st)
                    yield "seq-varying-optional-names", {"dom": "checker-sequence", "seq": steps}


def driver_inputs(case):
    return case["seq"] if "seq" in case else [case]


def run_impl(case):
    if "seq" in case:
        return {"steps": implck.run_seq(case["seq"])}
    return _ckp.run_impl(case)


def model_view(case, mos):
    if "seq" in case:
        return {"steps": [_ckp.model_view(c, mo) for c, mo in zip(case["seq"], mos)]}
    return _ckp.model_view(case, mos[0])


def shrink_candidates(case):
    if "seq" in case:
        for i in range(1, len(case["seq"])):
            yield {"dom": "checker-sequence", "seq": case["seq"][:i] + case["seq"][i + 1:]}
        return
    for c in _ckp.shrink_candidates(case):
        yield c


def search_cases(rng, hint, n):
    kinds = [hint["kind"]] if hint else genck.KINDS
    for _ in range(n):
        yield "search", genck.random_case(rng, kinds=kinds, ans_weights=AW, raising_errors=True, max_posts=3)


def project(case, obs):
    if "seq" in case:
        return [_project1(o) for o in obs["steps"]]
    return _project1(obs)


def _project1(obs):
    if obs.get("define", ["ok"]) != ["ok"]:
        return ["define-failed"]
    return [obs["trace"], implck.loosen(obs["out"])]


def _plain(a):
    return ckprop.ans_kind(a) == "val" and a["val"]["t"] in ("truthy", "falsy")


def spec(case, mos, io):
    if "seq" in case:
        fails = []
        for k, (c, mo, o) in enumerate(zip(case["seq"], mos, io["steps"])):
            for f in _spec1(c, mo, o):
                fails.append("call %d of the sequence: %s" % (k, f))
            if _project1(o) != _project1(_ckp.model_view(c, mo)):
                fails.append("call %d of the sequence: evaluations %s, a first call with the same answers gives %s"
                             % (k, _project1(o), _project1(_ckp.model_view(c, mo))))
        return fails
    return _spec1(case, mos[0], io)


def _spec1(case, mo, io):
    if io.get("define", ["ok"]) != ["ok"]:
        return ["definition raised %s" % (io["define"],)]
    sp = mo["spec"]
    if not sp["callOk"]:
        return []
    fails = []
    pre, posts, snaps = ckprop.chain_lists(case)
    by = ckprop.contracts_by_id(case)
    cond = dict((c, a) for c, a in case["cond"])
    tr = io["trace"]

    def rank(ev):
        if ev[0] in ("cond", "bool", "awaitcond", "errfac", "msg"):
            role = by.get(ev[1], ("?",))[0]
            return 1 if role == "pre" else 4
        if ev[0] in ("capture", "awaitcapture"):
            return 2
        if ev[0] == "body":
            return 3
        return 5

    ranks = [rank(ev) for ev in tr]
    if ranks != sorted(ranks):
        fails.append("phases out of order: %s" % ranks)
    # expected order of condition calls in the precondition phase (total oracle)
    if sp["totalPre"]:
        exp = []
        for g in pre:
            ok = True
            for cid in g:
                exp.append(cid)
                a = cond[cid]
                if a["val"]["t"] != "truthy" if ckprop.ans_kind(a) == "val" else (
                        ckprop.ans_kind(a["coro"]["inner"]) == "val" and a["coro"]["inner"]["val"]["t"] != "truthy"):
                    ok = False
                    break
            if ok:
                break
        got = [ev[1] for ev in tr if ev[0] == "cond" and by.get(ev[1], ("?",))[0] == "pre"]
        if got != exp:
            fails.append("precondition calls %s, expected %s" % (got, exp))
    conds = [ev[1] for ev in tr if ev[0] == "cond"]
    # at most once per listed position (chains have a single inheritance path: ids are distinct)
    if len(conds) != len(set(conds)):
        fails.append("a condition was called more than once: %s" % conds)
    msgs = [ev[1] for ev in tr if ev[0] == "msg"]
    if len(msgs) > 1:
        fails.append("message built more than once: %s" % msgs)
    if msgs and io["out"][0] == "raise" and io["out"][1][0] in ("viol", "RuntimeError") and io["out"][1][1] not in msgs + [None]:
        fails.append("message built for c%s but c%s surfaced" % (msgs, io["out"][1][1]))
    sn = [ev[1] for ev in tr if ev[0] == "capture"]
    if sn != snaps[:len(sn)]:
        fails.append("captures out of order: %s vs %s" % (sn, snaps))
    pc = [ev[1] for ev in tr if ev[0] == "cond" and by.get(ev[1], ("?",))[0] == "post"]
    if pc != posts[:len(pc)]:
        fails.append("postconditions out of order: %s vs %s" % (pc, posts))
    return fails


def classify(case, mos, io, fails):
    return "unclassified"


def nontrivial_key(case, mos):
    if "seq" in case:
        return repr([ckprop.shape_key(c) for c in case["seq"]])
    n = sum(len(l["pre"]) + len(l["posts"]) for l in case["levels"])
    nf = sum(1 for _c, a in case["cond"] if ckprop.ans_kind(a) == "val" and a["val"]["t"] == "falsy")
    if n < 2 or nf < 1:
        return None
    return ckprop.shape_key(case)


def stats(case, mos, io, dist):
    if "seq" in case:
        dist["sequence_len:%d" % len(case["seq"])] += 1
        return
    dist["kind:" + case["kind"]] += 1
    dist["async" if case["async"] else "sync"] += 1
    nf = sum(1 for _c, a in case["cond"] if ckprop.ans_kind(a) == "val" and a["val"]["t"] == "falsy")
    dist["falsy:%d" % min(nf, 4)] += 1
    dist["levels:%d" % len(case["levels"])] += 1
    dist["trace_len:%d" % min(len(io["trace"]), 12)] += 1
