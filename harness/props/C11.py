"""C11 - checking is re-armed after every outcome: no sticky suspension, no lost error."""
import copy

import ckprop
import common
import genck
import implck
import genre
from props import C10 as _C10
import directed

DESCRIPTION = ("Lean: Props/C11.lean (in-progress set after = before for every oracle; the surfaced exception is the injected "
               "one or the documented wrapper chaining it). Harness: for every site the fault-free trace of a scenario passes, "
               "every exception kind is injected there (async: also delivered by coro.throw at a real suspension point, i.e. "
               "cancellation / close); sequences of faulted calls are followed by probe calls compared with a fresh run.")
RULE = ("scenarios = seeded fault-free programs of all kinds (sync/async, pre/post/snapshot, all error forms); for each: "
        "every site of its trace x {Exception-like classes, KeyboardInterrupt, SystemExit, GeneratorExit, CancelledError} "
        "x {raised in place, thrown at a suspension point (async)}; sequences of 1-2 faulted calls + 2 probes; "
        "distinct = (scenario shape, site kind, exception class, delivery); non-trivial = the injected site is reached")
PROJECTION = "(per step: in-progress set after the call, outcome with exception identity and __cause__ identity; probe observations)"
ASSUMPTIONS = ["a coroutine abandoned while suspended and never finalised is not covered",
               "reprlib absorbs Exception raised by a value's __repr__ (A-reprlib; exercised, not modelled)"]

AW = {"T": 7, "F": 3}
NEIGHBOURS = [{"from": "C09", "limit": 400, "why": "every kind of error object surfaces"},
              {"from": "C13", "limit": 400, "why": "exceptions of awaited conditions surface"}]


def _sites(trace):
    out = []
    for ev in trace:
        if ev[0] in ("cond", "bool", "awaitcond", "capture", "awaitcapture", "errfac", "msg"):
            out.append((ev[0], ev[1]))
        elif ev[0] == "body":
            out.append(("body", None))
    return out


def inject(step, site, e):
    """The step with exception `e` injected at `site` (None if it cannot be expressed)."""
    s = copy.deepcopy(step)
    kind, ident = site
    if kind == "cond":
        for item in s["cond"]:
            if item[0] == ident:
                if ckprop.ans_kind(item[1]) == "coro":
                    return None  # the call itself returns the coroutine: inject at awaitcond instead
                item[1] = genck.R(e)
                return s
    if kind == "bool":
        for item in s["cond"]:
            if item[0] == ident:
                a = item[1]
                if ckprop.ans_kind(a) == "coro":
                    item[1] = genck.CORO(genck.BR(a["coro"]["inner"]["val"]["v"], e))
                else:
                    item[1] = genck.BR(a["val"]["v"], e)
                return s
    if kind == "awaitcond":
        for item in s["cond"]:
            if item[0] == ident:
                item[1] = genck.CORO(genck.R(e))
                return s
    if kind == "capture":
        for item in s["capture"]:
            if item[0] == ident:
                if ckprop.ans_kind(item[1]) == "coro":
                    return None
                item[1] = genck.R(e)
                return s
    if kind == "awaitcapture":
        for item in s["capture"]:
            if item[0] == ident:
                item[1] = genck.CORO(genck.R(e))
                return s
    if kind == "body":
        s["body"] = {"raises": {"e": e}}
        return s
    if kind == "errfac":
        s["fac"] = [x for x in s["fac"] if x[0] != ident] + [[ident, genck.R(e)]]
        return s
    if kind == "msg":
        s["msg"] = [x for x in s["msg"] if x[0] != ident] + [[ident, genck.R(e)]]
        return s
    return None


def _exc_kinds(is_async_site):
    ks = []
    for k in range(7):
        ks.append(genck.exc(7000 + k, True))
    for k in range(5):
        ks.append(genck.exc(7500 + k, False))
    if is_async_site:
        for k in range(5):
            ks.append(genck.exc(9000 + k, False))  # delivered by throw at a suspension point
    return ks


def _probe(base, falsy_first):
    p = copy.deepcopy(base)
    p["cond"] = [[c, genck.T(100 + c)] for c, _a in base["cond"]]
    p["capture"] = [[s, genck.T(200 + s)] for s, _a in base["capture"]]
    p["body"] = {"ret": {"v": 7}}
    p["msg"] = [[c, "ok"] for c, _a in base["msg"]]
    p["fac"] = [[c, {"exc": {"e": genck.exc(300 + c)}}] for c, _a in base["fac"]]
    if falsy_first:
        pre = [c["id"] for lv in base["levels"] for c in lv["pre"]]
        posts = [c["id"] for lv in base["levels"] for c in lv["posts"]]
        tgt = set(pre) if pre else set(posts[:1])
        p["cond"] = [[c, genck.F(100 + c) if c in tgt else a] for c, a in p["cond"]]
    return p


class _ProtocolFault(BaseException):
    pass


def run_attr_fault(case):
    """the object's attribute protocol is user code too: `instance.__class__` raises while the fault is armed"""
    import common
    icontract = common.assert_repo_import()
    armed = {"on": False}
    exc_cls = {"Exception": RuntimeError, "BaseException": _ProtocolFault}[case["exc"]]

    @icontract.invariant(lambda self: self.ok)
    class K:
        def __init__(self):
            self.ok = True

        def __getattribute__(self, name):
            if name == "__class__" and armed["on"]:
                raise exc_cls("the proxy is down")
            return object.__getattribute__(self, name)

        def m(self):
            return 1

        async def am(self):
            return 2

        def _break(self):
            object.__setattr__(self, "ok", False)

    def call(bound):
        r = bound()
        if hasattr(r, "send"):
            try:
                r.send(None)
            except StopIteration as e:
                return e.value
        return r

    o = K()
    bound = o.am if case["async"] else o.m        # obtained while the protocol works
    out = []
    for step in case["steps"]:
        try:
            if step == "faulted-call":
                armed["on"] = True
                try:
                    out.append(["ret", call(bound)])
                finally:
                    armed["on"] = False
            elif step == "break":
                o._break()
                out.append(["ret", None])
            else:
                out.append(["ret", call(bound)])
        except icontract.ViolationError:
            out.append(["violation"])
        except BaseException as e:  # noqa: B902
            out.append(["raise", type(e).__name__])
    return {"steps": out}


run_directed = directed.run


def cases(tier, rng):
    for c in directed.condition_raising_type_error_cases():
        yield "directed-condition-raising-type-error", c
    for c in directed.nested_constructor_keeps_outer_marks_cases():
        yield "directed-nested-constructor-keeps-outer-marks", c
    for c in directed.constructor_interrupted_cases():
        yield "directed-constructor-interrupted", c
    for c in directed.reserved_keyword_after_valid_calls_cases():
        yield "directed-reserved-keyword-after-valid-calls", c
    thorough = tier == "thorough"
    for c in directed.rejected_constructions_do_not_accumulate_cases():
        yield "directed-rejected-constructions-do-not-accumulate", c
    for c in directed.closed_from_another_context_cases():
        yield "directed-closed-from-another-context", c
    for c in directed.proxies_and_nested_constructors_cases():
        yield "directed-nested-constructor-exceptions", c
    for c in directed.exception_from_new_cases():
        yield "directed-exception-from-new", c
    for c in directed.interrupt_while_message_is_built_cases():
        yield "directed-interrupt-while-message-is-built", c
    for c in directed.odd_exception_classes_cases():
        yield "directed-odd-exception-classes", c
    for c in directed.cancelled_in_body_cases():
        yield "directed-cancelled-in-body", c
    for a in (False, True):
        for exc in ("Exception", "BaseException"):
            for nf in (1, 2, 3):
                yield "attribute-protocol-fault", {"dom": "attrfault", "async": a, "exc": exc,
                                                   "steps": ["call"] + ["faulted-call"] * nf + ["call", "break", "call"]}
    # invariant wrappers: sequences of operations on instances in which invariants fail at any point,
    # followed by further operations in the same context (sync and async methods)
    for _ in range(6000 if thorough else 800):
        c_ = genre.random_program(rng, nfns=1, ncls=2, max_calls=2, p_false=0.35)
        if genre.cost_within(c_):
            yield "inv-seq", c_
    yield from _ck_cases(tier, rng)


def _ck_cases(tier, rng):
    thorough = tier == "thorough"
    nscen = 1500 if thorough else 160
    scen = []
    for i in range(nscen):
        c = genck.random_case(rng, ans_weights=AW, max_levels=2, max_group=2, max_posts=2, max_snaps=2)
        if rng.random() < 0.3:
            c["inProgress"] = [77]
        # a few coroutine-returning conditions so that await sites exist
        if c["async"]:
            for item in c["cond"]:
                if rng.random() < 0.25 and ckprop.ans_kind(item[1]) == "val":
                    cc = ckprop.contracts_by_id(c)[item[0]][1]
                    if not cc["coroFn"]:
                        item[1] = genck.CORO(item[1])
        scen.append(c)
    mos = common.run_driver(scen)
    for c, mo in zip(scen, mos):
        sites = _sites(mo["trace"])
        by = ckprop.contracts_by_id(c)
        snaps = dict((x["id"], x) for lv in c["levels"] for x in lv["snaps"])
        for si, site in enumerate(sites):
            kind, ident = site
            in_coro = c["async"] and (
                kind in ("awaitcond", "awaitcapture", "body")
                or (kind == "cond" and by[ident][1]["coroFn"])
                or (kind == "capture" and snaps[ident]["coroFn"]))
            kinds = _exc_kinds(in_coro)
            if not thorough:
                kinds = rng.sample(kinds, 4) + ([k for k in kinds if k["id"] >= 9000][:2] if in_coro else [])
            for e in kinds:
                f = inject(c, site, e)
                if f is None:
                    continue
                steps = [f]
                if rng.random() < 0.3 and len(sites) > 1:
                    other = rng.choice(sites)
                    e2 = genck.exc(7100 + rng.randint(0, 6), True) if rng.random() < 0.5 else genck.exc(7600 + rng.randint(0, 4), False)
                    f2 = inject(c, other, e2)
                    if f2 is not None:
                        steps.append(f2)
                steps.append(_probe(c, True))
                steps.append(_probe(c, False))
                yield "inj", {"dom": "c11", "steps": steps, "nfault": len(steps) - 2, "site": [kind, ident], "exc": e,
                              "delivery": "throw" if e["id"] >= 9000 else "raise"}
        # the library's own rejections (reserved names) are outcomes too: state must be restored after them
        if c["kind"] not in ("propget", "propset", "propdel") and rng.random() < 0.5 \
                and any(lv["pre"] or lv["posts"] for lv in c["levels"]):
            f = copy.deepcopy(c)
            if rng.random() < 0.5 or not any(lv["posts"] for lv in c["levels"]):
                genck.set_sig(f, f["sig"] + [{"name": "kw", "kind": "varKw", "default": None}])
                f["kwargs"] = f["kwargs"] + [[rng.choice(["_ARGS", "_KWARGS", "result", "OLD"]), 60]]
            else:
                genck.set_sig(f, f["sig"] + [{"name": rng.choice(["result", "OLD"]), "kind": "posOrKw", "default": 61}])
            p1, p2 = _probe(f, True), _probe(f, False)
            p1["kwargs"], p2["kwargs"] = c["kwargs"], c["kwargs"]
            if f["kwargs"] != c["kwargs"] or True:
                yield "libfault", {"dom": "c11", "steps": [f, p1, p2], "nfault": 1, "site": ["library", None],
                                   "exc": genck.exc(0), "delivery": "raise"}
        # repr faults: only meaningful when a message is built with the default error
        nonrecv = c["args"][1:] if genck.RECV[c["kind"]] else c["args"]
        if any(ev[0] == "msg" for ev in mo["trace"]) and nonrecv and c["args"][-1] != 777:      # (the repr of None cannot fail)
            for e in (genck.exc(7003, True), genck.exc(7501, False)):
                f = copy.deepcopy(c)
                target = c["args"][-1]
                f["reprRaises"] = [[target, e]]
                yield "repr", {"dom": "c11", "steps": [f, _probe(c, True), _probe(c, False)], "nfault": 1,
                               "site": ["repr", target], "exc": e, "delivery": "raise"}


def search_cases(rng, hint, n):
    return list(cases("quick", rng))[:n]


def _model_step(step):
    """The driver's view of a step: a raising repr is a raising message generation iff it is not absorbed."""
    s = dict(step)
    rr = s.pop("reprRaises", None)
    if rr:
        e = rr[0][1]
        if not e["isException"]:
            s = copy.deepcopy(s)
            s["msg"] = [[c, genck.R(e)] for c, _a in s["msg"]]
    return s


def driver_inputs(case):
    if case.get('dom') == 'attrfault':
        return []
    if case.get('dom') == 'reentry':
        return [case]
    return _ck_driver_inputs(case)


def _ck_driver_inputs(case):
    return [{"dom": "checkerseq", "steps": [_model_step(s) for s in case["steps"]]}] + \
           [_model_step(s) for s in case["steps"][case["nfault"]:]]


def run_impl(case):
    if case.get('dom') == 'attrfault':
        return run_attr_fault(case)
    if case.get('dom') == 'reentry':
        return _C10.run_impl(case)
    return _ck_run_impl(case)


def _ck_run_impl(case):
    res = implck.run_seq(case["steps"])
    fresh = [implck.run(s) for s in case["steps"][case["nfault"]:]]
    return {"seq": res, "fresh": fresh}


def model_view(case, mos):
    if case.get('dom') == 'attrfault':
        return {"attrfault": True}
    if case.get('dom') == 'reentry':
        return _C10.model_view(case, mos[0])
    return _ck_model_view(case, mos)


def _ck_model_view(case, mos):
    seq = [implck.model_view(s, m) for s, m in zip(case["steps"], mos[0]["steps"])]
    fresh = [implck.model_view(s, m) for s, m in zip(case["steps"][case["nfault"]:], mos[1:])]
    return {"seq": seq, "fresh": fresh}


def _strip_repr(tr):
    return [ev for ev in tr if ev[0] != "repr"]


def project(case, obs):
    if case.get('dom') == 'attrfault':
        return "untied"
    if case.get('dom') == 'reentry':
        return _C10.project(case, obs)
    return _ck_project(case, obs)


def _ck_project(case, obs):
    out = []
    for o in obs["seq"]:
        if o.get("define", ["ok"]) != ["ok"]:
            out.append("define-failed")
        else:
            out.append([o.get("inprog"), implck.loosen(o["out"]), _strip_repr(o["trace"])])
    return out


def spec(case, mos, io):
    if case.get('dom') == 'attrfault':
        want = []
        for st in case["steps"]:
            if st == "faulted-call":
                want.append(["raise", "RuntimeError" if case["exc"] == "Exception" else "_ProtocolFault"])
            elif st == "break":
                want.append(["ret", None])
            else:
                want.append(["violation"] if "break" in case["steps"][:len(want)] else ["ret", 2 if case["async"] else 1])
        if io["steps"] != want:
            return ["after the attribute protocol of the object faulted inside the library, the outcomes were %s, expected %s "
                    "(the fault surfaces, later calls are checked as in a fresh process)" % (io["steps"], want)]
        return []
    if case.get('dom') == 'reentry':
        return _C10.spec(case, mos[0], io)
    return _ck_spec(case, mos, io)


def _ck_spec(case, mos, io):
    fails = []
    seq = io["seq"]
    if any(o.get("define", ["ok"]) != ["ok"] for o in seq):
        return ["definition raised"]
    init = sorted(case["steps"][0]["inProgress"])
    for i, o in enumerate(seq):
        if "inprog" in o and o["inprog"] != init:
            fails.append("step %d: suspension state %s after the call, %s before" % (i, o["inprog"], init))
    # the injected exception surfaces
    kind, ident = case["site"]
    e = case["exc"]
    o = seq[0]
    step = case["steps"][0]
    by = ckprop.contracts_by_id(step)
    exp = None
    if kind in ("cond", "capture", "body", "errfac", "awaitcond", "awaitcapture"):
        exp = [["raise", ["user", e["id"]]]]
    elif kind == "bool":
        exp = [["raise", ["ValueError", "negateFailed", None, e["id"]]]] if e["isException"] else [["raise", ["user", e["id"]]]]
    elif kind == "msg":
        ek = ckprop.ans_kind(by[ident][1]["err"])
        if ek == "none" and e["isException"]:
            exp = [["raise", ["RuntimeError", ident, e["id"]]]]
        else:
            exp = [["raise", ["user", e["id"]]]]
    elif kind == "repr":
        # either surfaces, or is absorbed and the violation itself is still reported
        exp = [["raise", ["user", e["id"]]], implck.loosen(mos[0]["steps"][0]["out"])] if e["isException"] else [["raise", ["user", e["id"]]]]
        if e["isException"] and o["out"][0] == "raise" and o["out"][1][0] in ("viol",):
            exp.append(o["out"])
    if exp is not None and implck.loosen(o["out"]) not in [implck.loosen(x) for x in exp]:
        fails.append("exception %d injected at %s %s: expected %s, caller got %s" % (e["id"], kind, ident, exp, o["out"]))
    # probes behave as in a fresh process
    nf = case["nfault"]
    for j, fr in enumerate(io["fresh"]):
        pr = seq[nf + j]
        if [pr["trace"], pr["out"]] != [fr["trace"], fr["out"]]:
            fails.append("probe %d after the faulted calls differs from a fresh run: %s %s vs %s %s"
                         % (j, pr["trace"], pr["out"], fr["trace"], fr["out"]))
    return fails


def classify(case, mos, io, fails):
    if case.get('dom') == 'attrfault':
        return "unclassified"
    if case.get('dom') == 'reentry':
        return _C10.classify(case, mos[0], io, fails)
    return _ck_classify(case, mos, io, fails)


def _ck_classify(case, mos, io, fails):
    return "unclassified"


def nontrivial_key(case, mos):
    if case.get('dom') == 'attrfault':
        return repr(case)
    if case.get('dom') == 'reentry':
        return _C10.nontrivial_key(case, mos[0])
    return _ck_nontrivial_key(case, mos)


def _ck_nontrivial_key(case, mos):
    s = case["steps"][0]
    return (ckprop.shape_key(s), tuple(case["site"]), case["exc"]["id"], case["nfault"])


def stats(case, mos, io, dist):
    if case.get('dom') == 'attrfault':
        dist["dom:attrfault"] += 1
        return
    if case.get('dom') == 'reentry':
        return _C10.stats(case, mos[0], io, dist)
    return _ck_stats(case, mos, io, dist)


def _ck_stats(case, mos, io, dist):
    dist["site:" + case["site"][0]] += 1
    dist["delivery:" + case["delivery"]] += 1
    dist["exc:" + ("Exception" if case["exc"]["isException"] else "BaseException")] += 1
    dist["kind:" + case["steps"][0]["kind"]] += 1
    dist["async" if case["steps"][0]["async"] else "sync"] += 1
    dist["faulted_calls:%d" % case["nfault"]] += 1
    dist["preset:%s" % bool(case["steps"][0]["inProgress"])] += 1


def shrink_candidates(case):
    if case.get("dom") == "reentry":
        yield from _C10.shrink_candidates(case)
        return
    if case["nfault"] > 1:
        c = copy.deepcopy(case)
        c["steps"].pop(1)
        c["nfault"] -= 1
        yield c
