"""C04 - inherited contracts combine per Liskov: pre OR-ed, post and invariants AND-ed."""
import metaprop
import genmeta
from metaprop import run_impl, model_view  # noqa: F401
import directed

DESCRIPTION = ("Lean: Props/C04.lean (collapse rules of the namespace pass, chain theorem relating the metaclass model to the "
               "chain reading used by C01/C02, constructor exclusion, weaken-without-base rejection). Tie: introspected lists "
               "of every class/member after every step of real class histories vs the heap model. Oracle: the override-chain "
               "Spec (Spec/Override.lean) computed from the declarations; spec validation: Lean C3 vs cls.__mro__.")
RULE = ("hand-picked shapes {chain, gap, two bases, diamond} x placements of 0/1/2 own preconditions per class x +-post, "
        "invariants with every check_on on base x derived x late decoration, constructors / static / class methods / "
        "properties, duplicate snapshot names; seeded random DAG histories up to 6 classes (9 in the thorough tier) with "
        "multiple inheritance, gaps, non-DBC classes; distinct = canonical history; non-trivial = some class inherits a contract")
PROJECTION = "(per step: creation outcome; per class: MRO, the three invariant lists, per member/accessor the precondition groups, snapshots, postconditions as contract ids)"
ASSUMPTIONS = ["each function object appears in one class namespace", "members added to a class after its creation are not covered"]
NEIGHBOURS = [{"from": "C17", "limit": 400, "tags": ["late-decoration-shapes", "shape"], "why": "what a member inherited stays what its bases declare when another member is decorated after its class exists"},
              {"from": "C18", "tags": ["hist"], "limit": 700, "why": "the effective contracts are enforced on real calls"},
              {"from": "C13", "limit": 400, "why": "groups are tried in the same way on async callables"},
              {"from": "C03", "limit": 400, "why": "inherited invariants guard the members of derived classes"},
              {"from": "C18", "limit": 800, "why": "inherited invariants guard every public member of the class, wherever the member was defined"}]


run_directed = directed.run


def cases(tier, rng):
    for c in directed.post_init_inherits_cases():
        yield "directed-post-init-inherits", c
    for c in directed.abstract_redeclaration_cases():
        yield "directed-abstract-redeclaration", c
    for c in directed.member_attached_later_cases():
        yield "directed-member-attached-later", c
    thorough = tier == "thorough"
    for c in directed.members_from_invariantless_bases_cases():
        yield "directed-members-from-invariantless-bases", c
    for c in genmeta.shapes():
        yield "shape", c
    for _ in range(6000 if thorough else 700):
        yield "rnd", genmeta.random_history(rng, max_classes=9 if thorough else 6)


def search_cases(rng, hint, n):
    for _ in range(n):
        yield "search", genmeta.random_history(rng, max_classes=6)


def project(case, obs):
    return [[s["err"], metaprop.impl_obs_sorted(s["obs"])] for s in obs["steps"]]


def _dnf(groups):
    return None if groups is None else sorted(set(tuple(sorted(set(g))) for g in groups))


def spec(case, mo, io):
    fails = []
    ops = case["ops"]
    for i, (op, ms, is_) in enumerate(zip(ops, mo["steps"], io["steps"])):
        if op["op"] == "class" and ms["err"] != "skipped" and is_["err"] != "skipped":
            rej = ms["specRejects"]
            got = is_["err"]
            # a plain (non-DBC) ancestor that overrides a member its own ancestors provide was never processed by the
            # library: what it "provides" is outside the claim
            prev = dict((c["k"], c) for c in (mo["steps"][i - 1]["obs"] if i > 0 else []))
            declared_ = dict((o["k"], set(kk for kk, _m in o["ns"])) for o in ops if o["op"] == "class")
            ancestors = []
            for b in op["bases"]:
                for a in prev.get(b, {}).get("mro", [b]):
                    if a not in ancestors:
                        ancestors.append(a)
            skip = False
            for key, _m in op["ns"]:
                for anc in ancestors:
                    if anc in prev and not prev[anc]["dbc"] and key in declared_.get(anc, ()) and \
                            any(key in declared_.get(a2, ()) for a2 in prev[anc]["mro"][1:]):
                        skip = True
            if skip:
                continue
            if rej and got is None:
                fails.append("step %d: class %d adds preconditions to a member an ancestor provides without any, but was created" % (i, op["k"]))
            if not rej and got == ["TypeError", "weaken"]:
                fails.append("step %d: class %d rejected although no ancestor provides the member unconditionally" % (i, op["k"]))
    # after the last step: effective contracts of every class vs the Spec
    if not io["steps"]:
        return fails
    # a base decorated with an invariant *after* a subclass was created: outside the claim for that subclass
    late = set()
    for i, (op, ms) in enumerate(zip(ops, mo["steps"])):
        if op["op"] == "inv" and i > 0:
            for c in mo["steps"][i - 1]["obs"]:
                if op["k"] in c["mro"] and c["k"] != op["k"]:
                    late.add(c["k"])
    last_m = dict((c["k"], c) for c in mo["steps"][-1]["obs"])
    last_i = dict((c["k"], c) for c in io["steps"][-1]["obs"])
    for k, ci in last_i.items():
        cm = last_m.get(k)
        if cm is None:
            fails.append("class %d exists in the implementation only" % k)
            continue
        if ci["mro"] != cm["mro"]:
            fails.append("SPEC: Lean C3 MRO %s differs from CPython's %s for class %d" % (cm["mro"], ci["mro"], k))
        if not cm["dbc"]:
            continue
        sm = dict((m[0], m[1] if len(m) > 1 else []) for m in cm["members"])
        declared = dict((o["k"], set(kk for kk, _m in o["ns"])) for o in ops if o["op"] == "class")
        for key, accs in ci["members"]:
            # a plain (non-DBC) class that overrides a member one of its ancestors provides is created behind the
            # library's back: its function never inherits - the chain through it is outside the claim
            unprocessed_override = False
            for pos, anc in enumerate(cm["mro"]):
                if anc in last_m and not last_m[anc]["dbc"] and key in declared.get(anc, ()):
                    if any(key in declared.get(a2, ()) for a2 in last_m[anc]["mro"][1:]):
                        unprocessed_override = True
            if unprocessed_override:
                continue
            for a in accs:
                sa = next((x for x in sm.get(key, []) if x["which"] == a["which"]), None)
                if sa is None:
                    continue
                sp = sa["specPre"]
                got = a["pre"]
                if sp is None:
                    if got:
                        fails.append("class %d member %s[%d]: some ancestor accepts every call, but preconditions %s are demanded" % (k, key, a["which"], got))
                elif _dnf(got) != _dnf(sp):
                    fails.append("class %d member %s[%d]: effective precondition %s, override chain declares %s" % (k, key, a["which"], got, sp))
                if sorted(set(a["posts"])) != sorted(set(sa["specPosts"])):
                    fails.append("class %d member %s[%d]: effective postconditions %s, chain declares %s" % (k, key, a["which"], a["posts"], sa["specPosts"]))
                if sorted(set(x for x in a["snaps"] if x is not None)) != sorted(set(sa["specSnaps"])):
                    fails.append("class %d member %s[%d]: effective snapshots %s, chain declares %s" % (k, key, a["which"], a["snaps"], sa["specSnaps"]))
        want = cm["specInv"]
        tainted = set(a for l in late for a in last_m[l]["mro"]) | late
        if k in tainted or any(a in tainted for a in cm["mro"]):
            continue
        if not all(last_m[a]["dbc"] for a in cm["mro"] if a in last_m):
            continue   # a plain (non-DBC) ancestor: its lists are shared with its plain subclasses (pinned behaviour)
        if sorted(set(ci["inv"])) != sorted(set(c for c, _a, _b in want)):
            fails.append("class %d: invariants %s, declared along the hierarchy %s" % (k, ci["inv"], want))
        if sorted(set(ci["invCall"])) != sorted(set(c for c, call, _b in want if call)):
            fails.append("class %d: invariants on call %s, declared %s" % (k, ci["invCall"], want))
        if sorted(set(ci["invSetattr"])) != sorted(set(c for c, _a, sa_ in want if sa_)):
            fails.append("class %d: invariants on setattr %s, declared %s" % (k, ci["invSetattr"], want))
    return fails


def classify(case, mo, io, fails):
    if any(f.startswith("SPEC:") for f in fails):
        return "spec-validation"
    # the invariant decorator bound an inherited, not yet wrapped member on a decorated class: that copy
    # comes earlier in some subclass's MRO than the class which really overrides the member
    shadow = False
    for c in (mo["steps"][-1]["obs"] if mo["steps"] else []):
        for m in c["members"]:
            for a in (m[1] if len(m) > 1 else []):
                if a["owner"] is not None and a["owner"] != a["provider"]:
                    shadow = True
    if shadow and all("member" in f for f in fails):
        return "invariant-copy-down-shadows-mro"
    if any("some ancestor accepts every call" in f or "adds preconditions to a member an ancestor provides" in f for f in fails):
        return "unconstrained-base-among-several"
    if any("invariants" in f for f in fails):
        return "invariant-list-aliasing"
    return "unclassified"


def nontrivial_key(case, mo):
    if not any(o["op"] == "class" and o["bases"] for o in case["ops"]):
        return None
    return repr([(o["op"], o["f"], o["k"], o["bases"], o["dbc"], [(k, str(m)) for k, m in o["ns"]], o["call"], o["setattr"]) for o in case["ops"]])


def stats(case, mo, io, dist):
    n = sum(1 for o in case["ops"] if o["op"] == "class")
    dist["classes:%d" % n] += 1
    dist["multi_base:%s" % any(len(o["bases"]) > 1 for o in case["ops"])] += 1
    dist["inv_ops:%d" % min(4, sum(1 for o in case["ops"] if o["op"] == "inv"))] += 1
    for s in io["steps"]:
        if s["err"] not in (None, "skipped"):
            dist["err:%s" % (s["err"][1] if isinstance(s["err"], list) else s["err"])] += 1
