"""C03 - invariants are checked around every public operation on a constructed object."""
import itertools

import genre
import implre
import implsel
from props import C10 as _C10
import directed

DESCRIPTION = ("Lean: Props/C03.lean ((a) decision table: which members of a class are guarded and by which invariants, for "
               "every name string and member kind; (b) in the frame semantics no invariant is evaluated during construction, all "
               "are evaluated right after the outermost constructor, a violation before a call blocks the body). Tie + oracle: "
               "(a) real classes with members of every kind and name x every check_on combination and decorator order, each "
               "operation probed for the invariants evaluated around it; (b) programs with classes, constructors calling "
               "super().__init__() at any position, public/private methods, invariants calling methods, run on the real code "
               "and compared with the frame semantics.")
RULE = ("(a) exhaustive: 3x4 check_on combinations for (first, second) invariant x {DBC, plain} x {one class, base+derived "
        "split of the members} x 17 probed operations; (b) seeded random programs with 1-3 classes (chains), 1-2 instances per "
        "class, sequences of constructions and operations; non-trivial (b) = a class with an invariant and >=2 operations")
PROJECTION = "(a) per operation: invariant ids evaluated; (b) per top-level operation: ordered evaluation log and outcome"
EXHAUSTIVE_STREAM = True
ASSUMPTIONS = ["members added to a class after decoration and C-implemented descriptors other than slot wrappers are not covered",
               "a plain (non-DBC, undecorated) subclass of a decorated class is invisible to the library (known finding)"]

COS = [(True, False), (False, True), (True, True), (False, False)]    # (the last: the EMPTY check_on flag - only the constructor checks it)
NAMES = ["pub", "_prot", "__priv", "__len__", "__call__", "__eq__", "__getattr__", "__repr__", "__str__", "prop", "_prot_prop",
         "static", "classm", "wo_prop", "__unm", "__delattr__", "__getitem__", "__contains__", "_odd__", "odd__", "_odd_prop__", "__setattr__"]
KIND = {"_odd__": "function", "odd__": "function", "_odd_prop__": "property", "__delattr__": "function", "__getitem__": "function", "__contains__": "function", "alias_pub": "function", "__radd__": "function", "static0": "staticmethod", "classm0": "classmethod", "apub": "function", "__unm": "function", "pub": "function", "other_pub": "function", "_prot": "function", "__priv": "function", "__len__": "function",
        "__call__": "function", "__eq__": "function", "__getattr__": "function", "__repr__": "function", "__str__": "function",
        "prop": "property", "_prot_prop": "property", "wo_prop": "property", "ro_prop": "property", "ro_prop_setter": "property", "static": "staticmethod", "classm": "classmethod", "__setattr__": "function"}
REALNAME = {"__priv": "_L0__priv"}
NEIGHBOURS = [{"from": "C17", "limit": 500, "why": "the invariants evaluated around an inherited member are those of the class of the instance, whatever was called first"},
              {"from": "C18", "limit": 500, "why": "every invariant listed for a class is enforced on real calls"}]


def sel_cases():
    for a in COS:
        for b in [None] + COS:
            for mode in ("dbc", "plain"):
                for split in (0, 1, 2, 3, 4):
                    for with_setattr in (False, True):
                        names = [n for n in NAMES if with_setattr or n != "__setattr__"]
                        if split == 0:
                            levels = [{"mode": mode, "members": names + ["ro_prop", "static0", "classm0", "apub", "alias_pub", "__radd__"], "invs": [list(a)] + ([list(b)] if b else []), "init": True}]
                        else:
                            cut = 7
                            levels = [{"mode": mode, "members": names[:cut] + ["ro_prop", "static0", "classm0", "apub"], "invs": [list(a)], "init": True},
                                      {"mode": mode, "members": names[cut:] + ["other_pub", "ro_prop_setter"],
                                       "invs": ([list(b)] if b else []) if split == 1 else [], "init": False}]
                            if split == 2 and b:
                                levels[0]["invs"].append(list(b))
                            if split == 3:
                                # the base relies on object.__init__ (its __new__ is hooked), the derived class has a constructor
                                levels[0]["init"], levels[1]["init"] = False, True
                                if b:
                                    levels[0]["invs"].append(list(b))
                                levels[1]["invs"] = []
                            if split == 4:
                                # no class of the hierarchy defines a constructor
                                levels[0]["init"] = False
                                levels[1]["invs"] = [list(b)] if b else []
                        invs = [x for lv in levels for x in lv["invs"]]
                        members = [{"name": n, "kind": KIND[n]} for lv in levels for n in lv["members"]]
                        yield {"dom": "select", "levels": levels, "invs": [{"call": c, "setattr": s} for c, s in invs],
                               "members": members}
                        if split in (0, 1, 3):
                            # the constructor and __setattr__ are aliases of functions with other names
                            yield {"dom": "select", "levels": levels, "invs": [{"call": c, "setattr": s} for c, s in invs],
                                   "members": members, "aliases": True}
                        if split == 4 and not with_setattr:
                            for bb in ("list", "dict", "Exception"):
                                # built-in bases without a Python-level constructor anywhere
                                yield {"dom": "select", "levels": levels, "invs": [{"call": c, "setattr": s} for c, s in invs],
                                       "members": members, "builtin_base": bb}


run_directed = directed.run


def cases(tier, rng):
    for c in directed.descriptor_members_cases():
        yield "directed-descriptor-members", c
    for c in directed.wrapped_async_public_method_cases():
        yield "directed-wrapped-async-public-method", c
    for c in directed.odd_member_names_cases():
        yield "directed-odd-member-names", c
    thorough = tier == "thorough"
    for c in directed.one_function_in_two_roles_cases():
        yield "directed-one-function-in-two-roles", c
    for c in directed.members_from_invariantless_bases_cases():
        yield "directed-members-from-invariantless-bases", c
    for c in directed.keyword_named_self_cases():
        yield "directed-keyword-named-self", c
    for c in directed.member_added_between_invariants_cases():
        yield "directed-member-added-between-invariants", c
    for c in sel_cases():
        yield "select", c
    for _ in range(8000 if thorough else 1200):
        c_ = genre.random_program(rng, nfns=1, ncls=3, max_calls=2, p_false=0.2)
        if genre.cost_within(c_):
            yield "ops", c_
    for _ in range(2000 if thorough else 300):
        c_ = genre.random_program(rng, nfns=1, ncls=3, max_calls=2, p_false=0.2, plain_sub=True)
        if genre.cost_within(c_):
            yield "plain", c_


def search_cases(rng, hint, n):
    for _ in range(n):
        c_ = genre.random_program(rng, nfns=1, ncls=3, max_calls=2, p_false=0.2)
        if genre.cost_within(c_):
            yield "search", c_


def run_impl(case):
    if case["dom"] == "select":
        return implsel.run(case)
    return implre.run(case)


def _processed(case, name):
    lv = case["levels"]
    j = max((j for j, l in enumerate(lv) if name in l["members"]), default=0)
    return any(lv[k]["mode"] == "dbc" or lv[k]["invs"] for k in range(j, len(lv)))


def _ctor_processed(case):
    lv = case["levels"]
    j = max((j for j, l in enumerate(lv) if l.get("init", True)), default=0)
    return any(lv[k]["mode"] == "dbc" or lv[k]["invs"] for k in range(j, len(lv)))


def model_view(case, mo):
    if case["dom"] != "select":
        return _C10.model_view(case, mo)
    members = set(m["name"] for m in case["members"])
    g = dict((m[0], m) for m in mo["members"])
    ops = {}
    sa_assign = mo["assign"]
    setattr_guard = (g["__setattr__"][1] == "onSetattr" and _processed(case, "__setattr__")) if "__setattr__" in members \
        else sa_assign[0] == "onSetattr"
    sa_ids = g["__setattr__"][2] if "__setattr__" in members else sa_assign[1]
    for n in members:
        _n, guard, ids, _must = g[n]
        if n == "__setattr__":
            ops[n] = (ids + ids) if setattr_guard else []
        elif guard == "onCall" and _processed(case, n):
            ops[n] = ids + ids
        else:
            ops[n] = []
    if "prop" in members:
        if setattr_guard:
            ops["prop_set"] = sa_ids + sa_ids
        else:
            ops["prop_set"] = ops["prop"]
    for n in ("wo_prop", "ro_prop_setter"):
        if n in members and setattr_guard:
            ops[n] = sa_ids + sa_ids
    if "__setattr__" not in members:
        ops["assign"] = (sa_assign[1] + sa_assign[1]) if sa_assign[0] == "onSetattr" else []
    # (a constructor defined by a plain, undecorated subclass is invisible to the library: nothing is evaluated)
    return {"define": ["ok"], "ops": ops, "construct": list(range(len(case["invs"]))) if _ctor_processed(case) else []}


def project(case, obs):
    if case["dom"] != "select":
        return _C10.project(case, obs)
    if obs.get("define") != ["ok"]:
        return ["define-failed", obs.get("define")]
    return [obs["construct"], sorted(obs["ops"].items())]


def spec(case, mo, io):
    if case["dom"] != "select":
        return _C10.spec(case, mo, io)
    fails = []
    if io["define"] != ["ok"]:
        return ["definition raised %s" % (io["define"],)]
    invs = [(d["call"], d["setattr"]) for d in case["invs"]]
    call = [i for i, (c, _s) in enumerate(invs) if c]
    sa = [i for i, (_c, s) in enumerate(invs) if s]
    if io["construct"] != list(range(len(invs))):
        ctor_processed = _ctor_processed(case)
        fails.append("%safter the constructor the invariants evaluated were %s, expected all of %s"
                     % ("" if ctor_processed else "PLAIN: constructor of a plain undecorated subclass: ", io["construct"], list(range(len(invs)))))
    members = set(m["name"] for m in case["members"])
    setattr_guarded = bool(sa) and (_processed(case, "__setattr__") if "__setattr__" in members else True)
    for n, got in sorted(io["ops"].items()):
        src = "prop" if n == "prop_set" else n
        if n in ("prop_set", "wo_prop", "ro_prop_setter") and setattr_guarded:
            exp = sa + sa
        elif n in ("pub", "other_pub", "__len__", "__call__", "__eq__", "__getattr__", "__str__", "prop", "prop_set", "wo_prop",
                   "ro_prop", "ro_prop_setter", "apub", "alias_pub", "__radd__", "__delattr__", "__getitem__", "__contains__", "odd__"):
            exp = (call + call) if _processed(case, src) else None
        elif n == "__setattr__":
            exp = (sa + sa) if _processed(case, n) else None
        elif n == "assign":
            exp = sa + sa
        else:
            exp = []
        if exp is None:
            if got:
                continue
            fails.append("PLAIN: operation %s of a plain undecorated subclass is not guarded" % n)
            continue
        if got != exp:
            fails.append("operation %s: invariants evaluated %s, expected %s (invariants %s)" % (n, got, exp, invs))
    return fails


def classify(case, mo, io, fails):
    if case["dom"] == "select":
        if all(f.startswith("PLAIN:") for f in fails):
            return "plain-subclass-not-processed"
        return "unclassified"
    if "plain" in case.get("clsMode", []):
        # a plain subclass constructor around a decorated base constructor is invisible to the library
        bases = case["bases"]
        modes = case["clsMode"]
        if any(modes[c] == "plain" and bases[c] is not None for c in range(len(modes))):
            return "plain-subclass-not-processed"
    return "unclassified"


def nontrivial_key(case, mo):
    if case["dom"] == "select":
        return repr((case["levels"],))
    p = case["prog"]
    if not any(c["invs"] for c in p["classes"]) or len(case["top"]) < 2:
        return None
    return repr((case["prog"], case["top"], case.get("clsMode")))


def stats(case, mo, io, dist):
    dist["dom:" + case["dom"]] += 1
    if case["dom"] == "select":
        dist["levels:%d" % len(case["levels"])] += 1
        dist["mode:" + case["levels"][0]["mode"]] += 1
    else:
        _C10.stats(case, mo, io, dist)
        dist["super_pos:%s" % sorted(set(
            ("first" if a == 0 else ("last" if a == len(c["init"]["actions"]) - 1 else "middle"))
            for c in case["prog"]["classes"] for a, act in enumerate(c["init"]["actions"]) if "superInit" in act))] += 1


shrink_candidates = _C10.shrink_candidates
