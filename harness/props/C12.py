"""C12 - concurrent callers never disable each other's checks."""
import itertools

import implconc
import directed

DESCRIPTION = ("Lean: Props/C12.lean (for all task sets, programs and ALL schedules, with one binding per context the verdicts a "
               "task produces are those of its calls alone; no call takes the unchecked path; the shared-set discipline let a "
               "violating call return). Tie + oracle: 2-3 tasks x 1-2 calls x <=2 suspension points in condition/body, stepped "
               "deterministically on the real code in the order of the schedule: async tasks driven with "
               "context.run(coro.send) as asyncio does, real threads with an Event baton; contexts fresh / copied before / "
               "copied after the parent's first checked call / thread inside a copied context (to_thread style).")
RULE = ("bounded-exhaustive: 2 tasks x 1 call each x truth values x (0..2 condition yields, 0..1 body yields) x all "
        "interleavings of their steps x 4 inheritance modes x {async, thread}; seeded random: 2-3 tasks, 1-2 calls, random "
        "schedules; distinct = (mode, inheritance, programs, schedule); non-trivial = two calls of the same function overlap")
PROJECTION = "(verdict of every call of every task, in order)"
ASSUMPTIONS = ["preemption inside the wrapper's own bytecode (between get / in / set) is explored in the model only; the "
               "implementation is stepped at user-code suspension points",
               "a context copied while the parent is inside a check (spawn inside a contract evaluation) is outside the property's modes",
               "free-threaded builds are out of scope"]
WORKERS = 1
INHERIT = ["fresh", "copy_before", "copy_after"]
NEIGHBOURS = [{"from": "C03", "limit": 400, "why": "in-progress marking of instances in fresh contexts"},
              {"from": "C16", "limit": 400, "why": "verdicts do not depend on earlier calls re-ordering shared lists"},
              {"from": "C11", "limit": 400, "why": "a cancelled call leaves no mark behind in its context"},
              {"from": "C10", "limit": 500, "why": "the marks a call evaluates its contracts under are its own, not those of another activation of the same function"}]


def call(f, t, cy, by):
    return {"f": f, "preTruthy": t, "condYields": cy, "bodyYields": by}


def mk(mode, inherit, programs, sched):
    n = len(programs)
    return {"dom": "conc", "discipline": "perContext", "sets": [[] for _ in range(n)],
            "tasks": [{"ctx": i, "calls": p} for i, p in enumerate(programs)], "sched": sched, "mode": mode, "inherit": inherit}


def _interleavings(a, b):
    """all merges of a copies of 0 and b copies of 1"""
    for pos in itertools.combinations(range(a + b), a):
        s = [1] * (a + b)
        for p in pos:
            s[p] = 0
        yield s


run_directed = directed.run


def cases(tier, rng):
    thorough = tier == "thorough"
    for c in directed.invariants_while_another_thread_reports_cases():
        yield "directed-invariants-while-another-thread-reports", c
    for c in directed.concurrent_constructors_without_init_cases():
        yield "directed-concurrent-constructors-without-init", c
    for c in directed.call_while_constructor_runs_cases():
        yield "directed-call-while-constructor-runs", c
    for c in directed.cancelled_in_body_cases():
        yield "directed-cancelled-in-body", c
    for mode in ("async", "thread"):
        for inh in (["fresh", "fresh"], ["copy_before", "copy_before"], ["copy_after", "copy_after"], ["copy_after", "fresh"]):
            for t0, t1 in itertools.product([True, False], repeat=2):
                for cy0, cy1 in itertools.product(range(0, 3 if thorough else 2), repeat=2):
                    for by in (0, 1):
                        p0, p1 = [call(0, t0, cy0, by)], [call(0, t1, cy1, 0)]
                        n0, n1 = cy0 + by + 1, cy1 + 1
                        for s in _interleavings(n0, n1):
                            if mode == "thread" and rng.random() < (0.0 if thorough else 0.6):
                                continue
                            yield "exh", mk(mode, inh, [p0, p1], s)
                            if (mode == "thread" or (cy0 == 0 and cy1 == 0)) and rng.random() < 0.5:
                                # the same shape as public-method calls on one object with an invariant
                                c = mk(mode, inh, [p0, [call(0, t1, cy1, 1)]], s + [1])
                                c["asMethod"] = True
                                yield "exh-methods", c
    # a task spawned (context copied) while its parent is suspended in the BODY of the function: the function is not
    # being checked at that moment, so the child's calls of it are checked like anybody's
    for t0, t1 in itertools.product([True, False], repeat=2):
        for by in (1, 2):
            for cy1 in (0, 1):
                for extra in ([], [0], [0, 0]):
                    p0, p1 = [call(0, True, 0, by), call(0, t0, 0, 0)], [call(0, t1, cy1, 1)]
                    yield "spawn-in-body", mk("async", ["fresh", "spawn_in_body:0"], [p0, p1], [0] + extra[:by - 1] + [1, 1, 0, 1, 0, 1])
    for _ in range(3000 if thorough else 400):
        mode = rng.choice(["async", "async", "thread"])
        n = rng.randint(2, 3)
        inh = [rng.choice(INHERIT) for _ in range(n)]
        progs = [[call(rng.randint(0, 1), rng.random() < 0.5, rng.randint(0, 2), rng.randint(0, 1)) for _ in range(rng.randint(1, 2))]
                 for _ in range(n)]
        sched = [rng.randrange(n) for _ in range(rng.randint(6, 18))]
        c = mk(mode, inh, progs, sched)
        if rng.random() < 0.35:
            c["asMethod"] = True
            if mode == "async":
                for t in c["tasks"]:
                    for sp in t["calls"]:
                        sp["condYields"] = 0
        yield "rnd-methods" if c.get("asMethod") else "rnd", c


def search_cases(rng, hint, n):
    return list(cases("quick", rng))[-n:]


def run_impl(case):
    return implconc.run(case)


def model_view(case, mo):
    # after the schedule the implementation lets every task finish alone; under the per-context discipline the
    # model's remaining verdicts are the expected ones (C12_completes_with_expected_verdicts)
    return {"verdicts": [v + e[len(v):] for v, e in zip(mo["verdicts"], mo["expected"])]}


def project(case, obs):
    # the model has run the schedule only; the implementation ran every task to completion afterwards
    return obs["verdicts"]


def _prefix_project(case, mo, io):
    return [io["verdicts"][i][:len(v)] for i, v in enumerate(mo["verdicts"])]


def spec(case, mo, io):
    fails = []
    for i, (got, exp) in enumerate(zip(io["verdicts"], mo["expected"])):
        if got != exp:
            fails.append("task %d: verdicts %s, its calls alone give %s (schedule %s, inheritance %s, %s)"
                         % (i, got, exp, case["sched"], case["inherit"], case["mode"]))
    return fails


def classify(case, mo, io, fails):
    return "unclassified"


def nontrivial_key(case, mo):
    fs = [c["f"] for t in case["tasks"] for c in t["calls"]]
    if len(fs) == len(set(fs)):
        return None
    return repr((case["mode"], case["inherit"], case["tasks"], case["sched"], case.get("asMethod", False)))


def stats(case, mo, io, dist):
    dist["mode:" + case["mode"]] += 1
    dist["inherit:" + ",".join(case["inherit"])] += 1
    dist["tasks:%d" % len(case["tasks"])] += 1
    dist["sched_len:%d" % len(case["sched"])] += 1
