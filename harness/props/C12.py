"""C12 - concurrent callers never disable each other's checks."""
import itertools

import implconc
import directed

DESCRIPTION = ("Lean: Props/C12.lean (for all task sets, programs of calls through the function wrapper (preconditions - body - "
               "postconditions), the public-method wrapper (invariants - body - invariants) and the constructor wrapper (body - "
               "invariants) on shared functions and shared instances, and ALL schedules of runs and task creations - a new task in "
               "a copy of another task's current context, or a plain thread - with one binding per context the verdicts a task "
               "produces are those of its calls alone and no call takes the unchecked path, provided contexts are copied outside the "
               "evaluations they would disable; from the start of a process every copy made between two calls or in a function's body "
               "is such a copy; a copy made inside a method's body inherits the mark (witness); the shared-set discipline let a "
               "violating call return). Tie + oracle: 1-3 tasks x 1-2 calls of the three kinds x <=2 suspension points in the "
               "contracts before the body / the body / the contracts after it, 0-2 tasks created by the schedule, stepped "
               "deterministically on the real code in the order of the schedule: async tasks driven with context.run(coro.send) as "
               "asyncio does, real threads with an Event baton; contexts fresh / copied before / copied after the parent's first "
               "checked call / copied at a point of the schedule (create_task / to_thread style).")
RULE = ("bounded-exhaustive: 2 tasks x 1 call each x truth values x (0..2 condition yields, 0..1 body yields) x all "
        "interleavings of their steps x 4 inheritance modes x {async, thread}; 2 tasks x the three kinds of wrapper x truth of "
        "the contracts after the body x suspension points x sampled interleavings; one task whose context is copied (or a plain "
        "thread started) after each of its steps, for every kind of parent and child call; seeded random: 2-3 tasks, 1-2 calls of "
        "random kinds, random schedules with 0-2 creations; distinct = (mode, inheritance, programs, schedule); non-trivial = two "
        "calls on the same function / instance")
PROJECTION = "(verdict of every call of every task - created ones too - in order: returned / violation / postViolation)"
ASSUMPTIONS = ["preemption inside the wrapper's own bytecode (between get / in / set) is explored in the model only; the "
               "implementation is stepped at user-code suspension points",
               "a context copied INSIDE an evaluation it disables (a task created while its parent is evaluating the contracts of "
               "the function, or is inside a public method / the constructor of the instance, that the new task calls) is outside "
               "the property's modes: it is the hypothesis `safeOps` of the theorems; such schedules are generated, the model "
               "predicts the unchecked calls and the implementation has to agree, the oracle does not judge them",
               "invariants and constructors cannot await: their suspension points are exercised with threads only",
               "free-threaded builds are out of scope"]
WORKERS = 1
INHERIT = ["fresh", "copy_before", "copy_after"]
NEIGHBOURS = [{"from": "C03", "limit": 400, "why": "in-progress marking of instances in fresh contexts"},
              {"from": "C16", "limit": 400, "why": "verdicts do not depend on earlier calls re-ordering shared lists"},
              {"from": "C11", "limit": 400, "why": "a cancelled call leaves no mark behind in its context"},
              {"from": "C10", "limit": 500, "why": "the marks a call evaluates its contracts under are its own, not those of another activation of the same function"}]


def call(f, t, cy, by, kind="function", post=True, py=0):
    return {"f": f, "preTruthy": t, "condYields": cy, "bodyYields": by, "kind": kind, "postTruthy": post, "postYields": py}


def _steps(c):
    return c["condYields"] + c["bodyYields"] + c.get("postYields", 0) + 2


def mk(mode, inherit, programs, sched):
    n = len(programs)
    progs = list(programs) + [op["calls"] for op in sched if isinstance(op, dict)]
    # after the schedule every task (created ones too) runs to completion, one after the other: the model and the
    # implementation both finish every call, whatever the schedule left in flight
    tail = [i for i, p in enumerate(progs) for _ in range(sum(_steps(c) for c in p) + 1)]
    return {"dom": "conc", "discipline": "perContext", "sets": [[] for _ in range(n)],
            "tasks": [{"ctx": i, "calls": p} for i, p in enumerate(programs)], "sched": list(sched) + tail, "mode": mode,
            "inherit": inherit, "given": len(sched)}


def _interleavings(a, b):
    """all merges of a copies of 0 and b copies of 1"""
    for pos in itertools.combinations(range(a + b), a):
        s = [1] * (a + b)
        for p in pos:
            s[p] = 0
        yield s


run_directed = directed.run


def cases(tier, rng):
    for c in directed.first_calls_at_the_same_moment_cases():
        yield "directed-first-calls-at-the-same-moment", c
    for c in directed.base_call_while_override_runs_cases():
        yield "directed-base-call-while-override-runs", c
    thorough = tier == "thorough"
    for c in directed.invariants_while_another_thread_reports_cases():
        yield "directed-invariants-while-another-thread-reports", c
    for c in directed.concurrent_constructors_without_init_cases():
        yield "directed-concurrent-constructors-without-init", c
    for c in directed.call_while_constructor_runs_cases():
        yield "directed-call-while-constructor-runs", c
    for c in directed.cancelled_in_body_cases():
        yield "directed-cancelled-in-body", c
    for mode in ("async", "thread"):
        for inh in (["fresh", "fresh"], ["copy_before", "copy_before"], ["copy_after", "copy_after"], ["copy_after", "fresh"]):
            for t0, t1 in itertools.product([True, False], repeat=2):
                for cy0, cy1 in itertools.product(range(0, 3 if thorough else 2), repeat=2):
                    for by in (0, 1):
                        p0, p1 = [call(0, t0, cy0, by)], [call(0, t1, cy1, 0)]
                        n0, n1 = cy0 + by + 1, cy1 + 1
                        for s in _interleavings(n0, n1):
                            if mode == "thread" and rng.random() < (0.0 if thorough else 0.6):
                                continue
                            yield "exh", mk(mode, inh, [p0, p1], s)
                            if (mode == "thread" or (cy0 == 0 and cy1 == 0)) and rng.random() < 0.5:
                                # the same shape as public-method calls on one object with an invariant
                                yield "exh-methods", mk(mode, inh, [[call(10, t0, cy0, by, "method")], [call(10, t1, cy1, 1, "method")]], s + [1])
    # the three wrappers with contracts AFTER the body, two tasks on one function / one instance, all interleavings
    for mode in ("async", "thread"):
        for k0, k1 in (("function", "function"), ("method", "method"), ("ctor", "method"), ("method", "ctor"), ("ctor", "ctor")):
            for post0, post1, pre1 in itertools.product([True, False], repeat=3):
                for py0, by0, py1 in itertools.product((0, 1), repeat=3):
                    def shape(kind, pre, by, post, py):
                        if kind == "function":
                            return call(0, pre, 0, by, kind, post, py)
                        # invariants cannot await, constructors cannot either: their suspension points exist for threads only
                        if mode == "async":
                            return call(10, pre, 0, by if kind == "method" else 0, kind, post, 0)
                        return call(10, pre, 0, by, kind, post, py)
                    c0, c1 = shape(k0, True, by0, post0, py0), shape(k1, pre1, 1, post1, py1)
                    n0, n1 = _steps(c0) - 1, _steps(c1) - 1
                    for s in _interleavings(n0, n1):
                        if rng.random() < (0.5 if thorough else 0.12):
                            yield "exh-post-" + k0 + "-" + k1, mk(mode, ["copy_after", rng.choice(INHERIT)], [[c0], [c1]], s)
    # tasks CREATED by the schedule: the context of task 0 is copied at every point of its program - between its calls,
    # inside the body of a function (safe: the mark is lifted), inside the evaluation of contracts or the body of a
    # method (the copy inherits the mark: outside the property's modes, the model still has to predict the outcome)
    for mode in ("async", "thread"):
        for kind in ("function", "method", "ctor"):
            for childkind in ("function", "method", "ctor"):
                if (kind == "function") != (childkind == "function"):
                    continue
                for post in (True, False):
                    key = 0 if kind == "function" else 10
                    yields = mode == "thread" or kind == "function"
                    p0 = [call(key, True, 1 if yields else 0, 1 if (kind != "ctor" or mode == "thread") else 0, kind, True, 1 if yields else 0),
                          call(key, True, 0, 0, "function" if kind == "function" else "method", True, 0)]
                    child = [call(key, post or kind == "ctor" or childkind == "ctor", 0, 1 if (childkind != "ctor" or mode == "thread") else 0, childkind, post, 0)]
                    total = sum(_steps(c) - 1 for c in p0)
                    for at in range(total + 1):
                        how = rng.choice(["fork", "fork", "thread"]) if at % 2 else "fork"
                        op = {"fork": 0, "calls": child} if how == "fork" else {"thread": True, "calls": child}
                        rest = [rng.choice([0, 1]) for _ in range(rng.randint(0, 5))]
                        yield "created-%s-%s" % (kind, how), mk(mode, ["fresh" if at % 3 else "copy_after"], [p0], [0] * at + [op, 1] + rest)
    # a task spawned (context copied) while its parent is suspended in the BODY of the function: the function is not
    # being checked at that moment, so the child's calls of it are checked like anybody's
    for t0, t1 in itertools.product([True, False], repeat=2):
        for by in (1, 2):
            for cy1 in (0, 1):
                for extra in ([], [0], [0, 0]):
                    p0, p1 = [call(0, True, 0, by), call(0, t0, 0, 0)], [call(0, t1, cy1, 1)]
                    yield "spawn-in-body", mk("async", ["fresh", "spawn_in_body:0"], [p0, p1], [0] + extra[:by - 1] + [1, 1, 0, 1, 0, 1])
    for _ in range(3000 if thorough else 400):
        mode = rng.choice(["async", "async", "thread"])
        n = rng.randint(2, 3)
        inh = [rng.choice(INHERIT) for _ in range(n)]

        def rnd_call():
            kind = rng.choice(["function", "function", "method", "method", "ctor"])
            if kind == "function":
                return call(rng.randint(0, 1), rng.random() < 0.6, rng.randint(0, 2), rng.randint(0, 1), kind, rng.random() < 0.6, rng.randint(0, 1))
            sync_only = 0 if mode == "async" else 1
            return call(10 + rng.randint(0, 1), rng.random() < 0.7, rng.randint(0, sync_only), rng.randint(0, 1) if (kind == "method" or sync_only) else 0,
                        kind, rng.random() < 0.6, rng.randint(0, sync_only))

        progs = [[rnd_call() for _ in range(rng.randint(1, 2))] for _ in range(n)]
        sched = []
        tasks = n
        for _ in range(rng.randint(6, 18)):
            if rng.random() < 0.12 and tasks < 5:
                calls = [rnd_call() for _ in range(rng.randint(1, 2))]
                sched.append({"fork": rng.randrange(tasks), "calls": calls} if rng.random() < 0.75 else {"thread": True, "calls": calls})
                tasks += 1
            else:
                sched.append(rng.randrange(tasks))
        yield ("rnd-created" if tasks > n else "rnd"), mk(mode, inh, progs, sched)


def search_cases(rng, hint, n):
    return list(cases("quick", rng))[-n:]


def run_impl(case):
    return implconc.run(case)


def model_view(case, mo):
    # the schedule ends with a tail that runs every task to completion: the model finishes every call itself
    return {"verdicts": mo["verdicts"]}


def project(case, obs):
    return obs["verdicts"]


def spec(case, mo, io):
    if not mo.get("safe", True):
        # a context was copied inside an evaluation it disables (e.g. in the body of a public method of the instance the
        # new task calls): outside the property's modes - the tie still compares the model's prediction
        return []
    fails = []
    for i, (got, exp) in enumerate(zip(io["verdicts"], mo["expected"])):
        if got != exp:
            fails.append("task %d: verdicts %s, its calls alone give %s (schedule %s, inheritance %s, %s)"
                         % (i, got, exp, case["sched"][:case.get("given", len(case["sched"]))], case["inherit"], case["mode"]))
    if len(io["verdicts"]) != len(mo["expected"]):
        fails.append("%d tasks ran, the schedule has %d" % (len(io["verdicts"]), len(mo["expected"])))
    return fails


def classify(case, mo, io, fails):
    return "unclassified"


def nontrivial_key(case, mo):
    fs = [c["f"] for t in case["tasks"] for c in t["calls"]] + [c["f"] for op in case["sched"] if isinstance(op, dict) for c in op["calls"]]
    if len(fs) == len(set(fs)):
        return None
    return repr((case["mode"], case["inherit"], case["tasks"], case["sched"]))


def stats(case, mo, io, dist):
    dist["mode:" + case["mode"]] += 1
    dist["inherit:" + ",".join(case["inherit"])] += 1
    dist["tasks:%d" % len(case["tasks"])] += 1
    dist["sched_len:%d" % case.get("given", len(case["sched"]))] += 1
    for t in case["tasks"]:
        for c in t["calls"]:
            dist["kind:" + c.get("kind", "function")] += 1
    for op in case["sched"]:
        if isinstance(op, dict):
            dist["created:" + ("copy" if "fork" in op else "thread")] += 1
    dist["copies_outside_checks:%s" % mo.get("safe", True)] += 1
    if not mo.get("safe", True) and mo["verdicts"] != mo["expected"]:
        dist["copy_inside_a_check_changed_a_verdict"] += 1
