"""C06 - every value shown in a violation message is the value Python computes."""
import exprprop
import implexpr

DESCRIPTION = ("Lean: Props/C06.lean (for every well-formed condition, every operator/call/attribute/subscript/truth semantics and "
               "every environment in which Python evaluates it: the re-evaluator returns Python's value and records, for the nodes "
               "outside comprehension scopes, exactly Python's log - same nodes, values, order; lines come only from recorded "
               "values). Tie: the model's visit + collectLines + reprPairs against the real message lines and the real "
               "recomputed_values, and the model's pyEval against an AST-instrumented CPython evaluation, on the modelled "
               "fragment. Oracle on the implementation for all supported forms (f-strings, walrus, slices, dict/set displays, "
               "starred, keyword calls, all()/any() generators, nested comprehensions): every message line is a sub-expression "
               "Python evaluated with a_repr of its value (or an argument), all() examples are the first falsifying assignment, "
               "every representable argument and every evaluated name/attribute/call/subscript/comprehension has a line.")
RULE = ("seeded type-directed random conditions (depth 2-3, all supported forms, 7 decorator layouts, argument/closure/global "
        "name collisions) made falsy by rejection sampling under CPython + the corner-form list genexpr.SPECIAL; distinct = "
        "(set of AST node kinds, layout)")
PROJECTION = "(ViolationError?, [(normalised line key, rendered value)], recomputed node -> rendered value, Python's evaluation log) on the modelled fragment"
ASSUMPTIONS = ["reprlib / the user's a_repr is a function of the value (A-repr)",
               "conditions are side-effect free; CPython's evaluation order is what the AST instrumentation observes",
               "asttokens source-text recovery is exercised (line keys are compared after parsing), not modelled"]
WORKERS = None
NEIGHBOURS = [{"from": "C13", "limit": 400, "why": "messages of async callables list the same values"},
              {"from": "C09", "limit": 400, "why": "values available to messages and error factories"},
              {"from": "C07", "limit": 500, "why": "the values are collected without disturbing the violation itself"}]


SHADOWING = [
    (["x"], ["x", "y"], "x > y", {"x": 5, "y": 1}),
    (["x"], ["x", "GL"], "x > GL", {"x": 5, "GL": -100}),
    (["x", "s"], ["x", "s", "cl"], "len(s) > cl", {"x": 5, "s": "abc", "cl": "zz"}),
    (["x"], ["x", "y", "cl"], "x + cl > y", {"x": 5, "y": 0, "cl": 0}),
    (["xs"], ["xs", "y"], "all(e > y for e in xs)", {"xs": [1, 2], "y": 0}),
    (["xs"], ["xs", "GL", "y"], "[e for e in xs if e > GL] == xs and y < 0", {"xs": [1, 2], "GL": 0, "y": -5}),
    (["x"], ["y", "x"], "abs(y) < x", {"x": 5, "y": 1}),
]


def shadowing_cases(rng, n):
    """the function's parameter `y` / `GL` / `cl` is NOT a parameter of the condition: the condition's `y` is the global,
    its `cl` the closure variable"""
    for params, fparams, expr, env in SHADOWING:
        for layout in ("oneline", "multiline"):
            for kind in ("require", "ensure"):
                yield {"dom": "expr", "expr": expr, "env": dict(env), "params": list(params), "fparams": list(fparams), "layout": layout, "kind": kind}
    made = 0
    for _ in range(n * 6):
        if made >= n:
            break
        hidden = rng.sample(["y", "GL", "cl"], rng.randint(1, 2))
        params = [p for p in ["x", "y", "xs", "s", "o", "n"] if p not in hidden]
        c = exprprop.make_case(rng, depth=2, features=exprprop.MODEL_FEATURES, params=params, fparams=params + hidden)
        if not c or not any(h in c["expr"] for h in hidden):
            continue
        for h in hidden:
            c["env"][h] = rng.choice([3, -4, 2000, "v", [1, 2], None])
        # keep it when PYTHON (condition parameters, closure, globals) still evaluates it falsy
        _env, names = exprprop.names_of(c)
        try:
            if eval(c["expr"], dict(names)):
                continue
        except Exception:  # noqa: B902
            continue
        made += 1
        yield c


OWN_DEFAULTS = [
    (["x"], {"lower": 0}, "lower <= x", {"x": -5}),
    (["x"], {"lower": 0}, "x >= lower and len(str(lower)) > 0", {"x": -5}),
    (["x"], {"lo": 1, "hi": 3}, "lo <= x <= hi", {"x": 7}),
    (["xs"], {"limit": 1}, "len(xs) <= limit or xs[limit] is None", {"xs": [1, 2, 3]}),
    (["xs"], {"k": 2}, "all(e > k for e in xs)", {"xs": [3, 1]}),
    (["s"], {"sep": "-"}, "sep in s", {"s": "ab"}),
    (["x"], {"y": 3}, "x > y", {"x": 1}),
]


def own_default_cases(rng, n):
    for params, defaults, expr, env in OWN_DEFAULTS:
        for layout in ("oneline", "multiline"):
            for kind in ("require", "ensure"):
                yield {"dom": "expr", "expr": expr, "env": dict(env), "params": list(params), "cond_defaults": dict(defaults),
                       "layout": layout, "kind": kind}
    made = 0
    for _ in range(n * 6):
        if made >= n:
            break
        moved = rng.sample(["y", "n", "s"], rng.randint(1, 2))
        params = [p for p in ["x", "y", "xs", "s", "o", "n"] if p not in moved]
        c = exprprop.make_case(rng, depth=2, features=exprprop.MODEL_FEATURES, params=params)
        if not c or not any(m in exprprop.used_names(c["expr"]) for m in moved):
            continue
        if not all(isinstance(c["env"].get(m), (int, str, type(None))) for m in moved):
            continue
        c["cond_defaults"] = dict((m, c["env"][m]) for m in moved)
        made += 1
        yield c


def cases(tier, rng):
    thorough = tier == "thorough"
    for c in exprprop.special_cases(rng):
        yield "special", c
    for _ in range(6000 if thorough else 700):
        c = exprprop.make_case(rng, depth=rng.choice([2, 3]), features=exprprop.MODEL_FEATURES, params=["x", "y", "xs", "s", "o", "n"])
        if c:
            yield "modelled", c
    for _ in range(8000 if thorough else 900):
        c = exprprop.make_case(rng, depth=rng.choice([2, 3, 3]), features=exprprop.ALL_FEATURES)
        if c:
            yield "all-forms", c
    for _ in range(1500 if thorough else 200):
        kind = rng.choice(["require", "ensure", "invariant"])
        feats = exprprop.ALL_FEATURES if kind != "invariant" else dict(exprprop.ALL_FEATURES, walrus=False)
        c = exprprop.make_case(rng, depth=2, features=feats, kind=kind, a_repr={"maxlist": 2, "maxstring": 8, "maxother": 8, "maxlevel": 2})
        if c:
            yield "custom-repr", c


    # the function has parameters the condition does not take (also underscore-prefixed ones, and keywords swallowed by **kw)
    for _ in range(1200 if thorough else 150):
        params = ["x", "y", "xs", "s", "o", "n"]
        extra = rng.sample(["_scale", "_", "__cache", "zz", "Extra", "_audit"], rng.randint(1, 3))
        c = exprprop.make_case(rng, depth=2, features=exprprop.MODEL_FEATURES, params=params, fparams=params + extra)
        if c:
            for e in extra:
                c["env"][e] = rng.choice([3, "v", [1, 2], None])
            if rng.random() < 0.4:
                c["fparams"] = c["fparams"] + ["**kw"]
                c["extra_kwargs"] = dict(("k%02d" % i, i) for i in range(rng.choice([1, 3, 60])))
            yield "extra-function-parameters", c
    # a parameter of the FUNCTION which the condition does not take is named like a global / closure variable the condition reads
    for c in shadowing_cases(rng, 600 if thorough else 150):
        yield "function-parameter-named-like-a-global", c
    # parameters of the condition's OWN with default values (`lambda x, lower=0: lower <= x`): the call never supplies them
    for c in own_default_cases(rng, 500 if thorough else 120):
        yield "condition-parameters-with-defaults", c
    # the closure variable is re-bound between two violations of the same contract
    for expr in ("x > cl + 100", "cl < 0 or x > 100", "len(xs) > abs(cl) + 50", "x > 100 and cl > 0", "[cl, x] == []",
                 "all(e > cl + 100 for e in [x, y])"):
        for layout in ("oneline", "multiline"):
            yield "closure-rebound", {"dom": "expr", "expr": expr, "env": {"x": 1, "y": 2, "xs": [1]}, "params": ["x", "y", "xs"],
                                      "layout": layout, "rebind_cl": [9, -3, 5]}
    for params, expr, env in BIG_ALL:
        for a_repr in (None, {"maxlist": 2, "maxstring": 8, "maxother": 8, "maxlevel": 2}):
            for layout in ("oneline", "multiline"):
                c = {"dom": "expr", "expr": expr, "env": env, "params": list(params), "layout": layout}
                if a_repr:
                    c["a_repr"] = a_repr
                yield "all-examples-big-values", c


BIG_ALL = [
    (["big"], "all(len(e) < 2 for e in big)", {"big": "BIGNEST"}),
    (["big", "x"], "all(len(e) < x for e in big) and x > 0", {"big": "BIGNEST", "x": 2}),
    (["big"], "all(len(a) < 2 and len(b) < 2 for a in big for b in big)", {"big": "BIGNEST"}),
    (["d"], "all(v < 5 for k, v in d.items())", {"d": "BIGDICT:80"}),
    (["xs"], "all(e < 150 for e in xs) and len(xs) > 0", {"xs": "BIGLIST:200"}),
    (["s"], "all(len(w) < 5 for w in [s, s + s])", {"s": "BIGSTR:40"}),
]


def search_cases(rng, hint, n):
    for _ in range(n):
        c = exprprop.make_case(rng, depth=rng.choice([2, 3]), features=exprprop.ALL_FEATURES)
        if c:
            yield "search", c


driver_inputs = exprprop.driver_inputs
model_view = exprprop.model_view
project = exprprop.project
stats = exprprop.stats


def run_impl(case):
    return implexpr.run_batch([case])[0]


def spec(case, mos, io):
    exprprop.mark_fragment(case, mos)
    fails = exprprop.check_values(case, io, mos)
    for sub in io.get("rebinds", []):
        sub_case = dict(case, _closure={"cl": sub["cl"]})
        if sub["oracle_value_falsy"] and sub["out"][0] != "ViolationError":
            fails.append("after re-binding the closure variable to %r the violation surfaced as %s" % (sub["cl"], sub["out"]))
        for f in exprprop.check_values(sub_case, sub, None):
            fails.append("after re-binding the closure variable to %r: %s" % (sub["cl"], f))
    _e = exprprop.split_mos(mos)[0]
    if _e is not None and not (_e.get("wf") and _e.get("idsNodup")):
        fails.append("harness: translated expression violates the theorem's hypotheses (wf / distinct ids)")
    return fails


classify = exprprop.classify


def nontrivial_key(case, mos):
    return exprprop.kinds_key(case)
