"""C06 - every value shown in a violation message is the value Python computes."""
import exprprop
import implexpr

DESCRIPTION = ("Lean: Props/C06.lean (for every well-formed condition, every operator/call/attribute/subscript/truth semantics and "
               "every environment in which Python evaluates it: the re-evaluator returns Python's value and records, for the nodes "
               "outside comprehension scopes, exactly Python's log - same nodes, values, order; lines come only from recorded "
               "values). Tie: the model's visit + collectLines + reprPairs against the real message lines and the real "
               "recomputed_values, and the model's pyEval against an AST-instrumented CPython evaluation, on the modelled "
               "fragment. Oracle on the implementation for all supported forms (f-strings, walrus, slices, dict/set displays, "
               "starred, keyword calls, all()/any() generators, nested comprehensions): every message line is a sub-expression "
               "Python evaluated with a_repr of its value (or an argument), all() examples are the first falsifying assignment, "
               "every representable argument and every evaluated name/attribute/call/subscript/comprehension has a line.")
RULE = ("seeded type-directed random conditions (depth 2-3, all supported forms, 7 decorator layouts, argument/closure/global "
        "name collisions) made falsy by rejection sampling under CPython + the corner-form list genexpr.SPECIAL; distinct = "
        "(set of AST node kinds, layout)")
PROJECTION = "(ViolationError?, [(normalised line key, rendered value)], recomputed node -> rendered value, Python's evaluation log) on the modelled fragment"
ASSUMPTIONS = ["reprlib / the user's a_repr is a function of the value (A-repr)",
               "conditions are side-effect free; CPython's evaluation order is what the AST instrumentation observes",
               "asttokens source-text recovery is exercised (line keys are compared after parsing), not modelled"]
WORKERS = None
NEIGHBOURS = [{"from": "C13", "limit": 400, "why": "messages of async callables list the same values"},
              {"from": "C09", "limit": 400, "why": "values available to messages and error factories"},
              {"from": "C07", "limit": 500, "why": "the values are collected without disturbing the violation itself"}]


def cases(tier, rng):
    thorough = tier == "thorough"
    for c in exprprop.special_cases(rng):
        yield "special", c
    for _ in range(6000 if thorough else 700):
        c = exprprop.make_case(rng, depth=rng.choice([2, 3]), features=exprprop.MODEL_FEATURES, params=["x", "y", "xs", "s", "o", "n"])
        if c:
            yield "modelled", c
    for _ in range(8000 if thorough else 900):
        c = exprprop.make_case(rng, depth=rng.choice([2, 3, 3]), features=exprprop.ALL_FEATURES)
        if c:
            yield "all-forms", c
    for _ in range(1500 if thorough else 200):
        c = exprprop.make_case(rng, depth=2, features=exprprop.ALL_FEATURES, a_repr={"maxlist": 2, "maxstring": 8, "maxother": 8, "maxlevel": 2})
        if c:
            yield "custom-repr", c


    # the function has parameters the condition does not take (also underscore-prefixed ones, and keywords swallowed by **kw)
    for _ in range(1200 if thorough else 150):
        params = ["x", "y", "xs", "s", "o", "n"]
        extra = rng.sample(["_scale", "_", "__cache", "zz", "Extra", "_audit"], rng.randint(1, 3))
        c = exprprop.make_case(rng, depth=2, features=exprprop.MODEL_FEATURES, params=params, fparams=params + extra)
        if c:
            for e in extra:
                c["env"][e] = rng.choice([3, "v", [1, 2], None])
            if rng.random() < 0.4:
                c["fparams"] = c["fparams"] + ["**kw"]
                c["extra_kwargs"] = dict(("k%02d" % i, i) for i in range(rng.choice([1, 3, 60])))
            yield "extra-function-parameters", c
    # the closure variable is re-bound between two violations of the same contract
    for expr in ("x > cl + 100", "cl < 0 or x > 100", "len(xs) > abs(cl) + 50", "x > 100 and cl > 0", "[cl, x] == []",
                 "all(e > cl + 100 for e in [x, y])"):
        for layout in ("oneline", "multiline"):
            yield "closure-rebound", {"dom": "expr", "expr": expr, "env": {"x": 1, "y": 2, "xs": [1]}, "params": ["x", "y", "xs"],
                                      "layout": layout, "rebind_cl": [9, -3, 5]}
    for params, expr, env in BIG_ALL:
        for a_repr in (None, {"maxlist": 2, "maxstring": 8, "maxother": 8, "maxlevel": 2}):
            for layout in ("oneline", "multiline"):
                c = {"dom": "expr", "expr": expr, "env": env, "params": list(params), "layout": layout}
                if a_repr:
                    c["a_repr"] = a_repr
                yield "all-examples-big-values", c


BIG_ALL = [
    (["big"], "all(len(e) < 2 for e in big)", {"big": "BIGNEST"}),
    (["big", "x"], "all(len(e) < x for e in big) and x > 0", {"big": "BIGNEST", "x": 2}),
    (["big"], "all(len(a) < 2 and len(b) < 2 for a in big for b in big)", {"big": "BIGNEST"}),
    (["d"], "all(v < 5 for k, v in d.items())", {"d": "BIGDICT:80"}),
    (["xs"], "all(e < 150 for e in xs) and len(xs) > 0", {"xs": "BIGLIST:200"}),
    (["s"], "all(len(w) < 5 for w in [s, s + s])", {"s": "BIGSTR:40"}),
]


def search_cases(rng, hint, n):
    for _ in range(n):
        c = exprprop.make_case(rng, depth=rng.choice([2, 3]), features=exprprop.ALL_FEATURES)
        if c:
            yield "search", c


driver_inputs = exprprop.driver_inputs
model_view = exprprop.model_view
project = exprprop.project
stats = exprprop.stats


def run_impl(case):
    return implexpr.run_batch([case])[0]


def spec(case, mos, io):
    exprprop.mark_fragment(case, mos)
    fails = exprprop.check_values(case, io, mos)
    for sub in io.get("rebinds", []):
        sub_case = dict(case, _closure={"cl": sub["cl"]})
        if sub["oracle_value_falsy"] and sub["out"][0] != "ViolationError":
            fails.append("after re-binding the closure variable to %r the violation surfaced as %s" % (sub["cl"], sub["out"]))
        for f in exprprop.check_values(sub_case, sub, None):
            fails.append("after re-binding the closure variable to %r: %s" % (sub["cl"], f))
    _e = exprprop.split_mos(mos)[0]
    if _e is not None and not (_e.get("wf") and _e.get("idsNodup")):
        fails.append("harness: translated expression violates the theorem's hypotheses (wf / distinct ids)")
    return fails


classify = exprprop.classify


def nontrivial_key(case, mos):
    return exprprop.kinds_key(case)
