"""C15 - disabled contracts are absent; enabled ones do not depend on interpreter mode."""
import json
import directed
import os
import subprocess
import sys
import tempfile

import common
import genck
import implck

DESCRIPTION = ("Lean: Props/C15.lean (the complete finite table decorator x enabled x interpreter mode x ICONTRACT_SLOW by case "
               "analysis; asserts are mode-independent when they hold). Tie + oracle: 9 child interpreters (python / -O / -OO x "
               "ICONTRACT_SLOW unset / empty / non-empty) build every decorator with every `enabled` setting on the real code "
               "and run a slice of explicitly enabled checker cases, compared across modes and with the model.")
RULE = ("exhaustive: 3 interpreter modes x 3 environment states x 6 decorator placements (4 decorators, require/ensure also on a function that already has a checker) x 4 enabled settings (216 rows) + 9 x N "
        "explicitly enabled checker cases (N seeded random cases of all kinds) compared with the normal-mode run and the model; "
        "distinct = (mode, env, row) / (mode, env, case shape)")
PROJECTION = "(returned object is the argument?, attributes added, condition call count) per row; (trace, outcome) per case"
EXHAUSTIVE_STREAM = True
WORKERS = 1
ASSUMPTIONS = ["ICONTRACT_SLOW is read once, when icontract._globals is imported (a fresh interpreter per configuration)"]

MODES = {"normal": [], "O": ["-O"], "OO": ["-OO"]}
ENVS = {"unset": None, "empty": "", "nonEmpty": "1"}
_CACHE = {}
_SLICE = None
NEIGHBOURS = [{"from": "C08", "limit": 400, "why": "a disabled snapshot never captures"},
              {"from": "C19", "limit": 400, "why": "disabled decorators accept what enabled ones reject"}]


def _slice(rng_seed=12345):
    global _SLICE
    if _SLICE is None:
        import random
        rng = random.Random(rng_seed)
        aw = {"T": 6, "F": 3, "R": 0.5, "BR": 0.5}
        cs = []
        for _ in range(int(os.environ.get("VERIF_C15_SLICE", "150"))):
            c = genck.random_case(rng, ans_weights=aw, raising_errors=True, falsy_errors=True)
            c["enabledExplicit"] = True
            cs.append(c)
        # call-time misuse (reserved keywords / parameter names) must be rejected in every interpreter mode as well
        from props import C19 as _C19
        for tag, c in _C19.cases("quick", rng):
            if tag.startswith("call_"):
                c = dict(c)
                c["enabledExplicit"] = True
                cs.append(c)
        _SLICE = cs
    return _SLICE


def _children():
    if _CACHE:
        return _CACHE
    d = tempfile.mkdtemp(prefix="verif_c15_")
    try:
        path = os.path.join(d, "cases.json")
        with open(path, "w") as fh:
            json.dump(_slice(), fh)
        procs = {}
        for m, flags in MODES.items():
            for e, val in ENVS.items():
                env = dict(os.environ)
                env.pop("ICONTRACT_SLOW", None)
                if val is not None:
                    env["ICONTRACT_SLOW"] = val
                env["PYTHONPATH"] = common.REPO
                procs[(m, e)] = subprocess.Popen([sys.executable] + flags + [os.path.join(common.VERIF, "harness", "c15_child.py"), path],
                                                 stdout=subprocess.PIPE, stderr=subprocess.PIPE, env=env)
        for k, p in procs.items():
            out, err = p.communicate(timeout=600)
            if p.returncode != 0:
                raise common.Infra("C15 child %s failed: %s" % (k, err.decode(errors="replace")[-1500:]))
            _CACHE[k] = json.loads(out)
    finally:
        import shutil
        shutil.rmtree(d, ignore_errors=True)
    return _CACHE


run_directed = directed.run


def cases(tier, rng):
    for c in directed.disabled_invariant_is_absent_cases():
        yield "directed-disabled-invariant-is-absent", c
    for m in MODES:
        for e in ENVS:
            for deco in ("require", "ensure", "snapshot", "snapshotOverOld", "invariant", "requireOnChecker", "ensureOnChecker"):
                for arg in ("dflt", "explicitTrue", "explicitFalse", "slow"):
                    yield "table", {"dom": "config", "mode": m, "env": e, "arg": arg, "deco": deco}
            for deco in ("requirePositional", "ensurePositional", "snapshotPositional"):
                for arg in ("explicitTrue", "explicitFalse", "slow"):
                    yield "table-enabled-given-positionally", {"dom": "config", "mode": m, "env": e, "arg": arg, "deco": deco}
            for deco in ("requireOnStaticObj", "ensureOnStaticObj", "requireOnClassmObj", "ensureOnClassmObj"):
                for arg in ("dflt", "explicitTrue", "explicitFalse", "slow"):
                    c = {"dom": "config", "mode": m, "env": e, "arg": arg, "deco": deco}
                    if not expected_enabled(c):       # (enabled contracts above a classmethod object are not supported at all)
                        yield "table-descriptor-objects", c
            yield "invariant-broken-before-call", {"dom": "c15broken", "mode": m, "env": e}
            for i, c in enumerate(_slice()):
                yield "slice", {"dom": "c15slice", "mode": m, "env": e, "i": i, "case": c}


def search_cases(rng, hint, n):
    return []


def driver_inputs(case):
    if case["dom"] == "c15broken":
        return []
    if case["dom"] == "config":
        if case["deco"].endswith("Obj"):
            # to the model a descriptor object is a callable like any other
            return [dict(case, deco="require" if case["deco"].startswith("require") else "ensure")]
        if case["deco"] == "snapshotOverOld":
            return [dict(case, deco="snapshot")]
        if case["deco"].endswith("Positional"):
            return [dict(case, deco=case["deco"][:-len("Positional")])]
        return [case]
    return [case["case"]]


def run_impl(case):
    ch = _children()[(case["mode"], case["env"])]
    if case["dom"] == "c15broken":
        return {"broken": ch["broken_before_call"], "normal": _children()[("normal", "unset")]["broken_before_call"]}
    if case["dom"] == "config":
        return {"row": ch["table"]["%s/%s" % (case["deco"], case["arg"])], "debug": ch["debug"], "SLOW": ch["SLOW"],
                "optimize": ch["optimize"]}
    base = _children()[("normal", "unset")]
    return {"obs": ch["obs"][case["i"]], "normal": base["obs"][case["i"]]}


def model_view(case, mos):
    if case["dom"] == "c15broken":
        return {"broken": "as-specified"}
    mo = mos[0]
    if case["dom"] == "config":
        return {"enabled": mo["enabled"], "same": mo["sameObject"], "attrs": mo["attrsAdded"], "stored": mo["conditionStored"]}
    return implck.model_view(case["case"], mo)


def project(case, obs):
    if case["dom"] == "c15broken":
        return "untied"
    if case["dom"] == "config":
        if "row" in obs:
            r = obs["row"]
            if "error" in r:
                return ["error", r["error"]]
            changed = bool(r["attrs_added"]) or bool(r.get("rebound")) or bool(r.get("snap_list"))
            return [r["same"], changed if r["same"] and r["cond_calls"] == 0 else None, r["cond_calls"] > 0]
        return [obs["same"], obs["attrs"] if obs["same"] and not obs["stored"] else None, obs["stored"]]
    o = obs["obs"] if "obs" in obs else obs
    return [o["trace"], implck.loosen(o["out"]) if o["out"] else None]


def expected_enabled(case):
    """The property's own reading of the table."""
    m, e, a = case["mode"], case["env"], case["arg"]
    if a == "explicitTrue":
        return True
    if a == "explicitFalse":
        return False
    if a == "dflt":
        return m == "normal"
    return m == "normal" and e == "nonEmpty"


def spec(case, mos, io):
    fails = []
    if case["dom"] == "c15broken":
        for flavour, val_ in sorted(io["broken"].items()):
            res, ran = val_[0], (val_[1] if len(val_) > 1 else [])
            if flavour == "diamond_snapshot":
                if io["broken"][flavour] != io["normal"][flavour] or res in ("AssertionError",):
                    fails.append("mode %s/%s: a snapshot inherited over two bases (explicitly enabled): %s, the normal interpreter %s"
                                 % (case["mode"], case["env"], io["broken"][flavour], io["normal"][flavour]))
                continue
            if flavour == "message_text":
                if io["broken"][flavour] != io["normal"][flavour]:
                    fails.append("mode %s/%s: the text of the violation of an explicitly enabled contract differs from the normal "
                                 "interpreter's: %s vs %s" % (case["mode"], case["env"], io["broken"][flavour], io["normal"][flavour]))
                continue
            if flavour == "slow_env":
                want = {"unevaluated-comprehension-part": "violation", "assignment-with-default-check_on": "accepted", "call-after-assignment": "violation"}
                if res != want:
                    fails.append("mode %s/%s: explicitly enabled contracts must not depend on ICONTRACT_SLOW or the interpreter mode: %s, expected %s"
                                 % (case["mode"], case["env"], res, want))
                continue
            if flavour == "refusals":
                if res != io["normal"][flavour][0] or any(v != "ValueError" for v in res.values()):
                    fails.append("mode %s/%s: explicitly enabled contracts whose sync condition / capture hands back a coroutine must be "
                                 "refused with ValueError in every interpreter mode: %s, the normal interpreter %s"
                                 % (case["mode"], case["env"], res, io["normal"][flavour][0]))
                continue
            if flavour == "strengthening_override":
                if res != "TypeError":
                    fails.append("mode %s/%s: an explicitly enabled @require strengthening a base method without preconditions: %s "
                                 "(the class must be refused with TypeError in every interpreter mode)" % (case["mode"], case["env"], res))
                continue
            if res != "violation" or ran:
                fails.append("mode %s/%s: %s on an object whose (explicitly enabled) invariant was broken behind the library's back: "
                             "outcome %s, bodies run %s - expected a violation before any body" % (case["mode"], case["env"], flavour, res, ran))
            if [res, ran] != io["normal"][flavour]:
                fails.append("mode %s/%s: %s behaves differently than in the normal interpreter: %s vs %s"
                             % (case["mode"], case["env"], flavour, [res, ran], io["normal"][flavour]))
        return fails
    if case["dom"] == "config":
        r = io["row"]
        if "error" in r:
            return ["row raised %s" % r["error"]]
        want_debug = case["mode"] == "normal"
        if io["debug"] != want_debug:
            return ["INFRA? child __debug__=%s in mode %s" % (io["debug"], case["mode"])]
        en = expected_enabled(case)
        if not en:
            if not r["same"]:
                fails.append("disabled %s did not return the very object it was given" % case["deco"])
            if r["attrs_added"] or r.get("rebound") or r.get("snap_list"):
                fails.append("disabled %s changed its argument: %s" % (case["deco"], r))
            if r["cond_calls"]:
                fails.append("disabled %s called its condition/capture %d times" % (case["deco"], r["cond_calls"]))
        elif not case["deco"].endswith("Obj"):
            if r["cond_calls"] == 0:
                fails.append("enabled %s never called its condition/capture" % case["deco"])
        return fails
    o, n = io["obs"], io["normal"]
    if [o["trace"], o["out"], o["define"]] != [n["trace"], n["out"], n["define"]]:
        fails.append("explicitly enabled contracts behave differently in mode %s/%s: %s %s vs normal %s %s"
                     % (case["mode"], case["env"], o["trace"], o["out"], n["trace"], n["out"]))
    return fails


def classify(case, mos, io, fails):
    return "unclassified"


def nontrivial_key(case, mos):
    if case["dom"] == "c15broken":
        return (case["mode"], case["env"], "broken-before-call")
    if case["dom"] == "config":
        return (case["mode"], case["env"], case["arg"], case["deco"])
    return (case["mode"], case["env"], case["i"])


def stats(case, mos, io, dist):
    dist["dom:" + case["dom"]] += 1
    dist["mode:" + case["mode"]] += 1
    dist["env:" + case["env"]] += 1
    if case["dom"] == "config":
        dist["enabled:%s" % expected_enabled(case)] += 1
