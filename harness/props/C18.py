"""C18 - introspection data tells integrators the truth."""
import ckprop
import genck
import genmeta
import implck
import metaprop
from props import C04 as _C04
import directed

DESCRIPTION = ("Lean: Props/C18.lean (the wrapper reads the very lists introspection shows: judging a call by hand over the "
               "lists gives the wrapper's verdict - corollary of C01/C02; the hook is called once per class created through the "
               "metaclass). Oracle: for real decorated callables the documented integrators' loop over the introspected lists "
               "(select_condition_kwargs / select_capture_kwargs / Old) is run by hand and compared with the real call; the lists "
               "must be the effective contracts; the registration hook is recorded over real class histories.")
RULE = ("checker domain: bounded-exhaustive chains (<=3 classes x <=2 own preconditions x all truth assignments x +-post x "
        "+-snapshot) and seeded random chains with plain truth values, all kinds; class histories (C04 streams) for the hook; "
        "distinct = canonical case key; non-trivial = at least one contract / one DBC class")
PROJECTION = "(introspected lists as contract ids, manual verdict, real outcome) / (hook calls per history)"
ASSUMPTIONS = ["integrators supply the bound arguments by name (no _ARGS/_KWARGS in manually judged conditions)"]

AW = {"T": 6, "F": 4}
NEIGHBOURS = [{"from": "C03", "limit": 400, "why": "every invariant listed for a class is enforced on all member kinds"},
              {"from": "C17", "limit": 500, "why": "the lists shown for a class are the ones its calls evaluate"},
              {"from": "C02", "limit": 300, "why": "contracts merged into a checker after its first use are enforced"}]


def _manualable(c):
    for _r, x in genck.all_contracts(c):
        if "_ARGS" in x["args"] or "_KWARGS" in x["args"] or (x["coroFn"] and not c["async"]):
            return False
    for lv in c["levels"]:
        for s in lv["snaps"]:
            if s["coroFn"] and not c["async"]:
                return False
    return True


run_directed = directed.run


def cases(tier, rng):
    thorough = tier == "thorough"
    for c in directed.special_results_cases():
        yield "directed-special-results", c
    for c in genck.exhaustive_pre(genck.KINDS, [False, True], 3, 2, with_post=(False, True), with_snap=(False, True)):
        c["manual"] = True
        yield "exh", c
    n = 0
    while n < (20000 if thorough else 2500):
        c = genck.random_case(rng, ans_weights=AW, allow_async=True, max_posts=3)
        for item in c["capture"]:
            item[1] = genck.T(200 + item[0])
        if not _manualable(c):
            continue
        c["manual"] = True
        n += 1
        yield "rnd", c
    for c in genmeta.shapes():
        yield "hist", c
    for _ in range(3000 if thorough else 300):
        yield "hist", genmeta.random_history(rng, max_classes=6)


def search_cases(rng, hint, n):
    return []


def run_impl(case):
    if case["dom"] == "meta":
        return metaprop.run_impl(case)
    return implck.run(case)


def model_view(case, mo):
    if case["dom"] == "meta":
        return metaprop.model_view(case, mo)
    v = implck.model_view(case, mo)
    v["pre"], v["posts"], v["nsnaps"] = mo["pre"], mo["posts"], len(mo["snaps"])
    return v


def project(case, obs):
    if case["dom"] == "meta":
        return obs["hook"]
    if obs.get("define", ["ok"]) != ["ok"]:
        return ["define-failed"]
    return [obs["pre"], obs["posts"], obs.get("nsnaps", len(obs.get("snaps", []))), implck.loosen(obs["out"])]


def spec(case, mo, io):
    fails = []
    if case["dom"] == "meta":
        want = [o["k"] for o, s in zip(case["ops"], io["steps"]) if o["op"] == "class" and s["err"] is None
                and (o["dbc"] or any(b for b in o["bases"]))]
        dbc = dict((c["k"], c["dbc"]) for c in mo["steps"][-1]["obs"]) if mo["steps"] else {}
        want = [k for k in want if dbc.get(k)]
        if io["hook"] != want:
            fails.append("registration hook called for %s, classes created through the metaclass: %s" % (io["hook"], want))
        for mm in io.get("verdict_mismatches", []):
            fails.append("class %s member %s with contract %s false: judged by hand from the introspected lists %s, the real call %s "
                         "(introspected %s)" % (mm["class"], mm["member"], mm["false"], mm["by_hand"], mm["real"], mm["introspected"]))
        return fails
    if io.get("define", ["ok"]) != ["ok"]:
        return ["definition raised %s" % (io["define"],)]
    pre, posts, snaps = ckprop.chain_lists(case)
    if [sorted(g) for g in io["pre"]] != [sorted(g) for g in pre] and io["pre"] != pre:
        fails.append("introspected preconditions %s, effective (declared along the chain) %s" % (io["pre"], pre))
    if io["posts"] != posts:
        fails.append("introspected postconditions %s, effective %s" % (io["posts"], posts))
    if len(io["snaps"]) != len(snaps):
        fails.append("introspected snapshots %s, effective %s" % (io["snaps"], snaps))
    m = io.get("manual")
    sp = mo["spec"]
    if m is None or not sp["callOk"]:
        return fails
    if "error" in m:
        fails.append("manual evaluation over the introspected lists failed: %s" % m["error"])
        return fails
    real_pre_ok = ckprop.entered(io)
    if m["pre"] != real_pre_ok:
        fails.append("judged by hand the precondition %s, the real call %s the body"
                     % ("holds" if m["pre"] else "fails", "entered" if real_pre_ok else "did not enter"))
    if m["post"] is not None and real_pre_ok and ckprop.ans_kind(case["body"]) == "ret":
        real_post_ok = io["out"][0] == "ret"
        if m["post"] != real_post_ok:
            fails.append("judged by hand the postcondition %s, the real call %s" % ("holds" if m["post"] else "fails", io["out"]))
    return fails


def late_invariant_mismatch(case, mm):
    """is this verdict mismatch explained by an invariant given to a strict ancestor AFTER the class was created?"""
    ops = case["ops"]
    created = dict((o["k"], i) for i, o in enumerate(ops) if o["op"] == "class")
    inv_at = dict((o["c"], (i, o["k"])) for i, o in enumerate(ops) if o["op"] == "inv")
    when = inv_at.get(mm["false"])
    return not (when is None or when[1] == mm["class"] or when[0] < created.get(mm["class"], -1))


def classify(case, mo, io, fails):
    if case["dom"] == "meta" and fails and all(f.startswith("class ") for f in fails):
        # every mismatch concerns an invariant given to a strict ancestor AFTER the mismatching class was created
        ops = case["ops"]
        created = dict((o["k"], i) for i, o in enumerate(ops) if o["op"] == "class")
        inv_at = dict((o["c"], (i, o["k"])) for i, o in enumerate(ops) if o["op"] == "inv")
        ok = True
        for mm in io.get("verdict_mismatches", []):
            when = inv_at.get(mm["false"])
            if when is None or when[1] == mm["class"] or when[0] < created.get(mm["class"], -1):
                ok = False
        if ok and io.get("verdict_mismatches"):
            return "late-invariant-on-base-not-enforced-in-existing-subclass"
    return "unclassified"


def nontrivial_key(case, mo):
    if case["dom"] == "meta":
        return _C04.nontrivial_key(case, mo)
    if not any(l["pre"] or l["posts"] for l in case["levels"]):
        return None
    return ckprop.shape_key(case)


def stats(case, mo, io, dist):
    if case["dom"] == "meta":
        dist["verdicts_probed"] += io.get("verdicts_probed", 0)
    dist["dom:" + case["dom"]] += 1
    if case["dom"] == "checker":
        dist["kind:" + case["kind"]] += 1
        m = io.get("manual") or {}
        dist["manual_pre:%s" % m.get("pre")] += 1
        dist["manual_post:%s" % m.get("post")] += 1
