"""C08 - OLD snapshots capture pre-state once, after the preconditions and before the body."""
import ckprop
import genck
import implck
from ckprop import shrink_candidates  # noqa: F401
from props import C19 as _C19
import directed

DESCRIPTION = ("Lean: Props/C08.lean. Run-time: each capture at most once, only if preconditions pass and the callable has "
               "postconditions and snapshots, between the last precondition and the body; OLD seen by postconditions and "
               "error factories maps names to the captured objects. Definition-time rules: extra_checks (snapdef table).")
RULE = ("seeded random chains with 0..3 snapshots and postconditions (own+inherited) x precondition outcomes x bodies; "
        "bounded-exhaustive placements of <=2 snapshots x <=2 posts on chains of <=2 classes; definition-time table "
        "(duplicate names same function / across levels, unnamed captures with 0/1/2 parameters, snapshot without "
        "postcondition / with only preconditions); non-trivial = at least one snapshot")
PROJECTION = "(capture events with their position relative to preconditions and body, OLD contents seen after the body)"
ASSUMPTIONS = ["user callables answer as a function of the site (A-oracle)"]

AW = {"T": 10, "F": 3, "R": 0.5, "BR": 0.5, "CT": 0.5}
NEIGHBOURS = [{"from": "C04", "limit": 1500, "why": "snapshots are inherited together with postconditions by the real metaclass"},
              {"from": "C17", "tags": ["late"], "limit": 600, "why": "duplicate snapshot names are refused at definition time also for late decorations of class members"},
              {"from": "C05", "limit": 1200, "why": "captures receive the values of the call, whatever the snapshots and parameters are called"},
              {"from": "C09", "limit": 600, "why": "no snapshot is captured when a precondition fails, whatever its error object is"}]


run_directed = directed.run


def cases(tier, rng):
    for c in directed.capture_reenters_function_cases():
        yield "directed-capture-reenters-function", c
    for c in directed.old_attribute_errors_cases():
        yield "directed-old-attribute-errors", c
    for c in directed.wrapper_above_inheriting_override_cases():
        yield "directed-wrapper-above-inheriting-override", c
    for c in directed.odd_capture_callables_cases():
        yield "directed-odd-capture-callables", c
    for c in directed.integrator_snapshot_without_postcondition_cases():
        yield "directed-integrator-snapshot-without-postcondition", c
    for t, c in _C19.cases(tier, rng):
        if c.get('dom') == 'define' and c['what'] in ('snapshot_name', 'snapshot_apply'):
            yield 'def_' + t, c
    yield from _ck_cases(tier, rng)


def _ck_cases(tier, rng):
    thorough = tier == "thorough"
    for c in genck.exhaustive_post(genck.KINDS, [False, True], 2, 2):
        if any(l["snaps"] for l in c["levels"]):
            yield "exh", c
    for _ in range(40000 if thorough else 5000):
        c = genck.random_case(rng, ans_weights=AW, max_posts=3, max_snaps=3, raising_errors=False)
        if c["async"]:
            # every second captured pre-state is itself an awaitable object: OLD must hold that very object
            c["awaitableCaptureValues"] = [sid for sid, a in c["capture"] if sid % 2 == 0 and "val" in a]
        yield "rnd", c
        if any(l["snaps"] for l in c["levels"]) and rng.random() < 0.35:
            # the same call again on the same decorated callable: captured afresh, every time
            import copy
            c2 = copy.deepcopy(c)
            c2["twice"] = True
            yield "twice", c2


def search_cases(rng, hint, n):
    kinds = [hint["kind"]] if hint else genck.KINDS
    for _ in range(n):
        yield "search", genck.random_case(rng, kinds=kinds, ans_weights=AW, max_posts=3, max_snaps=3)


def _view(case, obs):
    tr = obs["trace"]
    caps = [(i, ev[1]) for i, ev in enumerate(tr) if ev[0] == "capture"]
    bi = next((i for i, ev in enumerate(tr) if ev[0] == "body"), None)
    olds = []
    for ev in tr:
        if ev[0] in ("cond", "errfac"):
            for name, val in ev[2]:
                if name == "OLD":
                    olds.append([ev[0], ev[1], val])
    return caps, bi, olds


def project(case, obs):
    if case.get('dom') == 'define':
        return _C19.project(case, obs)
    return _ck_project(case, obs)


def _ck_project(case, obs):
    if obs.get("define", ["ok"]) != ["ok"]:
        return ["define-failed"]
    caps, bi, olds = _view(case, obs)
    return [[s for _i, s in caps], [i < bi for i, _s in caps] if bi is not None else None, olds,
            [ev for ev in obs["trace"] if ev[0] == "capture"]]


def spec(case, mo, io):
    if case.get('dom') == 'define':
        return _C19.spec(case, mo, io)
    return _ck_spec(case, mo, io)


def _ck_spec(case, mo, io):
    if io.get("define", ["ok"]) != ["ok"]:
        return ["definition raised %s" % (io["define"],)]
    sp = mo["spec"]
    fails = []
    if "second" in io and (io["second"]["trace"] != io["trace"] or io["second"]["out"] != io["out"]):
        fails.append("the same call repeated on the same callable: first %s -> %s, second %s -> %s"
                     % (io["trace"], io["out"], io["second"]["trace"], io["second"]["out"]))
    if not sp["callOk"]:
        return fails
    tr = io["trace"]
    caps, bi, olds = _view(case, io)
    pre, posts, snaps = ckprop.chain_lists(case)
    preids = set(c for g in pre for c in g)
    sids = [s for _i, s in caps]
    if len(set(sids)) != len(sids):
        fails.append("a snapshot was captured more than once: %s" % sids)
    if sids != snaps[:len(sids)]:
        fails.append("captures %s are not a prefix of the snapshots %s" % (sids, snaps))
    if caps and not (posts and snaps):
        fails.append("captured although there is no postcondition")
    last_pre = max([i for i, ev in enumerate(tr) if ev[0] in ("cond", "bool", "awaitcond", "errfac", "msg") and ev[1] in preids
                    and (bi is None or i < bi)], default=-1)
    for i, s in caps:
        if i < last_pre:
            fails.append("snapshot %d captured before precondition evaluation finished" % s)
        if bi is not None and i > bi:
            fails.append("snapshot %d captured after the body started" % s)
    if sp["totalPre"]:
        if sp["dnfHolds"] and posts and snaps:
            if sp["capTotal"] and sids != snaps:
                fails.append("expected captures %s, got %s" % (snaps, sids))
            if not sids:
                fails.append("preconditions hold but nothing was captured")
        elif caps:
            fails.append("captured although preconditions do not hold or nothing to capture for")
    exp_old = ["old", sp["oldExpected"]]
    for kind, cid, val in olds:
        if val != exp_old:
            fails.append("%s c%d saw OLD=%s, captured before the body: %s" % (kind, cid, val, exp_old))
    if ckprop.entered(io) and posts and snaps and sp["capTotal"]:
        # every post condition that asks for OLD got it
        by = ckprop.contracts_by_id(case)
        _b, _body, after = ckprop.split_trace(case, io)
        for ev in after:
            if ev[0] == "cond" and "OLD" in by[ev[1]][1]["args"] and not any(n == "OLD" for n, _v in ev[2]):
                fails.append("c%d asks for OLD but did not receive it" % ev[1])
    return fails


def classify(case, mo, io, fails):
    if case.get('dom') == 'define':
        return _C19.classify(case, mo, io, fails)
    return _ck_classify(case, mo, io, fails)


def _ck_classify(case, mo, io, fails):
    return "unclassified"


def nontrivial_key(case, mo):
    if case.get('dom') == 'define':
        return _C19.nontrivial_key(case, mo)
    return _ck_nontrivial_key(case, mo)


def _ck_nontrivial_key(case, mo):
    if not any(l["snaps"] for l in case["levels"]):
        return None
    return ckprop.shape_key(case)


def stats(case, mo, io, dist):
    if case.get('dom') == 'define':
        return _C19.stats(case, mo, io, dist)
    return _ck_stats(case, mo, io, dist)


def _ck_stats(case, mo, io, dist):
    dist["kind:" + case["kind"]] += 1
    dist["async" if case["async"] else "sync"] += 1
    dist["snaps:%d" % len(mo["snaps"])] += 1
    dist["captures:%d" % sum(1 for ev in io["trace"] if ev[0] == "capture")] += 1
    dist["out:" + (io["out"][0] if io.get("out") else "none")] += 1


def run_impl(case):
    if case.get("twice"):
        a, b = implck.run_seq([case, case])
        a["second"] = {"out": b["out"], "trace": b["trace"]}
        return a
    return _C19.run_impl(case)


def model_view(case, mo):
    return _C19.model_view(case, mo)
