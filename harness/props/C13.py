"""C13 - async callables get the same contract semantics as sync ones."""
import copy

import ckprop
import genck
import implck
import implinv
from ckprop import shrink_candidates  # noqa: F401
import directed

DESCRIPTION = ("Lean: Props/C13.lean (callAsync o = callSync (awaited o) up to await events; coroutine conditions/captures "
               "on sync callables are rejected). Each program is rendered with `def` and with `async def`; the async run of "
               "the original must equal the sync run of the awaited program, and the sync run of the original must stop at "
               "the first coroutine condition/capture it reaches with ValueError.")
RULE = ("bounded-exhaustive pre chains (<=2 classes x <=2 conditions x all truth assignments x +-post x +-snapshot) and "
        "seeded random programs with coroutine-function conditions/captures, lambdas returning coroutines, raising "
        "awaits; each program run as a sync/async pair on the real code; non-trivial = at least one contract")
PROJECTION = "for the pair: (async trace without await events, async outcome) vs (sync trace of the awaited program, outcome); sync run of the original"
ASSUMPTIONS = ["awaits of harness coroutines never suspend (cancellation is C11's business)",
               "non-coroutine awaitables (Future/Task) are probed separately in extra_checks"]

AW = {"T": 8, "F": 4, "R": 1, "BR": 1, "CT": 2, "CF": 2, "CR": 1}
KINDS = genck.ASYNC_KINDS
NEIGHBOURS = [{"from": "C05", "limit": 400, "why": "argument binding of async callables equals the sync one"},
              {"from": "C10", "limit": 400, "why": "nested calls of async callables run as the sync ones"},
              {"from": "C03", "limit": 400, "why": "async methods evaluate the same invariants as sync ones"},
              {"from": "C09", "limit": 500, "why": "every kind of error object surfaces from async callables as from sync ones"}]


run_directed = directed.run


def cases(tier, rng):
    for c in directed.lenient_objects_as_condition_values_cases():
        yield "directed-lenient-objects-as-condition-values", c
    for c in directed.async_message_equals_sync_cases():
        yield "directed-async-message-equals-sync", c
    for c in directed.awaitable_kinds_cases():
        yield "directed-awaitable-kinds", c
    for c in directed.wrapped_async_public_method_cases():
        yield "directed-wrapped-async-public-method", c
    for c in directed.coroutine_invariant_spellings_cases():
        yield "directed-coroutine-invariant-spellings", c
    for c in directed.reserved_keyword_after_valid_calls_cases():
        yield "directed-reserved-keyword-after-valid-calls", c
    thorough = tier == "thorough"
    for c in directed.sometimes_awaitable_condition_cases():
        yield "directed-sometimes-awaitable-condition", c
    for c in directed.used_before_override_cases():
        yield "directed-used-before-override", c
    for c in directed.sync_layer_over_coroutine_cases():
        yield "directed-sync-layer-over-coroutine", c
    for c in directed.async_def_spelling_cases():
        yield "directed-async-def-spelling", c
    for c in genck.exhaustive_pre(KINDS, [True], 2, 2, with_post=(False, True), with_snap=(False, True)):
        yield "exh", c
    for _ in range(30000 if thorough else 4000):
        c = genck.random_case(rng, kinds=KINDS, ans_weights=AW, raising_errors=True, max_posts=2)
        c["async"] = True
        # coroutine-function contracts are only generated for async cases: re-draw the flags here
        for lv in c["levels"]:
            for x in lv["pre"] + lv["posts"] + lv["snaps"]:
                x["coroFn"] = rng.random() < 0.2
        cond = dict((k, a) for k, a in c["cond"])
        for lv in c["levels"]:
            for x in lv["pre"] + lv["posts"]:
                a = cond[x["id"]]
                if x["coroFn"] and ckprop.ans_kind(a) == "coro":
                    cond[x["id"]] = a["coro"]["inner"]
        c["cond"] = [[k, a] for k, a in cond.items()]
        cap = dict((k, a) for k, a in c["capture"])
        for lv in c["levels"]:
            for x in lv["snaps"]:
                a = cap[x["id"]]
                if x["coroFn"] and ckprop.ans_kind(a) == "coro":
                    cap[x["id"]] = a["coro"]["inner"]
        c["capture"] = [[k, a] for k, a in cap.items()]
        # some of the conditions returning awaitables return an object with __await__ instead of a coroutine
        c["awaitableObjects"] = [k for k, a in c["cond"] if ckprop.ans_kind(a) == "coro" and rng.random() < 0.5]
        c["awaitableCaptureValues"] = [sid for sid, a in c["capture"] if sid % 2 == 0 and "val" in a]
        yield "rnd", c
    for tc in inv_cases(tier, rng):
        yield tc


def inv_cases(tier, rng):
    """class invariants whose conditions return plain values or coroutines (all inner values given): the first
    coroutine reached must be rejected with ValueError, never taken as truthy"""
    import itertools
    for n in (1, 2, 3):
        for kinds in itertools.product(["T", "CT", "CF"], repeat=n):
            for with_self in itertools.product([True, False], repeat=n):
                contracts, cond = [], []
                for i, (k, ws) in enumerate(zip(kinds, with_self), 1):
                    contracts.append({"id": i, "args": ["self"] if ws else [], "mandatory": ["self"] if ws else [], "coroFn": False,
                                      "err": "none"})
                    a = {"val": {"v": 100 + i, "t": "truthy"}}
                    if k != "T":
                        a = {"coro": {"inner": {"val": {"v": 100 + i, "t": "truthy" if k == "CT" else "falsy"}}}}
                    cond.append([i, a])
                yield "invariants", {"dom": "invariants", "contracts": contracts, "self": 5, "cond": cond, "fac": [], "msg": []}


def search_cases(rng, hint, n):
    return [tc for tc in list(cases("quick", rng))[-n:] if tc[1].get("dom") != "invariants"]


def awaited(case):
    """The program in which every awaitable has already been awaited."""
    c = copy.deepcopy(case)
    c["async"] = False
    for lv in c["levels"]:
        for x in lv["pre"] + lv["posts"] + lv["snaps"]:
            x["coroFn"] = False
    for lst in (c["cond"], c["capture"]):
        for item in lst:
            if ckprop.ans_kind(item[1]) == "coro":
                item[1] = item[1]["coro"]["inner"]
    return c


def as_sync(case):
    c = copy.deepcopy(case)
    c["async"] = False
    return c


def driver_inputs(case):
    if case.get("dom") == "invariants":
        return [case]
    return [case, awaited(case), as_sync(case)]


def run_impl(case):
    if case.get("dom") == "invariants":
        return implinv.run(case)
    return {"async": implck.run(case), "awaited_sync": implck.run(awaited(case)), "sync": implck.run(as_sync(case))}


def model_view(case, mos):
    if case.get("dom") == "invariants":
        return {"define": ["ok"], "trace": mos[0]["trace"], "out": mos[0]["out"]}
    return {"async": implck.model_view(case, mos[0]), "awaited_sync": implck.model_view(case, mos[1]),
            "sync": implck.model_view(case, mos[2])}


def _strip(tr):
    return [ev for ev in tr if ev[0] not in ("awaitcond", "awaitcapture")]


def project(case, obs):
    if case.get("dom") == "invariants":
        return [obs.get("define"), obs.get("trace"), obs.get("out")]
    out = []
    for k in ("async", "awaited_sync", "sync"):
        o = obs[k]
        if o.get("define", ["ok"]) != ["ok"]:
            out.append("define-failed")
        else:
            out.append([o["trace"], implck.loosen(o["out"])])
    return out


def spec(case, mos, io):
    fails = []
    if case.get("dom") == "invariants":
        if io.get("define") != ["ok"]:
            return ["definition raised %s" % (io.get("define"),)]
        first = next((k for k, a in case["cond"] if ckprop.ans_kind(a) == "coro"), None)
        if first is None:
            if io["out"] != ["ret", None]:
                fails.append("all invariants hold, the constructor ended with %s" % (io["out"],))
        elif not (io["out"][0] == "raise" and io["out"][1][0] == "ValueError" and io["out"][1][2] == first):
            fails.append("invariant %d returns a coroutine: expected it to be rejected with ValueError, got %s after evaluations %s"
                         % (first, io["out"], io["trace"]))
        if any(ev == ["bool", k] for ev in io["trace"] for k, a in case["cond"] if ckprop.ans_kind(a) == "coro"):
            fails.append("a coroutine returned by an invariant was truth-tested")
        return fails
    for k in ("async", "awaited_sync", "sync"):
        if io[k].get("define", ["ok"]) != ["ok"]:
            return ["definition raised %s" % (io[k]["define"],)]
    a, s, y = io["async"], io["awaited_sync"], io["sync"]
    if _strip(a["trace"]) != s["trace"]:
        fails.append("async evaluations %s differ from the sync program's %s" % (_strip(a["trace"]), s["trace"]))
    if a["out"] != s["out"]:
        fails.append("async outcome %s differs from the sync program's %s" % (a["out"], s["out"]))
    # sync callable with coroutine conditions / captures
    cond = dict((k, v) for k, v in case["cond"])
    cap = dict((k, v) for k, v in case["capture"])
    by = ckprop.contracts_by_id(case)
    snaps = dict((x["id"], x) for lv in case["levels"] for x in lv["snaps"])
    first = None
    for i, ev in enumerate(s["trace"]):
        if ev[0] == "cond":
            c = by[ev[1]][1]
            if c["coroFn"] or ckprop.ans_kind(cond[ev[1]]) == "coro":
                first = (i, "cond", ev[1], c["coroFn"])
                break
        if ev[0] == "capture":
            x = snaps[ev[1]]
            if x["coroFn"] or ckprop.ans_kind(cap[ev[1]]) == "coro":
                first = (i, "capture", ev[1], x["coroFn"])
                break
    if first is None:
        if y["trace"] != s["trace"] or y["out"] != s["out"]:
            fails.append("sync run differs although nothing is awaitable: %s %s" % (y["trace"], y["out"]))
    else:
        i, what, ident, is_fn = first
        exp = s["trace"][:i] + ([] if is_fn else [s["trace"][i]])
        if y["trace"] != exp:
            fails.append("sync callable: expected evaluations %s up to the coroutine %s %d, got %s" % (exp, what, ident, y["trace"]))
        r = y["out"]
        okv = r[0] == "raise" and r[1][0] == "ValueError" and str(r[1][1]).startswith("coro")
        okt = r[0] == "raise" and r[1][0] == "TypeError" and str(r[1][1]).startswith("missing")
        if not (okv or okt):
            fails.append("sync callable reached a coroutine %s %d: expected ValueError, got %s" % (what, ident, r))
    return fails


def classify(case, mos, io, fails):
    return "unclassified"


def nontrivial_key(case, mos):
    if case.get("dom") == "invariants":
        return repr((case["contracts"], case["cond"]))
    if not any(l["pre"] or l["posts"] for l in case["levels"]):
        return None
    return ckprop.shape_key(case) + (tuple(x["coroFn"] for lv in case["levels"] for x in lv["pre"] + lv["posts"] + lv["snaps"]),)


def stats(case, mos, io, dist):
    if case.get("dom") == "invariants":
        dist["kind:invariants"] += 1
        return
    dist["kind:" + case["kind"]] += 1
    n = sum(1 for lv in case["levels"] for x in lv["pre"] + lv["posts"] + lv["snaps"] if x["coroFn"])
    dist["coroFns:%d" % min(n, 3)] += 1
    n = sum(1 for _k, a in case["cond"] + case["capture"] if ckprop.ans_kind(a) == "coro")
    dist["coroAnswers:%d" % min(n, 3)] += 1
    dist["sync_out:" + str(io["sync"]["out"][1][0] if io["sync"]["out"][0] == "raise" else "ret")] += 1
