"""C17 - defining a class or decorating a function never changes another's contracts."""
import metaprop
import genmeta
from metaprop import run_impl, model_view  # noqa: F401
from props import C04 as _C04

DESCRIPTION = ("Lean: Props/C17.lean (frame property of the heap model: defining a class or decorating a function writes only "
               "to cells it allocated; the invariant decorator writes only to the decorated class's own lists). Oracle: after "
               "every step of a real class history the introspected contracts of every previously defined class that is not "
               "a descendant of the decorated class are exactly what they were.")
RULE = ("the C04 histories (shapes + seeded random DAG histories, invariants added at any level with any check_on, late "
        "decorations, siblings, unrelated classes, multiple inheritance), observed after *each* step; distinct = canonical "
        "history; non-trivial = at least 2 classes and one later definition/decoration")
PROJECTION = _C04.PROJECTION
ASSUMPTIONS = ["plain (non-DBC) classes share invariant lists with their decorated plain subclasses (pinned by the suite): outside the claim",
               "each function object appears in one class namespace"]


def cases(tier, rng):
    thorough = tier == "thorough"
    for c in genmeta.shapes():
        yield "shape", c
    for _ in range(6000 if thorough else 700):
        yield "rnd", genmeta.random_history(rng, max_classes=9 if thorough else 6, p_inv=0.7)


def search_cases(rng, hint, n):
    for _ in range(n):
        yield "search", genmeta.random_history(rng, max_classes=6, p_inv=0.7)


project = _C04.project


def spec(case, mo, io):
    fails = []
    ops = case["ops"]
    prev = []
    for i, (op, is_, ms) in enumerate(zip(ops, io["steps"], mo["steps"])):
        cur = metaprop.impl_obs_sorted(is_["obs"])
        dbc = dict((c["k"], c["dbc"]) for c in ms["obs"])
        mro = dict((c["k"], c["mro"]) for c in ms["obs"])
        before = dict((c["k"], c) for c in prev)
        for c in cur:
            k = c["k"]
            if k not in before:
                continue
            if not all(dbc.get(a, True) for a in mro.get(k, [k])):
                continue
            if op["op"] == "inv" and op["k"] in mro.get(k, [k]):
                continue            # decorating a class legitimately strengthens it and its descendants
            if c != before[k]:
                fails.append("step %d (%s %s): contracts of the earlier class %d changed from %s to %s"
                             % (i, op["op"], op["k"] or op["f"], k, before[k], c))
        prev = cur
    return fails


def classify(case, mo, io, fails):
    # every failing step decorates a class that, at that moment, has no invariant lists of its own but
    # reaches a base's lists through the MRO (the base got its first invariant after the subclass was created)
    import re
    steps = [int(m.group(1)) for f in fails for m in [re.match(r"step (\d+) \(inv", f)] if m]
    if steps and len(steps) == len(fails):
        ok = True
        for i in steps:
            k = case["ops"][i]["k"]
            before = dict((c["k"], c) for c in mo["steps"][i - 1]["obs"]) if i > 0 else {}
            if k not in before or before[k]["invOwner"] in (None, k):
                ok = False
        if ok:
            return "subclass-shares-lists-of-late-decorated-base"
    return "unclassified"


def nontrivial_key(case, mo):
    if sum(1 for o in case["ops"] if o["op"] == "class") < 2:
        return None
    return _C04.nontrivial_key(case, mo)


stats = _C04.stats
