"""C17 - defining a class or decorating a function never changes another's contracts."""
import metaprop
import genmeta
from props import C04 as _C04
import functools
import common
import directed

DESCRIPTION = ("Lean: Props/C17.lean (frame property of the heap model: defining a class or decorating a function writes only "
               "to cells it allocated; the invariant decorator writes only to the decorated class's own lists). Oracle: after "
               "every step of a real class history the introspected contracts of every previously defined class that is not "
               "a descendant of the decorated class are exactly what they were.")
RULE = ("the C04 histories (shapes + seeded random DAG histories, invariants added at any level with any check_on, late "
        "decorations, siblings, unrelated classes, multiple inheritance), observed after *each* step; distinct = canonical "
        "history; non-trivial = at least 2 classes and one later definition/decoration")
PROJECTION = _C04.PROJECTION
ASSUMPTIONS = ["plain (non-DBC) classes share invariant lists with their decorated plain subclasses (pinned by the suite): outside the claim",
               "each function object appears in one class namespace"]


DERIVED_KINDS = ["partial_kw", "partial_pos", "partial_of_partial", "lambda", "callable_object", "partial_of_method",
                 "partial_of_static", "partialmethod_like"]
TARGETS = ["function", "method", "staticmethod", "async_function"]
DECOS = ["require", "ensure", "snapshot+ensure"]


run_directed = directed.run


def cases(tier, rng):
    for c in directed.method_aliased_as_setattr_in_subclass_cases():
        yield "directed-method-aliased-as-setattr-in-subclass", c
    for c in directed.functions_from_one_definition_cases():
        yield "directed-functions-from-one-definition", c
    for c in directed.late_decoration_of_inheriting_accessor_cases():
        yield "directed-late-decoration-of-inheriting-accessor", c
    thorough = tier == "thorough"
    for c in directed.property_inherited_into_class_with_invariants_cases():
        yield "directed-property-inherited-into-class-with-invariants", c
    for c in directed.separation_in_every_interpreter_mode_cases():
        yield "directed-separation-in-every-interpreter-mode", c
    for c in directed.recreated_class_cases():
        yield "directed-recreated-class", c
    for c in directed.decorating_another_function_cases():
        yield "directed-shared-decorator-object", c
    for c in directed.late_decoration_of_inheriting_override_cases():
        yield "directed-late-decoration-of-inheriting-override", c
    for kind in DERIVED_KINDS:
        for target in TARGETS:
            for deco in DECOS:
                yield "derived-callable", {"dom": "derived", "kind": kind, "target": target, "deco": deco}
    for c in genmeta.shapes():
        yield "shape", c
    for _ in range(6000 if thorough else 700):
        yield "rnd", genmeta.random_history(rng, max_classes=9 if thorough else 6, p_inv=0.7)
    for c in genmeta.taken_over_shapes():
        yield "shape-member-taken-over-from-a-base", c
    for c in genmeta.late_shapes():
        yield "late-decoration-shapes", c
    for _ in range(4000 if thorough else 500):
        yield "rnd-late-decorations", genmeta.random_history(rng, max_classes=6, p_inv=0.4, late=True)


def search_cases(rng, hint, n):
    for _ in range(n):
        yield "search", genmeta.random_history(rng, max_classes=6, p_inv=0.7)


def driver_inputs(case):
    return [] if case.get("dom") == "derived" else [case]


def run_impl(case):
    if case.get("dom") == "derived":
        return impl_derived(case)
    return metaprop.run_impl(case)


def model_view(case, mos):
    if case.get("dom") == "derived":
        return {"derived": "unchanged"}
    return metaprop.model_view(case, mos[0])


def project(case, obs):
    if case.get("dom") == "derived":
        return "untied"
    return _C04.project(case, obs)


def impl_derived(case):
    """decorate a callable derived from an already contracted one; observe the original before and after"""
    icontract = common.assert_repo_import()
    import icontract._checkers as ck
    target = case["target"]
    if target == "function":
        @icontract.require(lambda x: x > 0)
        @icontract.snapshot(lambda x: x, name="x0")
        @icontract.ensure(lambda result, OLD: result < 100 and OLD.x0 >= 0)
        def f(x, y=1):
            return x * y
        orig, call = f, (lambda x: f(x))
    elif target == "async_function":
        @icontract.require(lambda x: x > 0)
        @icontract.ensure(lambda result: result < 100)
        async def f(x, y=1):
            return x * y

        def call(x):
            co = f(x)
            try:
                co.send(None)
            except StopIteration as e:
                return e.value
        orig = f
    else:
        class A(icontract.DBC):
            @icontract.require(lambda x: x > 0)
            @icontract.ensure(lambda result: result < 100)
            def m(self, x, y=1):
                return x * y

            @staticmethod
            @icontract.require(lambda x: x > 0)
            @icontract.ensure(lambda result: result < 100)
            def s(x, y=1):
                return x * y
        a = A()
        if target == "method":
            orig, call = A.m, (lambda x: a.m(x))
        else:
            orig, call = A.__dict__["s"].__func__, (lambda x: A.s(x))

    def observe():
        c = ck.find_checker(orig)
        lists = [[id(k) for k in g] for g in c.__preconditions__], [id(k) for k in c.__postconditions__], \
            [id(k) for k in c.__postcondition_snapshots__]
        verdicts = []
        for x in (-5, 0, 1, 5, 20, 50, 99, 100, 500):
            try:
                verdicts.append(["ret", call(x)])
            except icontract.ViolationError:
                verdicts.append(["violation"])
            except BaseException as e:  # noqa: B902
                verdicts.append(["raise", type(e).__name__])
        return [lists, verdicts]

    before = observe()
    kind = case["kind"]
    base = orig if target != "method" else functools.partial(orig, a)
    if kind == "partial_kw":
        derived = functools.partial(base, y=2)
    elif kind == "partial_pos":
        derived = functools.partial(base, 3)
    elif kind == "partial_of_partial":
        derived = functools.partial(functools.partial(base, y=2))
    elif kind == "lambda":
        derived = lambda x: base(x)  # noqa: E731
    elif kind == "callable_object":
        class Wrapper:
            def __init__(self, g):
                self.func = g          # same attribute name as functools.partial

            def __call__(self, x):
                return self.func(x)
        derived = Wrapper(base)
    elif kind == "partial_of_method":
        derived = functools.partial(orig, a) if target == "method" else functools.partial(base)
    elif kind == "partial_of_static":
        derived = functools.partial(base, y=1)
    else:
        derived = functools.partial(base)
    try:
        if case["deco"] == "require":
            new = icontract.require(lambda: False)(derived)
        elif case["deco"] == "ensure":
            new = icontract.ensure(lambda result: False)(derived)
        else:
            new = icontract.snapshot(lambda: 1, name="extra")(icontract.ensure(lambda result: False)(derived))
        deco_out = ["ok", new is not derived]
    except BaseException as e:  # noqa: B902
        deco_out = ["raise", type(e).__name__, str(e)[:120]]
    after = observe()
    return {"before": before, "after": after, "deco": deco_out}


def spec(case, mos, io):
    if case.get("dom") == "derived":
        if io["before"] != io["after"]:
            return ["decorating a %s of the contracted %s with %s changed the original's contracts / verdicts: %s -> %s"
                    % (case["kind"], case["target"], case["deco"], io["before"], io["after"])]
        return []
    mo = mos[0]
    fails = []
    ops = case["ops"]
    prev = []
    for i, (op, is_, ms) in enumerate(zip(ops, io["steps"], mo["steps"])):
        cur = metaprop.impl_obs_sorted(is_["obs"])
        dbc = dict((c["k"], c["dbc"]) for c in ms["obs"])
        mro = dict((c["k"], c["mro"]) for c in ms["obs"])
        before = dict((c["k"], c) for c in prev)
        for c in cur:
            k = c["k"]
            if k not in before:
                continue
            if not all(dbc.get(a, True) for a in mro.get(k, [k])):
                continue
            if op["op"] == "inv" and op["k"] in mro.get(k, [k]):
                continue            # decorating a class legitimately strengthens it and its descendants
            if op["op"] in ("pre", "post", "snap") and c != before[k]:
                # a late decoration of a member of class K: the classes that resolve that member to K's own function
                # (K itself and descendants that do not override it) see it; nobody else does
                owners = _owners_of(ops, op["f"])        # (a function object taken over by a derived class has several)
                owner = owners[0] if owners else None
                if owner is not None:
                    K, key = owner
                    declared = dict((o["k"], set(kk for kk, _m in o["ns"])) for o in ops if o["op"] == "class")
                    prov = next((a for a in mro.get(k, [k]) if key in declared.get(a, ())), None)
                    # (what the member REALLY resolves to: the library may have bound a base's function on an intermediate
                    # class when that class was given an invariant - the C04 copy-down finding; a class whose member is
                    # the decorated function itself sees the decoration like the owner does)
                    real = (is_.get("fids") or {}).get(str(k), {}).get(key)
                    if prov in [kk for kk, key_ in owners if key_ == key] or real == op["f"]:
                        strip = lambda cc: {**cc, "members": [mm for mm in cc["members"] if mm[0] != key]}  # noqa: E731
                        if strip(c) == strip(before[k]):
                            continue
            if c != before[k] and op["op"] == "class" and len(op["bases"]) > 1:
                # the class statement binds a function object that is ALSO a member of the earlier class (taken over: `m = Base.m`,
                # `@Base.p.setter`) while ANOTHER base declares contracts for that member: the library writes what the
                # function inherits from the other base onto the shared function (known finding; a statement with a single
                # base, or a change that merely repeats the function's own contracts, is NOT this finding)
                shared = _shared_keys(ops, op, k)
                strip = lambda cc: {**cc, "members": [mm for mm in cc["members"] if mm[0] not in shared]}  # noqa: E731
                if shared and strip(c) == strip(before[k]):
                    fails.append("[member-taken-over-inherits-from-another-base] step %d (class %s, bases %s): the member %s of the earlier "
                                 "class %d is the very function this class binds again; what it inherits from the other base was "
                                 "written onto the shared function" % (i, op["k"], op["bases"], sorted(shared), k))
                    continue
            if c != before[k]:
                fails.append("step %d (%s %s): contracts of the earlier class %d changed from %s to %s"
                             % (i, op["op"], op["k"] or op["f"], k, before[k], c))
        prev = cur
    # behavioural channel: the verdicts of real calls on every class (judged against its own introspected lists)
    from props import C18 as _C18
    for mm in io.get("verdict_mismatches", []):
        if not _C18.late_invariant_mismatch(case, mm):
            fails.append("class %s member %s with contract %s false: the class's own contracts say %s, the real call %s - "
                         "another class's definition or use changed its verdict" % (mm["class"], mm["member"], mm["false"], mm["by_hand"], mm["real"]))
    return fails


def _member_fids(m):
    if not isinstance(m, dict):
        return set()
    kind = next(iter(m))
    if kind == "prop":
        return set(v for v in m["prop"].values() if v is not None)
    return {m[kind]["f"]}


def _shared_keys(ops, op, k):
    """keys under which the class statement `op` binds a function object that the earlier class `k` (or an ancestor it
    resolves the key to) binds too"""
    earlier = {}
    for o in ops:
        if o is op:
            break
        if o["op"] == "class":
            for key, m in o["ns"]:
                earlier.setdefault(key, set()).update(_member_fids(m))
    return set(key for key, m in op["ns"] if _member_fids(m) & earlier.get(key, set()))


def _ids(member_entry):
    out = set()
    for acc in member_entry[1]:
        out.update(x for g in acc["pre"] for x in g)
        out.update(acc["snaps"])
        out.update(acc["posts"])
    return out


def _gained_foreign(before, after, keys):
    b = dict((m[0], m) for m in before["members"])
    a = dict((m[0], m) for m in after["members"])
    return any(key in a and key in b and _ids(a[key]) - _ids(b[key]) for key in keys)


def _owners_of(ops, f):
    out = []
    for o in ops:
        if o["op"] == "class":
            for key, m in o["ns"]:
                if isinstance(m, dict):
                    kind = next(iter(m))
                    if kind in ("func", "static", "classm") and m[kind]["f"] == f:
                        out.append((o["k"], key))
    return out


def _owner_of(ops, f):
    for o in ops:
        if o["op"] == "class":
            for key, m in o["ns"]:
                if isinstance(m, dict):
                    kind = next(iter(m))
                    if kind in ("func", "static", "classm") and m[kind]["f"] == f:
                        return o["k"], key
    return None


def classify(case, mos, io, fails):
    if case.get("dom") == "derived":
        return "unclassified"
    if fails and all(f.startswith("[member-taken-over-inherits-from-another-base]") for f in fails):
        return "member-taken-over-inherits-from-another-base"
    mo = mos[0]
    # every failing step decorates a class that, at that moment, has no invariant lists of its own but
    # reaches a base's lists through the MRO (the base got its first invariant after the subclass was created)
    import re
    steps = [int(m.group(1)) for f in fails for m in [re.match(r"step (\d+) \(inv", f)] if m]
    if steps and len(steps) == len(fails):
        ok = True
        for i in steps:
            k = case["ops"][i]["k"]
            before = dict((c["k"], c) for c in mo["steps"][i - 1]["obs"]) if i > 0 else {}
            if k not in before or before[k]["invOwner"] in (None, k):
                ok = False
        if ok:
            return "subclass-shares-lists-of-late-decorated-base"
    return "unclassified"


def nontrivial_key(case, mos):
    if case.get("dom") == "derived":
        return (case["kind"], case["target"], case["deco"])
    mo = mos[0]
    if sum(1 for o in case["ops"] if o["op"] == "class") < 2:
        return None
    return _C04.nontrivial_key(case, mo)


def stats(case, mos, io, dist):
    if case.get("dom") == "derived":
        dist["derived:" + case["kind"]] += 1
        return
    _C04.stats(case, mos[0], io, dist)
