"""C14 - satisfied contracts are transparent."""
import itertools

import ckprop
import genck
import implc14
import implck
import directed

DESCRIPTION = ("Lean: Props/C14.lean (any sequence of contract decorators interleaved with foreign functools.wraps decorators "
               "yields one checker carrying every contract, and every foreign layer still runs; with satisfied contracts the "
               "wrapper forwards the call's objects and returns the body's object / exception; instantiability unchanged by the "
               "__new__ wrapper for every constructor shape). Tie + oracle: stacks of 1-5 decorators with 0-2 foreign layers at "
               "every position on real functions (sync/async): foreign layers executed, condition call counts, __wrapped__ "
               "chain, name/qualname/doc/module/annotations/signature/coroutine-ness; classes with/without own __init__/"
               "__new__/__slots__/abstract methods, receivers not named self, subclasses adding constructors, compared with "
               "their undecorated twins; satisfied checker-domain cases: identity of the objects the body receives and returns.")
RULE = ("exhaustive: all stacks over {require, ensure, snapshot, foreign} of length <=4 (<=5 thorough) x sync/async; all 384 "
        "class shapes {init: none/plain/args} x {__new__} x {__slots__} x {DBC} x {receiver name} x {abstract} x {subclass "
        "kinds}; seeded random satisfied checker cases of all kinds and signatures; distinct = the case itself")
PROJECTION = "(stack: foreign layers run, #conditions evaluated, checker present, list sizes) / (class: decorated twin behaves as the plain twin) / (satisfied call: body binding, outcome)"
EXHAUSTIVE_STREAM = True
ASSUMPTIONS = ["functools.update_wrapper copies __module__, __name__, __qualname__, __doc__, __annotations__, updates __dict__ and sets __wrapped__ (A-update_wrapper; exercised, not modelled)",
               "CPython's object.__new__/object.__init__ excess-argument rule as stated in Stack.lean (A-object_new)"]
NEIGHBOURS = [{"from": "C19", "limit": 400, "why": "names only reserved when postconditions exist"},
              {"from": "C03", "limit": 400, "why": "member kinds keep their binding behaviour"},
              {"from": "C18", "tags": ["hist"], "limit": 700, "why": "foreign wrappers"}]


run_directed = directed.run


def cases(tier, rng):
    for c in directed.constructor_results_cases():
        yield "directed-constructor-results", c
    for c in directed.descriptor_members_cases():
        yield "directed-descriptor-members", c
    for c in directed.constructor_keyword_named_cls_cases():
        yield "directed-constructor-keyword-named-cls", c
    for c in directed.property_docstrings_cases():
        yield "directed-property-docstrings", c
    thorough = tier == "thorough"
    for c in directed.proxies_and_nested_constructors_cases():
        yield "directed-proxies-and-nested-constructors", c
    for c in directed.class_keyword_arguments_cases():
        yield "directed-class-keyword-arguments", c
    for c in directed.sync_layer_over_coroutine_cases():
        yield "directed-sync-layer-over-coroutine", c
    for c in directed.keyword_named_self_cases():
        yield "directed-keyword-named-self", c
    for n in range(1, (5 if thorough else 4) + 1):
        for decos in itertools.product(["require", "ensure", "snapshot", "foreign"], repeat=n):
            for a in (False, True):
                yield "stack", {"dom": "stack", "decos": list(decos), "async": a}
            if "foreign" in decos and n <= 3:
                yield "stack-foreign-object", {"dom": "stack", "decos": list(decos), "async": False, "foreignKind": "object"}
    for init in (None, "plain", "args"):
        for new in (False, True):
            for slots in (False, True):
                for dbc in (False, True):
                    for recv in ("self", "this"):
                        for abstract in (False, True):
                            for sub in (None, "init_args", "plain", "no_init"):
                                yield "class", {"dom": "c14class", "spec": {"init": init, "new": new, "slots": slots, "dbc": dbc,
                                                                            "receiver": recv, "abstract": abstract, "sub": sub}}
                                if abstract and sub:
                                    # the subclass does not implement the abstract method: it stays abstract
                                    yield "class", {"dom": "c14class", "spec": {"init": init, "new": new, "slots": slots, "dbc": dbc,
                                                                                "receiver": recv, "abstract": abstract, "sub": sub,
                                                                                "sub_leaves_abstract": True}}
    for dbc in (False, True):
        for redecorate in (False, True):
            for dj in (False, True):
                for args in ([], [5]):
                    yield "class-diamond", {"dom": "c14class", "spec": {"diamond": True, "dbc": dbc, "redecorate": redecorate,
                                                                       "decorate_joined": dj, "args": args}}
    aw = {"T": 1}
    for _ in range(20000 if thorough else 2500):
        c = genck.random_case(rng, ans_weights=aw, max_posts=2)
        for item in c["capture"]:
            item[1] = genck.T(200 + item[0])
        yield "satisfied", c


def search_cases(rng, hint, n):
    return []


def driver_inputs(case):
    if case["dom"] == "c14class":
        return []
    return [case]


def run_impl(case):
    if case["dom"] == "stack":
        return implc14.run_stack(case)
    if case["dom"] == "c14class":
        if case["spec"].get("diamond"):
            return implc14.run_diamond(case["spec"])
        return implc14.run_class(case["spec"])
    return implck.run(case)


def model_view(case, mos):
    if case["dom"] == "stack":
        return mos[0]
    if case["dom"] == "c14class":
        return {"transparent": True}
    return implck.model_view(case, mos[0])


def project(case, obs):
    if case["dom"] == "stack":
        if obs.get("define_err") is not None:
            return ["define_err"]
        if "foreign" in obs:
            return [obs["foreign"], obs["has_checker"], obs["npre"] if obs["has_checker"] else 0,
                    obs["npost"] if obs["has_checker"] else 0, obs["nsnap"] if obs["has_checker"] else 0]
        return [[e[1] for e in obs["log"] if e[0] == "foreign"], obs["has_checker"], obs.get("npre", 0), obs.get("npost", 0),
                obs.get("nsnap", 0)]
    if case["dom"] == "c14class":
        if "transparent" in obs:
            return True
        if "skip" in obs:
            return True
        return obs["plain"] == obs["decorated"] and obs["same_class"] is True
    if obs.get("define", ["ok"]) != ["ok"]:
        return ["define-failed"]
    return [[ev for ev in obs["trace"] if ev[0] == "body"], implck.loosen(obs["out"])]


def spec(case, mos, io):
    fails = []
    if case["dom"] == "stack":
        decos = case["decos"]
        # definition must fail only for a snapshot without a postcondition below it
        has_post = False
        bad = False
        for d in decos:
            if d == "ensure":
                has_post = True
            if d == "snapshot" and not has_post:
                bad = True
        if bad:
            if io["define_err"] is None:
                fails.append("snapshot without a postcondition below it accepted")
            return fails
        if io["define_err"] is not None:
            return ["decoration failed: %s" % io["define_err"]]
        if io["call_err"] is not None:
            return ["call with satisfied contracts failed: %s" % io["call_err"]]
        n = len(decos)
        want_foreign = [i for i in reversed(range(n)) if decos[i] == "foreign"]
        got = [e[1] for e in io["log"] if e[0] == "foreign"]
        if got != want_foreign:
            fails.append("foreign layers run %s, applied %s" % (got, want_foreign))
        nconds = sum(1 for d in decos if d in ("require", "ensure"))
        if len([e for e in io["log"] if e[0] == "cond"]) != nconds:
            fails.append("%d conditions evaluated, %d contracts decorated" % (len([e for e in io["log"] if e[0] == "cond"]), nconds))
        if len([e for e in io["log"] if e[0] == "body"]) != 1:
            fails.append("body ran %d times" % len([e for e in io["log"] if e[0] == "body"]))
        if not io["result_is_bodys"]:
            fails.append("the caller did not receive the very object the body returned")
        if not io["reaches_bare"]:
            fails.append("the original function is not reachable through __wrapped__")
        for k, v in io["meta"].items():
            if not v:
                fails.append("%s is not preserved" % k)
        if io["has_checker"] != (nconds > 0):
            fails.append("checker present: %s with %d contract decorators" % (io["has_checker"], nconds))
        if io["has_checker"] and (io["npre"], io["npost"]) != (decos.count("require"), decos.count("ensure")):
            fails.append("the checker carries %d/%d contracts, decorated %d/%d" % (io["npre"], io["npost"], decos.count("require"), decos.count("ensure")))
        return fails
    if case["dom"] == "c14class":
        if "skip" in io:
            return []
        if io["same_class"] is not True:
            fails.append("invariant(...) did not return the very class object")
        d = io["decorated"]
        if "define" in d:
            return ["decorating the class failed: %s" % (d["define"],)]
        for k, v in io["plain"].items():
            if d.get(k) != v:
                fails.append("%s: plain twin %s, class with invariant %s" % (k, v, d.get(k)))
        return fails
    if io.get("define", ["ok"]) != ["ok"]:
        return ["definition raised %s" % (io["define"],)]
    sp = mos[0]["spec"]
    if not sp["callOk"] or not sp["capTotal"]:
        return fails
    bound = implck.py_bind(case)
    if bound is None:
        return fails
    bb = ckprop.body_bound(io)
    if bb != bound:
        fails.append("the body received %s, the call binds %s" % (bb, bound))
    b = case["body"]
    if ckprop.ans_kind(b) == "ret":
        if io["out"] != ckprop.expected_ret(case):
            fails.append("body returned %s, caller received %s" % (ckprop.expected_ret(case), io["out"]))
    else:
        if io["out"] != ["raise", ["user", b["raises"]["e"]["id"]]]:
            fails.append("body raised %d, caller got %s" % (b["raises"]["e"]["id"], io["out"]))
    return fails


def classify(case, mos, io, fails):
    return "unclassified"


def nontrivial_key(case, mos):
    if case["dom"] == "stack":
        return (tuple(case["decos"]), case["async"], case.get("foreignKind"))
    if case["dom"] == "c14class":
        return repr(sorted(case["spec"].items(), key=str))
    return ckprop.shape_key(case)


def stats(case, mos, io, dist):
    dist["dom:" + case["dom"]] += 1
    if case["dom"] == "stack":
        dist["foreign_layers:%d" % case["decos"].count("foreign")] += 1
        dist["len:%d" % len(case["decos"])] += 1
    elif case["dom"] == "checker":
        dist["kind:" + case["kind"]] += 1
