"""Child process of the C20 hash-seed check: prints the messages of the given violating calls
(location normalised) as JSON; run under different PYTHONHASHSEED values by exprprop.run_hashseed."""
import json
import sys

import implexpr


def main():
    with open(sys.argv[1]) as fh:
        cases = json.load(fh)
    outs = implexpr.run_batch(cases, normalise_location=True)
    print(json.dumps([o.get("variant_msgs") if o.get("define") == ["ok"] else o.get("define") for o in outs]))


if __name__ == "__main__":
    main()
