"""Directed scenarios: small hand-written programs run on the real library and judged directly against
a property's statement.  They cover shapes the executable models do not express (one decorator instance shared by two
functions, objects constructed inside a contract, cancellation inside a method body, classes re-created from their own
namespace).  Each returns {"fails": [...], "observed": ...}."""
import common

icontract = common.assert_repo_import()


def _drive(co):
    try:
        co.send(None)
    except StopIteration as e:
        return e.value
    co.close()
    raise RuntimeError("UnexpectedSuspension")


# --------------------------------------------------------------------------- C05

def shared_decorator(case):
    """ONE contract (decorator instance, or inherited contract) evaluated for two callables with different signatures:
    every evaluation must receive exactly the values of the call it belongs to."""
    sentinel = object()
    seen = []

    def cond(x, lo=sentinel):
        seen.append(["cond", x, "DEFAULT" if lo is sentinel else lo])
        return True

    body_seen = []
    kind = case["kind"]
    if kind == "decorator":
        deco = icontract.require(cond) if case["role"] == "require" else icontract.ensure(cond)

        @deco
        def f(x):
            body_seen.append(["f", x, "DEFAULT"])
            return x

        @deco
        def g(x, lo=10):
            body_seen.append(["g", x, lo])
            return x

        calls = {"f": f, "g": g}
    else:
        class A(icontract.DBC):
            @icontract.require(cond)
            def m(self, x):
                body_seen.append(["f", x, "DEFAULT"])
                return x

        class B(A):
            def m(self, x, lo=10):
                body_seen.append(["g", x, lo])
                return x

        a, b = A(), B()
        calls = {"f": a.m, "g": b.m}
    fails = []
    for name, args, kwargs in case["calls"]:
        del seen[:]
        del body_seen[:]
        try:
            calls[name](*args, **kwargs)
        except BaseException as e:  # noqa: B902
            fails.append("call %s%s%s raised %s: %s" % (name, args, kwargs, type(e).__name__, str(e)[:80]))
            continue
        if not body_seen:
            fails.append("call %s%s%s: the body did not run" % (name, args, kwargs))
            continue
        want = ["cond", body_seen[0][1], body_seen[0][2] if name == "g" else "DEFAULT"]
        if seen != [want]:
            fails.append("call %s%s%s: the body received x=%r lo=%r, the condition was evaluated as %s (expected %s)"
                         % (name, args, kwargs, body_seen[0][1], body_seen[0][2], seen, [want]))
    return {"fails": fails}


def shared_decorator_cases():
    seqs = [
        [("f", [1], {}), ("g", [2], {}), ("g", [3], {"lo": 5}), ("f", [4], {})],
        [("g", [2], {"lo": 7}), ("f", [1], {}), ("g", [3], {}), ("g", [3, 9], {})],
        [("g", [1], {}), ("g", [1], {"lo": 300}), ("f", [2], {})],
    ]
    for kind in ("decorator", "inherited"):
        for role in (("require", "ensure") if kind == "decorator" else ("require",)):
            for i, calls in enumerate(seqs):
                yield {"dom": "directed", "name": "shared_decorator", "kind": kind, "role": role, "calls": calls, "variant": i}


# --------------------------------------------------------------------------- C10

def construct_inside_contract(case):
    """an object of a class with invariants (with or without an own constructor) is built while a contract of f is
    being evaluated, and the same evaluation then re-enters f: the evaluation terminates and only the own re-entry
    is unchecked"""
    import sys
    import collections
    log = []
    shape = case["shape"]

    if shape == "namedtuple":
        @icontract.invariant(lambda self: log.append("inv") or True)
        class P(collections.namedtuple("P", "a b")):
            pass

        make = lambda: P(1, 2)  # noqa: E731
    elif shape == "no_init":
        @icontract.invariant(lambda self: log.append("inv") or True)
        class P(icontract.DBC):
            z = 3

        make = lambda: P()  # noqa: E731
    else:
        @icontract.invariant(lambda self: log.append("inv") or True)
        class P:
            def __init__(self):
                self.z = 3

        make = lambda: P()  # noqa: E731

    def pre_f():
        log.append("pre_f")
        make()
        if case["mutual"]:
            g()
        else:
            f()
        f()
        return True

    def pre_g():
        log.append("pre_g")
        make()
        f()
        return True

    @icontract.require(pre_f)
    def f():
        log.append("f")
        return 1

    @icontract.require(pre_g)
    def g():
        log.append("g")
        return 2

    old = sys.getrecursionlimit()
    sys.setrecursionlimit(400)
    try:
        try:
            f()
            out = "ok"
        except RecursionError:
            out = "RecursionError"
        except BaseException as e:  # noqa: B902
            out = type(e).__name__
    finally:
        sys.setrecursionlimit(old)
    if case["mutual"]:
        want = ["pre_f", "inv", "pre_g", "inv", "f", "g", "f", "f"]
    else:
        want = ["pre_f", "inv", "f", "f", "f"]
    fails = []
    if out != "ok" or log != want:
        fails.append("constructing a %s object inside a contract of f and re-entering f: outcome %s, evaluations %s; expected ok, %s"
                     % (shape, out, log[:30], want))
    return {"fails": fails}


def construct_inside_contract_cases():
    for shape in ("namedtuple", "no_init", "with_init"):
        for mutual in (False, True):
            yield {"dom": "directed", "name": "construct_inside_contract", "shape": shape, "mutual": mutual}


# --------------------------------------------------------------------------- C11

class _Cancelled(BaseException):
    """stands for asyncio.CancelledError / GeneratorExit / KeyboardInterrupt: a BaseException thrown into the suspended call"""


class _Pause:
    def __await__(self):
        yield self


def cancelled_in_body(case):
    """an async call is cancelled (or an exception is thrown in) while it is suspended in the BODY of a checked callable;
    afterwards checking is re-armed: the same task's next calls are checked as in a fresh process"""
    kind = case["kind"]
    exc = {"BaseException": _Cancelled("cancelled"), "Exception": RuntimeError("boom"), "close": None}[case["exc"]]
    fails = []

    if kind == "method":
        @icontract.invariant(lambda self: self.ok)
        class K:
            def __init__(self):
                self.ok = True

            async def slow(self):
                await _Pause()
                return 1

            async def other(self):
                return 2

            def _break(self):
                object.__setattr__(self, "ok", False)

        o = K()
        start = o.slow
        later = o.other
        breaker = o._break
    else:
        state = {"ok": True}

        @icontract.require(lambda: state["ok"])
        @icontract.ensure(lambda result: result is not None)
        async def slow():
            await _Pause()
            return 1

        start = later = slow
        breaker = lambda: state.update(ok=False)  # noqa: E731

    co = start()
    try:
        co.send(None)                      # runs the checks before the body and suspends inside the body
    except StopIteration:
        return {"fails": ["harness: the call did not suspend in its body"]}
    try:
        if exc is None:
            co.close()                     # GeneratorExit at the suspension point
            got = "closed"
        else:
            co.throw(exc)
            got = "returned"
    except StopIteration:
        got = "returned"
    except BaseException as e:  # noqa: B902
        got = "same-exception" if e is exc else "other:%s" % type(e).__name__
    want = "closed" if exc is None else "same-exception"
    if got != want:
        fails.append("the exception thrown into the suspended body: expected it to surface unchanged, got %s" % got)
    breaker()
    co2 = later()
    try:
        try:
            co2.send(None)
            res = "suspended"
            co2.close()
        except StopIteration as e:
            res = "returned %r" % (e.value,)
    except icontract.ViolationError:
        res = "violation"
    except BaseException as e:  # noqa: B902
        res = "raised %s" % type(e).__name__
    if res != "violation":
        fails.append("after a %s %s was cancelled in its body (%s) and the state was broken, the next call: %s (expected a violation: "
                     "checking must be re-armed)" % (kind, "call", case["exc"], res))
    return {"fails": fails}


def cancelled_in_body_cases():
    for kind in ("method", "function"):
        for exc in ("BaseException", "Exception", "close"):
            yield {"dom": "directed", "name": "cancelled_in_body", "kind": kind, "exc": exc}


# --------------------------------------------------------------------------- C17

def recreated_class(case):
    """a class is re-created from its own namespace (as dataclass(slots=True), attrs or class factories do); giving one of
    the two an invariant afterwards must not change the other"""
    def nonneg(self):
        return self.x >= 0

    def small(self):
        return self.x < 100

    @icontract.invariant(nonneg)
    class A(icontract.DBC):
        def __init__(self, x):
            self.x = x

        def get(self):
            return self.x

    ns = dict(A.__dict__)
    ns.pop("__dict__", None)
    ns.pop("__weakref__", None)
    B = type(A)(A.__name__ + "Rebuilt", A.__bases__, ns)

    def verdict(cls, x):
        try:
            cls(x).get()
            return "ok"
        except icontract.ViolationError:
            return "violation"
        except BaseException as e:  # noqa: B902
            return "raised %s" % type(e).__name__

    target, other = (B, A) if case["decorate"] == "rebuilt" else (A, B)
    before = [verdict(other, 500), verdict(other, -1), len(other.__invariants__)]
    co = icontract.InvariantCheckEvent.ALL if case["check_on"] == "all" else icontract.InvariantCheckEvent.CALL
    icontract.invariant(small, check_on=co)(target)
    after = [verdict(other, 500), verdict(other, -1), len(other.__invariants__)]
    fails = []
    if before != after:
        fails.append("giving the %s class an invariant changed the other class: %s -> %s" % (case["decorate"], before, after))
    if verdict(target, 500) != "violation":
        fails.append("the new invariant is not enforced on the class it was given to")
    return {"fails": fails}


def recreated_class_cases():
    for decorate in ("rebuilt", "original"):
        for check_on in ("call", "all"):
            yield {"dom": "directed", "name": "recreated_class", "decorate": decorate, "check_on": check_on}


# --------------------------------------------------------------------------- C20 / C07

def rewritten_file(case):
    """the same file path holds different programs one after another (file edited and re-imported, generated programs):
    every violation message shows the text and the values of the condition that is violated NOW"""
    import importlib.util
    import os
    import shutil
    import tempfile
    tmp = tempfile.mkdtemp(prefix="verif_rewrite_")
    fails = []
    try:
        path = os.path.join(tmp, "prog.py")
        versions = case["versions"]
        for i, (cond_src, arg) in enumerate(versions):
            if case["form"] == "lambda":
                src = "import icontract\n\n\n@icontract.require(lambda x: %s)\ndef f(x):\n    return x\n" % cond_src
            else:
                src = ("import icontract\n\n\n@icontract.require(\n    lambda x:\n    %s)\ndef f(x):\n    return x\n" % cond_src)
            with open(path, "w") as fh:
                fh.write(src + "# %s\n" % ("pad" * i))
            os.utime(path, (1000000000 + 10 * i, 1000000000 + 10 * i))
            spec = importlib.util.spec_from_file_location("verif_rewrite_%d_%d" % (id(case) % 100000, i), path)
            mod = importlib.util.module_from_spec(spec)
            spec.loader.exec_module(mod)
            for rep in range(2):
                try:
                    mod.f(arg)
                    fails.append("version %d (%s) with x=%r: no violation" % (i, cond_src, arg))
                except icontract.ViolationError as e:
                    msg = str(e)
                    first = " ".join(msg.split(":", 2)[2].split()) if msg.count(":") >= 2 else msg
                    want_text = " ".join(cond_src.split())
                    if want_text not in " ".join(msg.split()) or ("x was %r" % (arg,)) not in msg:
                        fails.append("version %d of the file (%s, x=%r), evaluation %d: the message is %r" % (i, cond_src, arg, rep, msg[:200]))
    finally:
        shutil.rmtree(tmp, ignore_errors=True)
    return {"fails": fails}


def rewritten_file_cases():
    vs = [[("x > 0", -1), ("x < 5", 9)], [("x > 0 and x != 3", 3), ("x % 2 == 0", 7), ("x > 0 and x != 3", -3)],
          [("len(str(x)) < 2", 123), ("len(str(x)) > 5", 45)]]
    for form in ("lambda", "multiline"):
        for i, v in enumerate(vs):
            yield {"dom": "directed", "name": "rewritten_file", "form": form, "versions": v, "variant": i}


# --------------------------------------------------------------------------- C02 / C01

def used_before_override(case):
    """a decorated function is CALLED on its own and only then becomes an override in a DBC hierarchy: from then on the
    inherited postconditions (with their snapshots) gate its returns and the inherited preconditions weaken its own"""
    log = []
    is_async = case["async"]

    def run(thunk):
        try:
            r = thunk()
            if is_async:
                r = _drive(r)
            return ["ret", r]
        except icontract.ViolationError:
            return ["violation"]
        except BaseException as e:  # noqa: B902
            return ["raise", type(e).__name__]

    def base_pre(self, x):
        return x > 100

    def own_pre(self, x):
        return x < 0

    def base_post(result, OLD):
        log.append(("base_post", OLD.seen))
        return result >= 0

    def own_post(result):
        return result % 2 == 0

    if is_async:
        class Base(icontract.DBC):
            @icontract.require(base_pre)
            @icontract.snapshot(lambda x: x, name="seen")
            @icontract.ensure(base_post)
            async def value(self, x):
                return x

        @icontract.require(own_pre)
        @icontract.ensure(own_post)
        async def impl(self, x):
            return abs(x) if x > 1000 else x
    else:
        class Base(icontract.DBC):
            @icontract.require(base_pre)
            @icontract.snapshot(lambda x: x, name="seen")
            @icontract.ensure(base_post)
            def value(self, x):
                return x

        @icontract.require(own_pre)
        @icontract.ensure(own_post)
        def impl(self, x):
            return abs(x) if x > 1000 else x

    fails = []
    for x in case["before"]:
        got = run(lambda: impl(None, x))
        want = ["violation"] if (not x < 0) or x % 2 else ["ret", x]
        if got != want:
            fails.append("stand-alone impl(%r): %s, expected %s" % (x, got, want))

    class Derived(Base):
        value = impl

    d = Derived()
    for x in (-4, -3, 102, 103, 50, 2000):
        del log[:]
        got = run(lambda: d.value(x))
        if not (x > 100 or x < 0):
            want = ["violation"]
        else:
            r = abs(x) if x > 1000 else x
            want = ["ret", r] if (r >= 0 and r % 2 == 0) else ["violation"]
        if got != want:
            fails.append("after %d stand-alone call(s), Derived().value(%r): %s, expected %s" % (len(case["before"]), x, got, want))
        elif (x > 100 or x < 0) and log != [("base_post", x)]:
            fails.append("Derived().value(%r): the inherited postcondition was evaluated as %s, expected once with OLD.seen=%r" % (x, log, x))
    return {"fails": fails}


def used_before_override_cases():
    for a in (False, True):
        for before in ([], [-2], [-2, -3, 5]):
            yield {"dom": "directed", "name": "used_before_override", "async": a, "before": before}


SCENARIOS = {"used_before_override": used_before_override, "rewritten_file": rewritten_file, "shared_decorator": shared_decorator, "construct_inside_contract": construct_inside_contract,
             "cancelled_in_body": cancelled_in_body, "recreated_class": recreated_class}


def run(case):
    return SCENARIOS[case["name"]](case)
