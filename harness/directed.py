"""Directed scenarios: small hand-written programs run on the real library and judged directly against
a property's statement.  They cover shapes the executable models do not express (one decorator instance shared by two
functions, objects constructed inside a contract, cancellation inside a method body, classes re-created from their own
namespace).  Each returns {"fails": [...], "observed": ...}."""
import common

icontract = common.assert_repo_import()


def _drive(co):
    try:
        co.send(None)
    except StopIteration as e:
        return e.value
    co.close()
    raise RuntimeError("UnexpectedSuspension")


# --------------------------------------------------------------------------- C05

def shared_decorator(case):
    """ONE contract (decorator instance, or inherited contract) evaluated for two callables with different signatures:
    every evaluation must receive exactly the values of the call it belongs to."""
    sentinel = object()
    seen = []

    def cond(x, lo=sentinel):
        seen.append(["cond", x, "DEFAULT" if lo is sentinel else lo])
        return True

    body_seen = []
    kind = case["kind"]
    if kind == "decorator":
        deco = icontract.require(cond) if case["role"] == "require" else icontract.ensure(cond)

        @deco
        def f(x):
            body_seen.append(["f", x, "DEFAULT"])
            return x

        @deco
        def g(x, lo=10):
            body_seen.append(["g", x, lo])
            return x

        calls = {"f": f, "g": g}
    else:
        class A(icontract.DBC):
            @icontract.require(cond)
            def m(self, x):
                body_seen.append(["f", x, "DEFAULT"])
                return x

        class B(A):
            def m(self, x, lo=10):
                body_seen.append(["g", x, lo])
                return x

        a, b = A(), B()
        calls = {"f": a.m, "g": b.m}
    fails = []
    for name, args, kwargs in case["calls"]:
        del seen[:]
        del body_seen[:]
        try:
            calls[name](*args, **kwargs)
        except BaseException as e:  # noqa: B902
            fails.append("call %s%s%s raised %s: %s" % (name, args, kwargs, type(e).__name__, str(e)[:80]))
            continue
        if not body_seen:
            fails.append("call %s%s%s: the body did not run" % (name, args, kwargs))
            continue
        want = ["cond", body_seen[0][1], body_seen[0][2] if name == "g" else "DEFAULT"]
        if seen != [want]:
            fails.append("call %s%s%s: the body received x=%r lo=%r, the condition was evaluated as %s (expected %s)"
                         % (name, args, kwargs, body_seen[0][1], body_seen[0][2], seen, [want]))
    return {"fails": fails}


def shared_decorator_cases():
    seqs = [
        [("f", [1], {}), ("g", [2], {}), ("g", [3], {"lo": 5}), ("f", [4], {})],
        [("g", [2], {"lo": 7}), ("f", [1], {}), ("g", [3], {}), ("g", [3, 9], {})],
        [("g", [1], {}), ("g", [1], {"lo": 300}), ("f", [2], {})],
    ]
    for kind in ("decorator", "inherited"):
        for role in (("require", "ensure") if kind == "decorator" else ("require",)):
            for i, calls in enumerate(seqs):
                yield {"dom": "directed", "name": "shared_decorator", "kind": kind, "role": role, "calls": calls, "variant": i}


# --------------------------------------------------------------------------- C10

def construct_inside_contract(case):
    """an object of a class with invariants (with or without an own constructor) is built while a contract of f is
    being evaluated, and the same evaluation then re-enters f: the evaluation terminates and only the own re-entry
    is unchecked"""
    import sys
    import collections
    log = []
    shape = case["shape"]

    if shape == "namedtuple":
        @icontract.invariant(lambda self: log.append("inv") or True)
        class P(collections.namedtuple("P", "a b")):
            pass

        make = lambda: P(1, 2)  # noqa: E731
    elif shape == "no_init":
        @icontract.invariant(lambda self: log.append("inv") or True)
        class P(icontract.DBC):
            z = 3

        make = lambda: P()  # noqa: E731
    else:
        @icontract.invariant(lambda self: log.append("inv") or True)
        class P:
            def __init__(self):
                self.z = 3

        make = lambda: P()  # noqa: E731

    def pre_f():
        log.append("pre_f")
        make()
        if case["mutual"]:
            g()
        else:
            f()
        f()
        return True

    def pre_g():
        log.append("pre_g")
        make()
        f()
        return True

    @icontract.require(pre_f)
    def f():
        log.append("f")
        return 1

    @icontract.require(pre_g)
    def g():
        log.append("g")
        return 2

    old = sys.getrecursionlimit()
    sys.setrecursionlimit(400)
    try:
        try:
            f()
            out = "ok"
        except RecursionError:
            out = "RecursionError"
        except BaseException as e:  # noqa: B902
            out = type(e).__name__
    finally:
        sys.setrecursionlimit(old)
    if case["mutual"]:
        want = ["pre_f", "inv", "pre_g", "inv", "f", "g", "f", "f"]
    else:
        want = ["pre_f", "inv", "f", "f", "f"]
    fails = []
    if out != "ok" or log != want:
        fails.append("constructing a %s object inside a contract of f and re-entering f: outcome %s, evaluations %s; expected ok, %s"
                     % (shape, out, log[:30], want))
    return {"fails": fails}


def construct_inside_contract_cases():
    for shape in ("namedtuple", "no_init", "with_init"):
        for mutual in (False, True):
            yield {"dom": "directed", "name": "construct_inside_contract", "shape": shape, "mutual": mutual}


# --------------------------------------------------------------------------- C11

class _Cancelled(BaseException):
    """stands for asyncio.CancelledError / GeneratorExit / KeyboardInterrupt: a BaseException thrown into the suspended call"""


class _Pause:
    def __await__(self):
        yield self


def cancelled_in_body(case):
    """an async call is cancelled (or an exception is thrown in) while it is suspended in the BODY of a checked callable;
    afterwards checking is re-armed: the same task's next calls are checked as in a fresh process"""
    kind = case["kind"]
    exc = {"BaseException": _Cancelled("cancelled"), "Exception": RuntimeError("boom"), "close": None}[case["exc"]]
    fails = []

    if kind == "method":
        @icontract.invariant(lambda self: self.ok)
        class K:
            def __init__(self):
                self.ok = True

            async def slow(self):
                await _Pause()
                return 1

            async def other(self):
                return 2

            def _break(self):
                object.__setattr__(self, "ok", False)

        o = K()
        start = o.slow
        later = o.other
        breaker = o._break
    else:
        state = {"ok": True}

        @icontract.require(lambda: state["ok"])
        @icontract.ensure(lambda result: result is not None)
        async def slow():
            await _Pause()
            return 1

        start = later = slow
        breaker = lambda: state.update(ok=False)  # noqa: E731

    co = start()
    try:
        co.send(None)                      # runs the checks before the body and suspends inside the body
    except StopIteration:
        return {"fails": ["harness: the call did not suspend in its body"]}
    try:
        if exc is None:
            co.close()                     # GeneratorExit at the suspension point
            got = "closed"
        else:
            co.throw(exc)
            got = "returned"
    except StopIteration:
        got = "returned"
    except BaseException as e:  # noqa: B902
        got = "same-exception" if e is exc else "other:%s" % type(e).__name__
    want = "closed" if exc is None else "same-exception"
    if got != want:
        fails.append("the exception thrown into the suspended body: expected it to surface unchanged, got %s" % got)
    breaker()
    co2 = later()
    try:
        try:
            co2.send(None)
            res = "suspended"
            co2.close()
        except StopIteration as e:
            res = "returned %r" % (e.value,)
    except icontract.ViolationError:
        res = "violation"
    except BaseException as e:  # noqa: B902
        res = "raised %s" % type(e).__name__
    if res != "violation":
        fails.append("after a %s %s was cancelled in its body (%s) and the state was broken, the next call: %s (expected a violation: "
                     "checking must be re-armed)" % (kind, "call", case["exc"], res))
    return {"fails": fails}


def cancelled_in_body_cases():
    for kind in ("method", "function"):
        for exc in ("BaseException", "Exception", "close"):
            yield {"dom": "directed", "name": "cancelled_in_body", "kind": kind, "exc": exc}


# --------------------------------------------------------------------------- C17

def recreated_class(case):
    """a class is re-created from its own namespace (as dataclass(slots=True), attrs or class factories do); giving one of
    the two an invariant afterwards must not change the other"""
    def nonneg(self):
        return self.x >= 0

    def small(self):
        return self.x < 100

    @icontract.invariant(nonneg)
    class A(icontract.DBC):
        def __init__(self, x):
            self.x = x

        def get(self):
            return self.x

    ns = dict(A.__dict__)
    ns.pop("__dict__", None)
    ns.pop("__weakref__", None)
    B = type(A)(A.__name__ + "Rebuilt", A.__bases__, ns)

    def verdict(cls, x):
        try:
            cls(x).get()
            return "ok"
        except icontract.ViolationError:
            return "violation"
        except BaseException as e:  # noqa: B902
            return "raised %s" % type(e).__name__

    target, other = (B, A) if case["decorate"] == "rebuilt" else (A, B)
    before = [verdict(other, 500), verdict(other, -1), len(other.__invariants__)]
    co = icontract.InvariantCheckEvent.ALL if case["check_on"] == "all" else icontract.InvariantCheckEvent.CALL
    icontract.invariant(small, check_on=co)(target)
    after = [verdict(other, 500), verdict(other, -1), len(other.__invariants__)]
    fails = []
    if before != after:
        fails.append("giving the %s class an invariant changed the other class: %s -> %s" % (case["decorate"], before, after))
    if verdict(target, 500) != "violation":
        fails.append("the new invariant is not enforced on the class it was given to")
    return {"fails": fails}


def recreated_class_cases():
    for decorate in ("rebuilt", "original"):
        for check_on in ("call", "all"):
            yield {"dom": "directed", "name": "recreated_class", "decorate": decorate, "check_on": check_on}


# --------------------------------------------------------------------------- C20 / C07

def rewritten_file(case):
    """the same file path holds different programs one after another (file edited and re-imported, generated programs):
    every violation message shows the text and the values of the condition that is violated NOW"""
    import importlib.util
    import os
    import shutil
    import tempfile
    tmp = tempfile.mkdtemp(prefix="verif_rewrite_")
    fails = []
    try:
        path = os.path.join(tmp, "prog.py")
        versions = case["versions"]
        for i, (cond_src, arg) in enumerate(versions):
            if case["form"] == "lambda":
                src = "import icontract\n\n\n@icontract.require(lambda x: %s)\ndef f(x):\n    return x\n" % cond_src
            else:
                src = ("import icontract\n\n\n@icontract.require(\n    lambda x:\n    %s)\ndef f(x):\n    return x\n" % cond_src)
            with open(path, "w") as fh:
                fh.write(src + "# %s\n" % ("pad" * i))
            os.utime(path, (1000000000 + 10 * i, 1000000000 + 10 * i))
            spec = importlib.util.spec_from_file_location("verif_rewrite_%d_%d" % (id(case) % 100000, i), path)
            mod = importlib.util.module_from_spec(spec)
            spec.loader.exec_module(mod)
            for rep in range(2):
                try:
                    mod.f(arg)
                    fails.append("version %d (%s) with x=%r: no violation" % (i, cond_src, arg))
                except icontract.ViolationError as e:
                    msg = str(e)
                    first = " ".join(msg.split(":", 2)[2].split()) if msg.count(":") >= 2 else msg
                    want_text = " ".join(cond_src.split())
                    if want_text not in " ".join(msg.split()) or ("x was %r" % (arg,)) not in msg:
                        fails.append("version %d of the file (%s, x=%r), evaluation %d: the message is %r" % (i, cond_src, arg, rep, msg[:200]))
    finally:
        shutil.rmtree(tmp, ignore_errors=True)
    return {"fails": fails}


def rewritten_file_cases():
    vs = [[("x > 0", -1), ("x < 5", 9)], [("x > 0 and x != 3", 3), ("x % 2 == 0", 7), ("x > 0 and x != 3", -3)],
          [("len(str(x)) < 2", 123), ("len(str(x)) > 5", 45)]]
    for form in ("lambda", "multiline"):
        for i, v in enumerate(vs):
            yield {"dom": "directed", "name": "rewritten_file", "form": form, "versions": v, "variant": i}


# --------------------------------------------------------------------------- C02 / C01

def used_before_override(case):
    """a decorated function is CALLED on its own and only then becomes an override in a DBC hierarchy: from then on the
    inherited postconditions (with their snapshots) gate its returns and the inherited preconditions weaken its own"""
    log = []
    is_async = case["async"]

    def run(thunk):
        try:
            r = thunk()
            if is_async:
                r = _drive(r)
            return ["ret", r]
        except icontract.ViolationError:
            return ["violation"]
        except BaseException as e:  # noqa: B902
            return ["raise", type(e).__name__]

    def base_pre(self, x):
        return x > 100

    def own_pre(self, x):
        return x < 0

    def base_post(result, OLD):
        log.append(("base_post", OLD.seen))
        return result >= 0

    def own_post(result):
        return result % 2 == 0

    if is_async:
        class Base(icontract.DBC):
            @icontract.require(base_pre)
            @icontract.snapshot(lambda x: x, name="seen")
            @icontract.ensure(base_post)
            async def value(self, x):
                return x

        @icontract.require(own_pre)
        @icontract.ensure(own_post)
        async def impl(self, x):
            return abs(x) if x > 1000 else x
    else:
        class Base(icontract.DBC):
            @icontract.require(base_pre)
            @icontract.snapshot(lambda x: x, name="seen")
            @icontract.ensure(base_post)
            def value(self, x):
                return x

        @icontract.require(own_pre)
        @icontract.ensure(own_post)
        def impl(self, x):
            return abs(x) if x > 1000 else x

    fails = []
    for x in case["before"]:
        got = run(lambda: impl(None, x))
        want = ["violation"] if (not x < 0) or x % 2 else ["ret", x]
        if got != want:
            fails.append("stand-alone impl(%r): %s, expected %s" % (x, got, want))

    class Derived(Base):
        value = impl

    d = Derived()
    for x in (-4, -3, 102, 103, 50, 2000):
        del log[:]
        got = run(lambda: d.value(x))
        if not (x > 100 or x < 0):
            want = ["violation"]
        else:
            r = abs(x) if x > 1000 else x
            want = ["ret", r] if (r >= 0 and r % 2 == 0) else ["violation"]
        if got != want:
            fails.append("after %d stand-alone call(s), Derived().value(%r): %s, expected %s" % (len(case["before"]), x, got, want))
        elif (x > 100 or x < 0) and log != [("base_post", x)]:
            fails.append("Derived().value(%r): the inherited postcondition was evaluated as %s, expected once with OLD.seen=%r" % (x, log, x))
    return {"fails": fails}


def used_before_override_cases():
    for a in (False, True):
        for before in ([], [-2], [-2, -3, 5]):
            yield {"dom": "directed", "name": "used_before_override", "async": a, "before": before}


# --------------------------------------------------------------------------- C17 (more)

def decorating_another_function(case):
    """one decorator instance applied to a second function: the first function's behaviour does not change"""
    def cond(x, lowest=0):
        return x >= lowest

    deco = icontract.require(cond) if case["role"] == "require" else icontract.ensure(cond)

    def verdict(fn, *a):
        try:
            fn(*a)
            return "ok"
        except icontract.ViolationError:
            return "violation"
        except BaseException as e:  # noqa: B902
            return "raised %s" % type(e).__name__

    def with_param():
        @deco
        def f(x, lowest):
            return x
        return f

    def without_param():
        @deco
        def g(x):
            return x
        return g

    first, second = (with_param, without_param) if case["order"] == "param-first" else (without_param, with_param)
    probes_p = [(1, 5), (-1, -3), (7, 7), (0, 1)]
    probes_n = [(1,), (-1,), (0,)]
    fails = []
    f1 = first()
    pr1 = probes_p if first is with_param else probes_n
    before = [verdict(f1, *a) for a in pr1]
    want1 = ["ok" if (a[0] >= (a[1] if len(a) > 1 else 0)) else "violation" for a in pr1]
    if before != want1:
        fails.append("the first function: verdicts %s, expected %s" % (before, want1))
    f2 = second()
    after = [verdict(f1, *a) for a in pr1]
    if after != before:
        fails.append("decorating a second function with the same decorator object changed the first function: %s -> %s on %s" % (before, after, pr1))
    pr2 = probes_p if second is with_param else probes_n
    got2 = [verdict(f2, *a) for a in pr2]
    want2 = ["ok" if (a[0] >= (a[1] if len(a) > 1 else 0)) else "violation" for a in pr2]
    if got2 != want2:
        fails.append("the second function: verdicts %s, expected %s on %s" % (got2, want2, pr2))
    return {"fails": fails}


def decorating_another_function_cases():
    for role in ("require", "ensure"):
        for order in ("param-first", "param-second"):
            yield {"dom": "directed", "name": "decorating_another_function", "role": role, "order": order}


def late_decoration_of_inheriting_override(case):
    """a member that overrides a contracted base member WITHOUT own contracts is decorated after its class exists:
    the contract lands on the subclass member only"""
    def small(result):
        return result < 100

    def nonneg(self, x):
        return x >= 0

    def body(self, x):
        return x

    def mk(doc):
        def f(self, x):
            return x
        f.__doc__ = doc
        return f

    base_f = icontract.require(nonneg)(mk("Return x." if case["base_doc"] else None))
    Base = type(icontract.DBC)("Base", (icontract.DBC,), {"f": base_f})
    Derived = type(Base)("Derived", (Base,), {"f": mk("Override." if case["derived_doc"] else None)})
    Sibling = type(Base)("Sibling", (Base,), {"f": mk(None)})

    def verdict(o, x):
        try:
            o.f(x)
            return "ok"
        except icontract.ViolationError:
            return "violation"
        except BaseException as e:  # noqa: B902
            return "raised %s" % type(e).__name__

    def state():
        return [[verdict(cls(), x) for x in (5, 500, -1)] + [len(cls.f.__postconditions__), sum(len(g) for g in cls.f.__preconditions__)]
                for cls in (Base, Sibling)]

    before = state()
    if case["how"] == "rebind":
        Derived.f = icontract.ensure(small)(Derived.f)
    else:
        icontract.ensure(small)(Derived.f)
    after = state()
    fails = []
    if before != after:
        fails.append("decorating Derived.f (an override without own contracts) changed Base / Sibling: %s -> %s" % (before, after))
    got = [verdict(Derived(), x) for x in (5, 500, -1)]
    if got != ["ok", "violation", "violation"]:
        fails.append("Derived.f after the late @ensure: verdicts %s for (5, 500, -1), expected ['ok', 'violation', 'violation']" % got)
    return {"fails": fails}


def late_decoration_of_inheriting_override_cases():
    for base_doc in (True, False):
        for derived_doc in (False, True):
            for how in ("rebind", "inplace"):
                yield {"dom": "directed", "name": "late_decoration_of_inheriting_override", "base_doc": base_doc, "derived_doc": derived_doc, "how": how}


# --------------------------------------------------------------------------- C14

def sync_layer_over_coroutine(case):
    """a foreign, non-async functools.wraps decorator sits between a coroutine function and the contracts: the contracted
    callable behaves like the uncontracted stack (it is a plain function; what it returns is what the layer returns)"""
    import functools
    import inspect

    async def core(x):
        return x + 1

    def layer(fn):
        if case["layer"] == "consuming":
            @functools.wraps(fn)
            def wrapper(*a, **k):
                return _drive(fn(*a, **k))
        else:
            @functools.wraps(fn)
            def wrapper(*a, **k):
                return fn(*a, **k)
        return wrapper

    bare = layer(core)
    deco = {"require": icontract.require(lambda x: x >= 0), "ensure": icontract.ensure(lambda result: result is not None),
            "both": lambda f: icontract.require(lambda x: x >= 0)(icontract.ensure(lambda result: result is not None)(f))}[case["deco"]]
    contracted = deco(layer(core))

    def observe(fn):
        try:
            r = fn(4)
            kind = "coroutine" if inspect.iscoroutine(r) else type(r).__name__
            if inspect.iscoroutine(r):
                r = _drive(r)
        except BaseException as e:  # noqa: B902
            return [inspect.iscoroutinefunction(fn), "raised", type(e).__name__]
        return [inspect.iscoroutinefunction(fn), kind, r]

    a, b = observe(bare), observe(contracted)
    fails = []
    if a != b:
        fails.append("stack %s layer + %s: [is coroutine function, kind of the returned object, value] is %s without contracts and %s with satisfied contracts"
                     % (case["layer"], case["deco"], a, b))
    return {"fails": fails}


def sync_layer_over_coroutine_cases():
    for layer in ("consuming", "forwarding"):
        for deco in ("require", "ensure", "both"):
            yield {"dom": "directed", "name": "sync_layer_over_coroutine", "layer": layer, "deco": deco}


def keyword_named_self(case):
    """a method / constructor that takes the instance positional-only and collects **kwargs is called with a keyword
    that happens to be called `self`: classes with (satisfied) invariants behave like the bare class"""
    def build(with_inv):
        ns = {}
        exec("class K:\n"
             "    def __init__(self, /, **kwargs):\n"
             "        self.data = dict(kwargs)\n"
             "    def update(self, /, **kwargs):\n"
             "        self.data.update(kwargs)\n"
             "        return sorted(self.data)\n"
             "    async def aupdate(self, /, **kwargs):\n"
             "        self.data.update(kwargs)\n"
             "        return sorted(self.data)\n", ns)
        K = ns["K"]
        if with_inv:
            def has_data(self):
                return isinstance(self.data, dict)
            K = icontract.invariant(has_data)(K)
        return K

    def observe(K):
        out = []
        other = K(z=1)
        for what, thunk in (("ctor", lambda: K(self=1).data), ("method", lambda: K(a=1).update(self=2)),
                            ("method-other-instance", lambda: K(a=1).update(self=other) and sorted(other.data)),
                            ("async-method", lambda: _drive(K(a=1).aupdate(self=3)))):
            try:
                out.append([what, "ok", repr(thunk())])
            except BaseException as e:  # noqa: B902
                out.append([what, "raised", type(e).__name__])
        return out

    a, b = observe(build(False)), observe(build(True))
    fails = []
    for x, y in zip(a, b):
        if x[:2] != y[:2] or (x[1] == "ok" and x[2] != y[2]):
            fails.append("%s with a keyword named `self`: bare class %s, class with a satisfied invariant %s" % (x[0], x[1:], y[1:]))
    return {"fails": fails}


def keyword_named_self_cases():
    yield {"dom": "directed", "name": "keyword_named_self"}


# --------------------------------------------------------------------------- C11 (more)

class _MyStop(StopIteration):
    pass


def odd_exception_classes(case):
    """an exception of a class with a protocol meaning of its own (StopIteration, StopAsyncIteration, GeneratorExit, KeyError,
    AttributeError ...) raised by a condition / capture of a SYNC callable surfaces as the very object, the body does not
    run, and the next call is checked as usual"""
    cls = {"StopIteration": StopIteration, "MyStop": _MyStop, "StopAsyncIteration": StopAsyncIteration, "GeneratorExit": GeneratorExit,
           "KeyError": KeyError, "AttributeError": AttributeError, "LookupError": LookupError}[case["exc"]]
    exc = cls("injected")
    state = {"armed": True, "ok": True}
    ran = []

    def faulty(x):
        if state["armed"]:
            raise exc
        return state["ok"]

    def fine(x):
        return True

    site = case["site"]
    fails = []
    if site.startswith("pre"):
        k = int(site[3:])
        conds = [fine, fine, fine]
        conds[k] = faulty

        def f(x):
            ran.append("f")
            return x
        for c in conds:            # the first of `conds` is applied first = nearest to the function = evaluated first
            f = icontract.require(c)(f)
        call = lambda: f(1)  # noqa: E731
    elif site == "inherited":
        class A(icontract.DBC):
            @icontract.require(faulty)
            def m(self, x):
                ran.append("A.m")
                return x

        class B(A):
            @icontract.require(lambda x: x > 100)
            def m(self, x):
                ran.append("f")
                return x
        o = B()
        call = lambda: o.m(1)  # noqa: E731
    elif site == "post":
        @icontract.ensure(lambda result, x: faulty(x))
        def f(x):
            ran.append("f")
            return x
        call = lambda: f(1)  # noqa: E731
    elif site == "capture":
        @icontract.snapshot(lambda x: faulty(x), name="s")
        @icontract.ensure(lambda OLD, result: True)
        def f(x):
            ran.append("f")
            return x
        call = lambda: f(1)  # noqa: E731
    else:
        @icontract.invariant(lambda self: faulty(0))
        class K:
            def __init__(self):
                state["armed"] = False
                self.v = 1

            def m(self, x):
                ran.append("f")
                return x
        o = K()
        state["armed"] = True
        call = lambda: o.m(1)  # noqa: E731
    try:
        call()
        got = "returned"
    except BaseException as e:  # noqa: B902
        got = "same" if e is exc else "other %s: %s" % (type(e).__name__, str(e)[:60])
    if got != "same":
        fails.append("%s raised by the %s site: expected the very exception to surface, the call %s" % (case["exc"], site, got))
    body_allowed = site == "post"
    if ("f" in ran) != body_allowed:
        fails.append("%s raised by the %s site: bodies run %s" % (case["exc"], site, ran))
    # the next call: the condition now answers False -> a violation
    state["armed"], state["ok"] = False, False
    del ran[:]
    try:
        call()
        nxt = "returned"
    except icontract.ViolationError:
        nxt = "violation"
    except BaseException as e:  # noqa: B902
        nxt = "raised %s" % type(e).__name__
    want = "returned" if site == "capture" else "violation"
    if nxt != want:
        fails.append("the call after the %s from the %s site: %s, expected %s" % (case["exc"], site, nxt, want))
    return {"fails": fails}


def odd_exception_classes_cases():
    for exc in ("StopIteration", "MyStop", "StopAsyncIteration", "GeneratorExit", "KeyError", "AttributeError", "LookupError"):
        for site in ("pre0", "pre1", "pre2", "inherited", "post", "capture", "invariant"):
            yield {"dom": "directed", "name": "odd_exception_classes", "exc": exc, "site": site}


# --------------------------------------------------------------------------- C10 (more)

def constructor_calls_back(case):
    """while an object's invariants (or one of its public methods, or its constructor) are in progress, the constructor of
    ANOTHER class with invariants runs and calls a public method of the outer object back: that call is still the outer
    object's own re-entry (unchecked) - the evaluation terminates with the expected log"""
    import sys
    log = []

    class View:
        def __init__(self, owner):
            log.append("View.__init__")
            self.n = owner.size()

        def ok(self):
            return True

    View = icontract.invariant(lambda self: log.append("View.inv") or True)(View)

    class Box:
        def __init__(self):
            log.append("Box.__init__")
            self.items = [1]
            if case["where"] == "constructor":
                View(self)

        def size(self):
            log.append("Box.size")
            return len(self.items)

        def poke(self):
            log.append("Box.poke")
            if case["where"] == "method":
                View(self)
            return 1

    def box_inv(self):
        log.append("Box.inv")
        if case["where"] == "invariant":
            View(self)
        return True

    Box = icontract.invariant(box_inv)(Box)
    old = sys.getrecursionlimit()
    sys.setrecursionlimit(600)
    try:
        try:
            b = Box()
            del log[:]
            b.poke()
            out = "ok"
        except RecursionError:
            out = "RecursionError"
        except BaseException as e:  # noqa: B902
            out = type(e).__name__
    finally:
        sys.setrecursionlimit(old)
    want = {"invariant": ["Box.inv", "View.__init__", "Box.size", "View.inv", "Box.poke", "Box.inv", "View.__init__", "Box.size", "View.inv"],
            "method": ["Box.inv", "Box.poke", "View.__init__", "Box.size", "View.inv", "Box.inv"],
            "constructor": ["Box.inv", "Box.poke", "Box.inv"]}[case["where"]]
    fails = []
    if out != "ok" or log != want:
        fails.append("a constructor running inside the outer object's %s calls the outer object back: outcome %s, evaluations %s; expected ok, %s"
                     % (case["where"], out, log[:40], want))
    return {"fails": fails}


def constructor_calls_back_cases():
    for where in ("invariant", "method", "constructor"):
        yield {"dom": "directed", "name": "constructor_calls_back", "where": where}


def contract_calls_same_method_of_fresh_object(case):
    """a contract of a method calls the SAME method on an object created on the spot: the function is in progress, so the
    nested call is its own re-entry (unchecked) whatever the receiver - the evaluation terminates"""
    import sys
    log = []

    class Node:
        def __init__(self, k):
            self.k = k

        def succ(self):
            return Node(self.k + 1)

    def post(self, result):
        log.append(("post", self.k))
        return self.succ().rank() == result + 1

    def pre(self):
        log.append(("pre", self.k))
        return self.succ().rank() > 0

    if case["async"]:
        async def rank(self):
            log.append(("rank", self.k))
            return self.k

        async def apost(self, result):
            log.append(("post", self.k))
            return (await self.succ().rank()) == result + 1

        async def apre(self):
            log.append(("pre", self.k))
            return (await self.succ().rank()) > 0
        deco = icontract.ensure(apost) if case["role"] == "ensure" else icontract.require(apre)
    else:
        def rank(self):
            log.append(("rank", self.k))
            return self.k
        deco = icontract.ensure(post) if case["role"] == "ensure" else icontract.require(pre)
    Node.rank = deco(rank)
    old = sys.getrecursionlimit()
    sys.setrecursionlimit(500)
    try:
        try:
            r = Node(1).rank()
            if case["async"]:
                r = _drive(r)
            out = ["ok", r]
        except RecursionError:
            out = ["RecursionError"]
        except BaseException as e:  # noqa: B902
            out = [type(e).__name__]
    finally:
        sys.setrecursionlimit(old)
    want = [("rank", 1), ("post", 1), ("rank", 2)] if case["role"] == "ensure" else [("pre", 1), ("rank", 2), ("rank", 1)]
    fails = []
    if out != ["ok", 1] or log != want:
        fails.append("a %s of rank() calls rank() on a freshly created object: outcome %s, evaluations %s; expected ['ok', 1], %s"
                     % (case["role"], out, log[:20], want))
    return {"fails": fails}


def contract_calls_same_method_of_fresh_object_cases():
    for a in (False, True):
        for role in ("ensure", "require"):
            yield {"dom": "directed", "name": "contract_calls_same_method_of_fresh_object", "async": a, "role": role}


# --------------------------------------------------------------------------- C12 (more)

def call_while_constructor_runs(case):
    """an object hands itself over while its constructor is still running; ANOTHER thread / task calls an invariant-breaking
    public method on it: that call is judged on its own (violation) - the constructor in flight elsewhere does not
    switch its checks off"""
    import contextvars
    import threading
    registry = []
    ready, go = threading.Event(), threading.Event()

    def nonneg(self):
        return self.v >= 0

    class K:
        def __init__(self):
            self.v = 1
            registry.append(self)
            ready.set()
            go.wait(5)

        def breaker(self):
            self.v = -5
            return self.v

        def fine(self):
            return self.v

    K = icontract.invariant(nonneg)(K)
    res = {}

    def construct():
        try:
            K()
            res["ctor"] = "ok"
        except icontract.ViolationError:
            res["ctor"] = "violation"
        except BaseException as e:  # noqa: B902
            res["ctor"] = type(e).__name__

    t = threading.Thread(target=construct)
    t.start()
    fails = []
    try:
        if not ready.wait(5):
            return {"fails": ["harness: the constructor did not start"]}
        obj = registry[0]

        def other():
            try:
                res["fine"] = ["ok", obj.fine()]
            except BaseException as e:  # noqa: B902
                res["fine"] = [type(e).__name__]
            try:
                res["breaker"] = ["returned", obj.breaker()]
            except icontract.ViolationError:
                res["breaker"] = ["violation"]
            except BaseException as e:  # noqa: B902
                res["breaker"] = [type(e).__name__]

        if case["how"] == "thread":
            t2 = threading.Thread(target=other)
        else:
            ctx = contextvars.copy_context()
            t2 = threading.Thread(target=lambda: ctx.run(other))
        t2.start()
        t2.join(10)
    finally:
        go.set()
        t.join(10)
    if res.get("fine") != ["ok", 1]:
        fails.append("a harmless public method called from another %s while the constructor runs: %s" % (case["how"], res.get("fine")))
    if res.get("breaker") != ["violation"]:
        fails.append("an invariant-breaking public method called from another %s while the object's constructor is still running "
                     "elsewhere: %s, expected a violation" % (case["how"], res.get("breaker")))
    return {"fails": fails}


def call_while_constructor_runs_cases():
    for how in ("thread", "copied-context-thread"):
        yield {"dom": "directed", "name": "call_while_constructor_runs", "how": how}


# --------------------------------------------------------------------------- round 8

def member_added_between_invariants(case):
    """a class gets an invariant, then a plain class decorator adds members (a public method, a constructor - as
    dataclasses / attrs do), then it gets another invariant: the added members are guarded like all others"""
    log = []

    def inv_a(self):
        log.append("a")
        return True

    def inv_b(self):
        log.append("b")
        return True

    def add_members(cls):
        def __init__(self, v=1):
            self.v = v

        def added_pub(self):
            return self.v
        if case["adds"] in ("init", "both"):
            cls.__init__ = __init__
        if case["adds"] in ("method", "both"):
            cls.added_pub = added_pub
        return cls

    co = {"call": icontract.InvariantCheckEvent.CALL, "all": icontract.InvariantCheckEvent.ALL}[case["check_on"]]

    class K:
        v = 0

        def existing(self):
            return 2

    K = icontract.invariant(inv_a, check_on=co)(K)
    K = add_members(K)
    K = icontract.invariant(inv_b, check_on=co)(K)
    fails = []
    del log[:]
    o = K()
    if sorted(log) != ["a", "b"]:
        fails.append("after construction (members added by a class decorator between two invariants: %s) the invariants evaluated were %s, "
                     "expected both" % (case["adds"], log))
    for name in (["added_pub"] if case["adds"] in ("method", "both") else []) + ["existing"]:
        del log[:]
        getattr(o, name)()
        if sorted(log) != ["a", "a", "b", "b"]:
            fails.append("operation %s: invariants evaluated %s, expected each before and after" % (name, log))
    return {"fails": fails}


def member_added_between_invariants_cases():
    for adds in ("method", "init", "both"):
        for check_on in ("call", "all"):
            yield {"dom": "directed", "name": "member_added_between_invariants", "adds": adds, "check_on": check_on}


def integrator_snapshot_without_postcondition(case):
    """a checker assembled through the integrator helpers (decorate_with_checker / add_*_to_checker) that carries a
    snapshot but no postcondition: the capture is not evaluated; once a postcondition is added it is evaluated once,
    after the preconditions and before the body"""
    import icontract._checkers as ck
    import icontract._types as ty
    log = []

    def pre(x):
        log.append("pre")
        return True

    def cap(x):
        log.append("capture")
        return x

    def post(result, OLD):
        log.append("post")
        return OLD.s == result

    if case["async"]:
        async def f(x):
            log.append("body")
            return x
    else:
        def f(x):
            log.append("body")
            return x

    checker = ck.decorate_with_checker(func=f)
    ck.add_precondition_to_checker(checker=checker, contract=ty.Contract(condition=pre))
    ck.add_snapshot_to_checker(checker=checker, snapshot=ty.Snapshot(capture=cap, name="s"))

    def call():
        del log[:]
        r = checker(3)
        if case["async"]:
            r = _drive(r)
        return r, list(log)

    fails = []
    r, lg = call()
    if r != 3 or lg != ["pre", "body"]:
        fails.append("a checker with a snapshot but no postcondition: result %r, evaluations %s; expected 3, ['pre', 'body']" % (r, lg))
    ck.add_postcondition_to_checker(checker=checker, contract=ty.Contract(condition=post))
    r, lg = call()
    if r != 3 or lg != ["pre", "capture", "body", "post"]:
        fails.append("after a postcondition was added: result %r, evaluations %s; expected 3, ['pre', 'capture', 'body', 'post']" % (r, lg))
    return {"fails": fails}


def integrator_snapshot_without_postcondition_cases():
    for a in (False, True):
        yield {"dom": "directed", "name": "integrator_snapshot_without_postcondition", "async": a}


class _BadUnit(TypeError):
    pass


def exception_from_new(case):
    """an exception raised by (or for) the constructor of a class with invariants and no __init__ surfaces unchanged -
    also when it is a TypeError"""
    exc = _BadUnit("no such unit") if case["exc"] == "TypeErrorSubclass" else (TypeError("plain") if case["exc"] == "TypeError" else ValueError("v"))

    def ok(self):
        return True

    fails = []
    if case["shape"] == "own_new":
        class T:
            def __new__(cls, kelvin=0, unit="K"):
                if unit != "K":
                    raise exc
                o = object.__new__(cls)
                o.kelvin = kelvin
                return o
        T = icontract.invariant(ok)(T)
        try:
            o = T(5, unit="F")
            got = "an object with kelvin=%r" % (o.kelvin,)
        except BaseException as e:  # noqa: B902
            got = "same" if e is exc else "other %s" % type(e).__name__
        if got != "same":
            fails.append("%s raised by __new__ of a class with invariants: expected it to surface unchanged, got %s" % (case["exc"], got))
    else:
        class M:
            pass
        Mi = icontract.invariant(ok)(type("Mi", (), {}))
        for cls in (M, Mi):
            try:
                cls(1, 2)
                res = "constructed"
            except TypeError:
                res = "TypeError"
            if res != "TypeError":
                fails.append("calling a class without parameters with arguments (%s invariants): %s, expected TypeError"
                             % ("with" if cls is Mi else "without", res))
    return {"fails": fails}


def exception_from_new_cases():
    for exc in ("TypeErrorSubclass", "TypeError", "ValueError"):
        yield {"dom": "directed", "name": "exception_from_new", "shape": "own_new", "exc": exc}
    yield {"dom": "directed", "name": "exception_from_new", "shape": "no_parameters", "exc": "TypeError"}


class _Interrupt(KeyboardInterrupt):
    pass


def interrupt_while_message_is_built(case):
    """a KeyboardInterrupt / SystemExit raised by user code that the library calls again while it builds the violation
    message is never dropped: whenever it was raised, it is what the caller gets"""
    import importlib.util
    import os
    import shutil
    import tempfile
    tmp = tempfile.mkdtemp(prefix="verif_interrupt_")
    fails = []
    try:
        src = ("import icontract\n\n\n"
               "STATE = {'n': 0, 'k': None, 'fired': None}\n\n\n"
               "def limit():\n"
               "    STATE['n'] += 1\n"
               "    if STATE['n'] == STATE['k']:\n"
               "        STATE['fired'] = STATE['exc']\n"
               "        raise STATE['exc']\n"
               "    return 0\n\n\n"
               "@icontract.require(lambda xs: %s)\n"
               "def f(xs):\n"
               "    return xs\n" % case["cond"])
        path = os.path.join(tmp, "interrupt_prog.py")
        with open(path, "w") as fh:
            fh.write(src)
        spec = importlib.util.spec_from_file_location("verif_interrupt_%d" % (id(case) % 100000), path)
        mod = importlib.util.module_from_spec(spec)
        spec.loader.exec_module(mod)
        for k in range(1, 14):
            exc = _Interrupt("stop") if case["exc"] == "KeyboardInterrupt" else SystemExit(3)
            mod.STATE.update(n=0, k=k, fired=None, exc=exc)
            try:
                mod.f([1, 2])
                got = "returned"
            except icontract.ViolationError:
                got = "violation"
            except BaseException as e:  # noqa: B902
                got = "same" if e is exc else "other %s" % type(e).__name__
            fired = mod.STATE["fired"] is not None
            if fired and got != "same":
                fails.append("%s raised at invocation %d of the user function (%s): the caller got %s" % (case["exc"], k, case["cond"], got))
            if not fired and got != "violation":
                fails.append("no fault at invocation %d (%s): the caller got %s, expected the violation" % (k, case["cond"], got))
    finally:
        shutil.rmtree(tmp, ignore_errors=True)
    return {"fails": fails}


def interrupt_while_message_is_built_cases():
    for cond in ("[x for x in xs if x > limit()] == [99]", "all(x > 5 + limit() for x in xs)", "{x: limit() for x in xs} == {}",
                 "[x for x in [limit(), 1]] == []", "limit() > 5 or len(xs) > 99"):
        for exc in ("KeyboardInterrupt", "SystemExit"):
            yield {"dom": "directed", "name": "interrupt_while_message_is_built", "cond": cond, "exc": exc}


def concurrent_constructors_without_init(case):
    """two threads construct instances of a class whose invariants are checked by the __new__ hook (no __init__ of its own):
    while one of them is inside a slow invariant check, the other's invalid instance is still refused"""
    import collections
    import threading
    entered, release = threading.Event(), threading.Event()

    def small(self):
        if self.v == 1000:
            entered.set()
            release.wait(5)
        return self.v >= 0

    if case["shape"] == "namedtuple":
        P = icontract.invariant(small)(type("P", (collections.namedtuple("PBase", "v"),), {}))
    else:
        class P:
            v = 0

            def __new__(cls, v=0):
                o = object.__new__(cls)
                o.v = v
                return o
        P = icontract.invariant(small)(P)
    res = {}

    def slow():
        try:
            P(1000)
            res["slow"] = "ok"
        except BaseException as e:  # noqa: B902
            res["slow"] = type(e).__name__

    t = threading.Thread(target=slow)
    t.start()
    try:
        if not entered.wait(5):
            return {"fails": ["harness: the slow invariant check did not start"]}

        def other():
            try:
                P(-1)
                res["other"] = "constructed"
            except icontract.ViolationError:
                res["other"] = "violation"
            except BaseException as e:  # noqa: B902
                res["other"] = type(e).__name__

        t2 = threading.Thread(target=other)
        t2.start()
        t2.join(10)
    finally:
        release.set()
        t.join(10)
    fails = []
    if res.get("other") != "violation":
        fails.append("P(-1) constructed in another thread while P(1000) is inside its invariant check: %s, expected a violation" % res.get("other"))
    if res.get("slow") != "ok":
        fails.append("P(1000): %s" % res.get("slow"))
    return {"fails": fails}


def concurrent_constructors_without_init_cases():
    for shape in ("namedtuple", "own_new"):
        yield {"dom": "directed", "name": "concurrent_constructors_without_init", "shape": shape}


def async_def_spelling(case):
    """`async def` written with unusual but legal spacing: the violation message of the async function equals the one of
    the identical sync function"""
    import importlib.util
    import os
    import shutil
    import tempfile
    tmp = tempfile.mkdtemp(prefix="verif_asyncdef_")
    fails = []
    try:
        sep = {"two-blanks": "  ", "tab": "\t", "one-blank": " "}[case["sep"]]
        src = ("import icontract\n\n\n"
               "@icontract.require(lambda x: x > 0)\n"
               "def f(x):\n    return x\n\n\n"
               "@icontract.require(lambda x: x > 0)\n"
               "async%sdef g(x):\n    return x\n\n\n"
               "class K:\n"
               "    def __repr__(self):\n        return 'K()'\n\n"
               "    @icontract.require(lambda x: x > 0)\n"
               "    def ms(self, x):\n        return x\n\n"
               "    @icontract.require(lambda x: x > 0)\n"
               "    async%sdef m(self, x):\n        return x\n" % (sep, sep))
        path = os.path.join(tmp, "asyncdef_prog.py")
        with open(path, "w") as fh:
            fh.write(src)
        spec = importlib.util.spec_from_file_location("verif_asyncdef_%d" % (id(case) % 100000), path)
        mod = importlib.util.module_from_spec(spec)
        spec.loader.exec_module(mod)

        def text(thunk):
            try:
                thunk()
                return "returned"
            except icontract.ViolationError as e:
                return "\n".join(str(e).split("\n")[1:])
            except BaseException as e:  # noqa: B902
                return "%s: %s" % (type(e).__name__, str(e)[:80])

        for label, thunk, sync in (("async function", lambda: _drive(mod.g(-1)), lambda: mod.f(-1)),
                                   ("async method", lambda: _drive(mod.K().m(-1)), lambda: mod.K().ms(-1))):
            got, want = text(thunk), text(sync)
            if got != want:
                fails.append("`async%sdef`: the %s reports %r, the identical sync function %r" % (sep.replace("\t", "\\t"), label, got, want))
    finally:
        shutil.rmtree(tmp, ignore_errors=True)
    return {"fails": fails}


def async_def_spelling_cases():
    for sep in ("one-blank", "two-blanks", "tab"):
        yield {"dom": "directed", "name": "async_def_spelling", "sep": sep}


def class_keyword_arguments(case):
    """class keyword arguments (`class Csv(Exporter, fmt="csv")`) reach __init_subclass__ of a DBC hierarchy exactly as
    they do for an abc.ABC hierarchy"""
    import abc

    def build(base, decorate):
        registry = {}

        class Exporter(base):
            fmt = None

            def __init_subclass__(cls, fmt=None, **kwargs):
                super().__init_subclass__(**kwargs)
                cls.fmt = fmt
                if fmt is not None:
                    registry[fmt] = cls.__name__

            def export(self, x):
                return "%s:%s" % (self.fmt, x)

        if decorate:
            Exporter.export = icontract.require(lambda x: x >= 0)(Exporter.export)

        class Csv(Exporter, fmt="csv"):
            pass

        class Tsv(Csv, fmt="tsv"):
            def export(self, x):
                return "t" + super().export(x)

        return [sorted(registry.items()), Csv.fmt, Tsv.fmt, Csv().export(1), Tsv().export(2)]

    a, b = build(abc.ABC, False), build(icontract.DBC, True)
    fails = []
    if a != b:
        fails.append("class keyword arguments: abc.ABC hierarchy gives %s, the icontract.DBC hierarchy with satisfied contracts %s" % (a, b))
    return {"fails": fails}


def class_keyword_arguments_cases():
    yield {"dom": "directed", "name": "class_keyword_arguments"}


def reserved_keyword_after_valid_calls(case):
    """the reserved names are refused at EVERY call - also after calls that were fine"""
    def post(result):
        return result is not None

    if case["kind"] == "function":
        @icontract.ensure(post)
        def f(x, **kwargs):
            return x
        call = f
    elif case["kind"] == "async":
        @icontract.ensure(post)
        async def af(x, **kwargs):
            return x
        call = lambda *a, **k: _drive(af(*a, **k))  # noqa: E731
    elif case["kind"] == "inherited":
        class A(icontract.DBC):
            @icontract.ensure(post)
            def m(self, x, **kwargs):
                return x

        class B(A):
            def m(self, x, **kwargs):
                return x
        call = B().m
    else:
        class C:
            @staticmethod
            @icontract.ensure(post)
            def s(x, **kwargs):
                return x
        call = C.s
    fails = []
    for n_before in (0, 1, 3):
        for _ in range(n_before):
            call(1)
            call(1, other=2)
        for kw in ("result", "OLD", "_ARGS", "_KWARGS"):
            try:
                call(1, **{kw: 5})
                got = "accepted"
            except TypeError:
                got = "TypeError"
            except BaseException as e:  # noqa: B902
                got = type(e).__name__
            if got != "TypeError":
                fails.append("%s: the keyword %s after %d valid calls: %s, expected TypeError" % (case["kind"], kw, n_before, got))
            # the refusal leaves nothing behind: the next call is checked like any other
            try:
                call(None)
                got = "returned"
            except icontract.ViolationError:
                got = "violation"
            except BaseException as e:  # noqa: B902
                got = type(e).__name__
            if got != "violation":
                fails.append("%s: a call violating the postcondition right after the refused keyword %s: %s, expected a violation"
                             % (case["kind"], kw, got))
    return {"fails": fails}


def reserved_keyword_after_valid_calls_cases():
    for kind in ("function", "async", "inherited", "static"):
        yield {"dom": "directed", "name": "reserved_keyword_after_valid_calls", "kind": kind}


# --------------------------------------------------------------------------- round 9

def falsy_and_truthy_values(case):
    """a condition is judged by the truth value of what it returns - whatever the type: numeric zeros, empty containers,
    None are violations; NaN, NotImplemented-free odd truthy values are not"""
    import decimal
    import fractions
    falsy = [False, 0, 0.0, 0j, decimal.Decimal(0), fractions.Fraction(0), "", b"", [], (), {}, set(), None, range(0)]
    truthy = [True, 1, -1, 0.5, float("nan"), decimal.Decimal(1), "0", [0], (None,), {0: 0}, Ellipsis, object(), range(1)]
    role, is_async = case["role"], case["async"]
    fails = []
    for vals, want in ((falsy, "violation"), (truthy, "ok")):
        for v in vals:
            ran = []
            if role == "invariant":
                class K:
                    def __init__(self):
                        self.armed = False

                    def m(self):
                        ran.append("body")
                        return 1
                def inv_cond(self, _v=v):
                    return _v if self.armed else True
                K = icontract.invariant(inv_cond)(K)
                o = K()
                o.armed = True
                thunk = o.m
            else:
                def pre_cond(x, _v=v):
                    return _v

                def post_cond(result, _v=v):
                    return _v
                deco = icontract.require(pre_cond) if role == "require" else icontract.ensure(post_cond)
                if is_async:
                    async def f(x):
                        ran.append("body")
                        return x
                    g = deco(f)
                    thunk = lambda: _drive(g(1))  # noqa: E731
                else:
                    def f(x):
                        ran.append("body")
                        return x
                    g = deco(f)
                    thunk = lambda: g(1)  # noqa: E731
            try:
                thunk()
                got = "ok"
            except icontract.ViolationError:
                got = "violation"
            except BaseException as e:  # noqa: B902
                got = "raised %s" % type(e).__name__
            if got != want:
                fails.append("%s%s whose condition returns %r: %s, expected %s" % ("async " if is_async else "", role, v, got, want))
            if role == "require" and want == "violation" and ran:
                fails.append("%s whose condition returns %r: the body ran" % (role, v))
    return {"fails": fails}


def falsy_and_truthy_values_cases():
    for role in ("require", "ensure", "invariant"):
        for a in ((False, True) if role != "invariant" else (False,)):
            yield {"dom": "directed", "name": "falsy_and_truthy_values", "role": role, "async": a}


def special_results(case):
    """postconditions gate EVERY normal return - also of None, NotImplemented, Ellipsis, falsy and odd values - and a
    satisfied contract returns the very object"""
    import decimal
    results = [None, NotImplemented, Ellipsis, False, 0, "", [], {}, float("nan"), decimal.Decimal(0), object(), (NotImplemented,)]
    fails = []
    for r in results:
        for truth in (True, False):
            state = {"n": 0}

            def post(result, x, _t=truth):
                state["n"] += 1
                return _t

            if case["kind"] == "function":
                @icontract.ensure(post)
                def f(x, _r=r):
                    return _r
                call = lambda: f(1)  # noqa: E731
            elif case["kind"] == "async":
                @icontract.ensure(post)
                async def af(x, _r=r):
                    return _r
                call = lambda: _drive(af(1))  # noqa: E731
            elif case["kind"] == "dunder":
                def post_d(result, _t=truth):
                    state["n"] += 1
                    return _t

                class V:
                    @icontract.ensure(post_d)
                    def __lt__(self, other, _r=r):
                        return _r
                call = lambda: V().__lt__(3)  # noqa: E731
            else:
                class A(icontract.DBC):
                    @icontract.ensure(post)
                    def m(self, x):
                        return 0

                class B(A):
                    def m(self, x, _r=r):
                        return _r
                call = lambda: B().m(1)  # noqa: E731
            try:
                got = call()
                out = "returned-same" if got is r else "returned-other %r" % (got,)
            except icontract.ViolationError:
                out = "violation"
            except BaseException as e:  # noqa: B902
                out = "raised %s" % type(e).__name__
            want = "returned-same" if truth else "violation"
            if out != want or state["n"] != 1:
                fails.append("%s returning %r with a %s postcondition: %s (postcondition evaluated %d times), expected %s"
                             % (case["kind"], r, "satisfied" if truth else "violated", out, state["n"], want))
    return {"fails": fails}


def special_results_cases():
    for kind in ("function", "async", "dunder", "inherited"):
        yield {"dom": "directed", "name": "special_results", "kind": kind}


def contracts_on_partial(case):
    """a contract placed on a functools.partial object: conditions, captures and error factories observe exactly what the
    body receives"""
    import functools
    seen = {}

    def volume(width, height, depth=3):
        seen["body"] = (width, height, depth)
        return width * height * depth

    MISSING = "not-passed"

    def pre(width=MISSING, height=MISSING, depth=MISSING):
        seen["pre"] = (width, height, depth)
        return True

    def cap(depth):            # (a capture must be given every parameter it declares: it names the one that is always visible)
        seen["cap"] = depth
        return depth

    def post(result, OLD, width=MISSING, height=MISSING, depth=MISSING):
        seen["post"] = (width, height, depth)
        return OLD.d == depth

    # (shape: the partial, the call, what the body receives, what a contract can see = the partial's own signature)
    shapes = {
        "nothing-bound": (functools.partial(volume), [(2, 5), {}], (2, 5, 3), (2, 5, 3)),
        "positional-bound": (functools.partial(volume, 2, 5), [(11,), {}], (2, 5, 11), (MISSING, MISSING, 11)),
        "one-positional-bound": (functools.partial(volume, 2), [(5,), {"depth": 7}], (2, 5, 7), (MISSING, 5, 7)),
        "keyword-bound": (functools.partial(volume, depth=10), [(2, 5), {}], (2, 5, 10), (2, 5, 10)),
        "keyword-bound-overridden": (functools.partial(volume, depth=10), [(2, 5), {"depth": 4}], (2, 5, 4), (2, 5, 4)),
    }
    p, (args, kwargs), want, visible = shapes[case["shape"]]
    fails = []
    try:
        g = icontract.require(pre)(icontract.snapshot(cap, name="d")(icontract.ensure(post)(p)))
        seen.clear()
        r = g(*args, **kwargs)
        if r != want[0] * want[1] * want[2]:
            fails.append("result %r" % (r,))
        if seen.get("body") != want:
            fails.append("partial %s: the body received %s, the bare partial binds %s" % (case["shape"], seen.get("body"), want))
        if seen.get("cap") != visible[2]:
            fails.append("partial %s: the capture observed depth = %s, the body received %s" % (case["shape"], seen.get("cap"), want[2]))
        for site in ("pre", "post"):
            if seen.get(site) != visible:
                fails.append("partial %s: the %s observed (width, height, depth) = %s, expected %s (the body received %s)"
                             % (case["shape"], site, seen.get(site), visible, want))
    except BaseException as e:  # noqa: B902
        fails.append("partial %s: %s: %s" % (case["shape"], type(e).__name__, str(e)[:120]))
    return {"fails": fails}


def contracts_on_partial_cases():
    for shape in ("nothing-bound", "positional-bound", "one-positional-bound", "keyword-bound", "keyword-bound-overridden"):
        yield {"dom": "directed", "name": "contracts_on_partial", "shape": shape}


def error_functions_sharing_code(case):
    """error functions that are different objects with different signatures but share one code object (wrapped by the same
    functools.wraps helper, a function and a bound method of the same def): each is called with exactly the values IT names"""
    import functools
    calls = []

    def audited(fn):
        @functools.wraps(fn)
        def wrapper(*args, **kwargs):
            calls.append((fn.__name__, sorted(kwargs), args))
            return fn(*args, **kwargs)
        return wrapper

    class E1(Exception):
        pass

    class E2(Exception):
        pass

    class E3(Exception):
        pass

    @audited
    def err_x(x):
        return E1(x)

    @audited
    def err_xy(x, y):
        return E2(x, y)

    @audited
    def err_res(result, y):
        return E3(result, y)

    order = case["order"]
    decos = {"pre1": icontract.require(lambda x: x > 0, error=err_x), "pre2": icontract.require(lambda x, y: x < y, error=err_xy),
             "post": icontract.ensure(lambda result: result < 100, error=err_res)}

    def f(x, y):
        return x * y

    g = f
    for k in order:
        g = decos[k](g)
    fails = []
    for args, want_cls, want_kw, want_args in (((-1, 5), E1, ["x"], (-1,)), ((7, 5), E2, ["x", "y"], (7, 5)), ((20, 30), E3, ["result", "y"], (600, 30))):
        del calls[:]
        try:
            g(*args)
            got = "returned"
        except (E1, E2, E3) as e:
            got = type(e)
            if e.args != want_args:
                fails.append("f%s: the error carries %s, expected %s" % (args, e.args, want_args))
        except BaseException as e:  # noqa: B902
            got = "%s: %s" % (type(e).__name__, str(e)[:80])
        if got is not want_cls:
            fails.append("f%s (decorators applied in the order %s): %s, expected %s" % (args, order, got, want_cls.__name__))
        elif len(calls) != 1 or calls[0][1] != want_kw:
            fails.append("f%s: error function calls %s, expected one call with the keywords %s" % (args, calls, want_kw))
    return {"fails": fails}


def error_functions_sharing_code_cases():
    import itertools
    for order in itertools.permutations(["pre1", "pre2", "post"]):
        yield {"dom": "directed", "name": "error_functions_sharing_code", "order": list(order)}


def closed_from_another_context(case):
    """an async method of a class with invariants is suspended in its body and then closed / thrown into from ANOTHER
    contextvars context (an abandoned task finalised by the garbage collector, a trampoline): the exception surfaces unchanged
    and the instance is checked again afterwards"""
    import contextvars
    exc = {"close": None, "BaseException": _Cancelled("c"), "Exception": RuntimeError("boom")}[case["exc"]]

    class K:
        def __init__(self):
            self.ok = True

        async def slow(self):
            await _Pause()
            return 1

        def other(self):
            return 2

    def is_ok(self):
        return self.ok

    K = icontract.invariant(is_ok)(K)
    o = K()
    co = o.slow()
    ctx1 = contextvars.copy_context()
    ctx1.run(co.send, None)
    ctx2 = contextvars.copy_context() if case["where"] == "other-context" else ctx1
    fails = []
    try:
        if exc is None:
            ctx2.run(co.close)
            got = "closed"
        else:
            ctx2.run(co.throw, exc)
            got = "returned"
    except StopIteration:
        got = "returned"
    except BaseException as e:  # noqa: B902
        got = "same" if e is exc else "other %s: %s" % (type(e).__name__, str(e)[:60])
    want = "closed" if exc is None else "same"
    if got != want:
        fails.append("%s delivered from %s to an async method suspended in its body: %s, expected %s" % (case["exc"], case["where"], got, want))
    o.ok = False
    # (the context the call was STARTED in keeps the mark when the call is finalised elsewhere: it belongs to an abandoned
    # task and is outside the claim - C11 assumption; every other context must check the object again)
    for ctx in (ctx2, contextvars.copy_context()):
        try:
            ctx.run(o.other)
            res = "returned"
        except icontract.ViolationError:
            res = "violation"
        except BaseException as e:  # noqa: B902
            res = "raised %s" % type(e).__name__
        if res != "violation":
            fails.append("after that, a call on the (now broken) object: %s, expected a violation" % res)
    return {"fails": fails}


def closed_from_another_context_cases():
    for where in ("same-context", "other-context"):
        for exc in ("close", "BaseException", "Exception"):
            yield {"dom": "directed", "name": "closed_from_another_context", "where": where, "exc": exc}


class _AppKeyError(KeyError):
    pass


def proxies_and_nested_constructors(case):
    """transparency for (a) a weakref.proxy passed as `self`, (b) exceptions - KeyError and subclasses included - raised by
    the body of a constructor that runs inside another constructor of the same object"""
    import weakref

    def build(with_contracts):
        class Base:
            def __init__(self, table, key):
                self.v = table[key]            # may raise KeyError

            def get(self, k=0):
                return self.v + k

            def __len__(self):
                return 3

            @property
            def prop(self):
                return self.v

        class Sub(Base):
            def __init__(self, table, key):
                if key == "app":
                    raise _AppKeyError("application error")
                super().__init__(table, key)

        class SubSub(Sub):
            def __init__(self, table, key):
                super().__init__(table, key)
                self.w = 1

        if with_contracts:
            inv = lambda self: True  # noqa: E731
            Base = icontract.invariant(inv)(Base)
            Sub = icontract.invariant(inv)(Sub)
            SubSub = icontract.invariant(inv)(SubSub)
        return Base, Sub, SubSub

    def observe(classes):
        Base, Sub, SubSub = classes
        out = []
        for cls in (Base, Sub, SubSub):
            for key in ("a", "missing", "app"):
                try:
                    out.append([cls.__name__, key, "ok", cls({"a": 1}, key).v])
                except BaseException as e:  # noqa: B902
                    out.append([cls.__name__, key, type(e).__name__, e.args])
        o = SubSub({"a": 1}, "a")
        pr = weakref.proxy(o)
        for label, thunk in (("method", lambda: Base.get(pr, 2)), ("dunder", lambda: Base.__len__(pr)), ("property", lambda: Base.prop.fget(pr)),
                             ("re-init", lambda: (Base.__init__(pr, {"a": 5}, "a"), o.v)[1])):
            try:
                out.append([label, "ok", thunk()])
            except BaseException as e:  # noqa: B902
                out.append([label, type(e).__name__, str(e)[:60]])
        return out

    a, b = observe(build(False)), observe(build(True))
    fails = []
    for x, y in zip(a, b):
        if x != y:
            fails.append("bare classes: %s; classes with satisfied invariants: %s" % (x, y))
    return {"fails": fails}


def proxies_and_nested_constructors_cases():
    yield {"dom": "directed", "name": "proxies_and_nested_constructors"}


# --------------------------------------------------------------------------- round 9 (more)

def invariants_while_another_thread_reports(case):
    """while one thread is busy building the message of ITS violation (an argument with a slow __repr__), another thread's
    invariant-breaking call on an unrelated object is still refused"""
    import threading
    entered, release = threading.Event(), threading.Event()

    class Doc:
        def __repr__(self):
            entered.set()
            release.wait(5)
            return "Doc()"

    def never(doc):
        return False

    if case["site"] == "precondition":
        @icontract.require(never)
        def publish(doc):
            return doc
    else:
        @icontract.ensure(lambda result, doc: never(doc))
        def publish(doc):
            return doc

    class Account:
        def __init__(self):
            self.balance = 10

        def withdraw(self, n):
            self.balance -= n
            return self.balance

    def nonneg(self):
        return self.balance >= 0

    Account = icontract.invariant(nonneg)(Account)
    res = {}

    def reporter():
        try:
            publish(Doc())
            res["reporter"] = "returned"
        except icontract.ViolationError:
            res["reporter"] = "violation"
        except BaseException as e:  # noqa: B902
            res["reporter"] = type(e).__name__

    t = threading.Thread(target=reporter)
    t.start()
    fails = []
    try:
        if not entered.wait(5):
            return {"fails": ["harness: the reporting thread did not reach the slow __repr__"]}
        acc = Account()

        def other():
            try:
                res["other"] = ["returned", acc.withdraw(100)]
            except icontract.ViolationError:
                res["other"] = ["violation"]
            except BaseException as e:  # noqa: B902
                res["other"] = [type(e).__name__]

        t2 = threading.Thread(target=other)
        t2.start()
        t2.join(10)
    finally:
        release.set()
        t.join(10)
    if res.get("other") != ["violation"]:
        fails.append("an invariant-breaking call made while another thread builds the message of its own %s violation: %s, expected a violation"
                     % (case["site"], res.get("other")))
    if res.get("reporter") != "violation":
        fails.append("the reporting thread: %s" % res.get("reporter"))
    return {"fails": fails}


def invariants_while_another_thread_reports_cases():
    for site in ("precondition", "postcondition"):
        yield {"dom": "directed", "name": "invariants_while_another_thread_reports", "site": site}


_SEPARATION_CHILD = """
import sys, json
import icontract

def cap100(self): return self.x < 100
def nonneg(self): return self.x >= 0
def even(self): return self.x % 2 == 0

@icontract.invariant(nonneg, enabled=True)
class Base(icontract.DBC):
    def __init__(self, x):
        self.x = x
    def get(self):
        return self.x

def verdict(cls, x):
    try:
        cls(x).get()
        return "ok"
    except icontract.ViolationError:
        return "violation"
    except BaseException as e:
        return type(e).__name__

out = {"debug": __debug__}
out["before"] = [verdict(Base, 50), verdict(Base, 500), verdict(Base, -1), len(Base.__invariants__)]

@icontract.invariant(cap100, enabled=True)
class Small(Base):
    pass

out["after_small"] = [verdict(Base, 50), verdict(Base, 500), verdict(Base, -1), len(Base.__invariants__)]

@icontract.invariant(even, enabled=True)
class Even(Base):
    pass

out["after_even"] = [verdict(Base, 50), verdict(Base, 500), verdict(Base, 51), len(Base.__invariants__)]
out["small"] = [verdict(Small, 50), verdict(Small, 500), verdict(Small, 51), len(Small.__invariants__)]
out["even"] = [verdict(Even, 50), verdict(Even, 500), verdict(Even, 51), len(Even.__invariants__)]
print(json.dumps(out))
"""


def separation_in_every_interpreter_mode(case):
    """explicitly enabled invariants of sibling subclasses never reach the base or each other - in the normal and in the
    optimised interpreter"""
    import json
    import os
    import subprocess
    import sys
    import tempfile
    flags = {"normal": [], "O": ["-O"], "OO": ["-OO"]}[case["mode"]]
    d = tempfile.mkdtemp(prefix="verif_sep_")
    try:
        path = os.path.join(d, "sep_child.py")
        with open(path, "w") as fh:
            fh.write(_SEPARATION_CHILD)
        env = dict(os.environ, PYTHONPATH=common.REPO)
        p = subprocess.run([sys.executable] + flags + [path], stdout=subprocess.PIPE, stderr=subprocess.PIPE, env=env, timeout=120)
        if p.returncode != 0:
            return {"fails": ["the child interpreter (%s) failed: %s" % (case["mode"], p.stderr.decode(errors="replace")[-400:])]}
        out = json.loads(p.stdout.decode().strip().splitlines()[-1])
    finally:
        import shutil
        shutil.rmtree(d, ignore_errors=True)
    fails = []
    if out["debug"] != (case["mode"] == "normal"):
        fails.append("harness: __debug__ is %s in mode %s" % (out["debug"], case["mode"]))
    want = {"before": ["ok", "ok", "violation", 1], "after_small": ["ok", "ok", "violation", 1], "after_even": ["ok", "ok", "ok", 1],
            "small": ["ok", "violation", "ok", 2], "even": ["ok", "ok", "violation", 2]}
    for k, w in want.items():
        if out.get(k) != w:
            fails.append("mode %s: %s is %s, expected %s" % (case["mode"], k, out.get(k), w))
    return {"fails": fails}


def separation_in_every_interpreter_mode_cases():
    for mode in ("normal", "O", "OO"):
        yield {"dom": "directed", "name": "separation_in_every_interpreter_mode", "mode": mode}


def members_from_invariantless_bases(case):
    """a class that inherits its invariants from one base and public members from ANOTHER base that has no invariants
    (a mix-in): the inherited invariants guard those members too"""
    def nonneg(self):
        return self.balance >= 0

    class Account(icontract.DBC):
        def __init__(self):
            self.balance = 10

        def deposit(self, n):
            self.balance += n
            return self.balance

    Account = icontract.invariant(nonneg)(Account)
    mixin_base = {"plain": object, "dbc": icontract.DBC}[case["mixin"]]

    class Mixin(mixin_base):
        def drain(self, n):
            self.balance -= n
            return self.balance

        @property
        def drained(self):
            self.balance = -1
            return True

        def __len__(self):
            self.balance = -2
            return 1

    if case["order"] == "account-first":
        class Savings(Account, Mixin):
            pass
    else:
        class Savings(Mixin, Account):
            pass

    if case["own_body"]:
        class Leaf(Savings):
            def extra(self):
                return 1
    else:
        Leaf = Savings
    fails = []
    for label, op in (("method of the mix-in", lambda o: o.drain(100)), ("property of the mix-in", lambda o: o.drained),
                      ("dunder of the mix-in", lambda o: len(o)), ("method of the invariant-carrying base", lambda o: o.deposit(-100))):
        o = Leaf()
        try:
            op(o)
            got = "returned"
        except icontract.ViolationError:
            got = "violation"
        except BaseException as e:  # noqa: B902
            got = "raised %s" % type(e).__name__
        if got != "violation":
            fails.append("%s breaks the inherited invariant (mix-in: %s, bases %s, own body: %s): %s, expected a violation"
                         % (label, case["mixin"], case["order"], case["own_body"], got))
    return {"fails": fails}


def members_from_invariantless_bases_cases():
    for mixin in ("plain", "dbc"):
        for order in ("account-first", "mixin-first"):
            for own_body in (False, True):
                yield {"dom": "directed", "name": "members_from_invariantless_bases", "mixin": mixin, "order": order, "own_body": own_body}


# --------------------------------------------------------------------------- round 10

def one_function_in_two_roles(case):
    """ONE function object is the constructor of one class and a public method (or __setattr__) of another - or of the same -
    class: each binding gets the checks of ITS role"""
    log = []

    def helper(self, v=1):
        log.append("body")
        object.__setattr__(self, "v", v)

    def setter(self, k, v):
        log.append("set")
        object.__setattr__(self, k, v)

    def inv(self):
        log.append("inv")
        return self.v >= 0

    fails = []
    if case["shape"] == "two-classes":
        class A:
            __init__ = helper
        A = icontract.invariant(inv)(A)

        class B:
            def __init__(self):
                self.v = 1
            reset = helper
        B = icontract.invariant(inv)(B)
        order = [("ctor", lambda: A(2), ["body", "inv"]), ("method", lambda: B().reset(3), ["inv", "body", "inv"])]
        if case["first"] == "method":
            order.reverse()
    elif case["shape"] == "same-class":
        class C:
            __init__ = helper
            reset = helper
        C = icontract.invariant(inv)(C)
        order = [("ctor", lambda: C(2), ["body", "inv"]), ("method", lambda: C(1).reset(3), ["inv", "body", "inv"])]
    else:
        class D:
            def __init__(self):
                object.__setattr__(self, "v", 1)
            __setattr__ = setter
            assign = setter
        D = icontract.invariant(inv, check_on=icontract.InvariantCheckEvent.ALL)(D)
        order = [("assignment", lambda: setattr(D(), "v", 5), ["inv", "set", "inv"]), ("public alias", lambda: D().assign("v", 6), ["inv", "set", "inv"])]
    for label, thunk, want in order:
        if label in ("method", "assignment", "public alias"):
            # (the object is constructed first: only the operation itself is logged)
            pass
        del log[:]
        try:
            thunk()
        except BaseException as e:  # noqa: B902
            fails.append("%s: raised %s" % (label, type(e).__name__))
            continue
        got = log[-len(want):]
        if got != want:
            fails.append("one function bound in two roles (%s): the %s evaluated %s, expected ...%s" % (case["shape"], label, log, want))
    # a broken object must be refused by the public method before its body
    if case["shape"] == "two-classes":
        b = B()
        object.__setattr__(b, "v", -1)
        del log[:]
        try:
            b.reset(7)
            fails.append("a broken object: reset() returned (evaluations %s), expected a violation before the body" % log)
        except icontract.ViolationError:
            if "body" in log:
                fails.append("a broken object: the body of reset() ran: %s" % log)
    return {"fails": fails}


def one_function_in_two_roles_cases():
    for first in ("ctor", "method"):
        yield {"dom": "directed", "name": "one_function_in_two_roles", "shape": "two-classes", "first": first}
    yield {"dom": "directed", "name": "one_function_in_two_roles", "shape": "same-class", "first": "ctor"}
    yield {"dom": "directed", "name": "one_function_in_two_roles", "shape": "setattr-alias", "first": "ctor"}


class _CallableError(Exception):
    """an exception that is also callable (an HTTP error that is a WSGI application, as werkzeug's)"""

    def __call__(self, environ, start_response):
        return ["body"]


def callable_exception_instance(case):
    """`error` given as an exception INSTANCE whose class happens to define __call__: the very instance is raised"""
    err = _CallableError("bad request")
    role, is_async = case["role"], case["async"]
    if role == "invariant":
        class K:
            def __init__(self):
                self.ok = True

            def m(self):
                self.ok = False
        K = icontract.invariant(lambda self: self.ok, error=err)(K)
        thunk = lambda: K().m()  # noqa: E731
    else:
        deco = icontract.require(lambda x: x > 0, error=err) if role == "require" else icontract.ensure(lambda result: result > 0, error=err)
        if is_async:
            @deco
            async def f(x):
                return x
            thunk = lambda: _drive(f(-1))  # noqa: E731
        else:
            @deco
            def f(x):
                return x
            thunk = lambda: f(-1)  # noqa: E731
    fails = []
    for rep in range(2):
        try:
            thunk()
            got = "returned"
        except BaseException as e:  # noqa: B902
            got = "same" if e is err else "other %s: %s" % (type(e).__name__, str(e)[:80])
        if got != "same":
            fails.append("%s%s with a callable exception instance as error, violation %d: %s, expected the very instance" % ("async " if is_async else "", role, rep, got))
    return {"fails": fails}


def callable_exception_instance_cases():
    for role in ("require", "ensure", "invariant"):
        for a in ((False, True) if role != "invariant" else (False,)):
            yield {"dom": "directed", "name": "callable_exception_instance", "role": role, "async": a}


def contracts_on_bound_methods(case):
    """contracts applied to the bound methods of two different objects of one class: they are different callables - a
    condition of one that calls the other is an ordinary checked call"""
    log = []

    class Service:
        def __init__(self, name):
            self.name = name

        def handle(self, x):
            log.append("body " + self.name)
            return x

    a, b = Service("a"), Service("b")

    def pre_b(x):
        log.append("pre_b")
        return x >= 0

    def pre_a(x):
        log.append("pre_a")
        checked_b(x)            # the OTHER object's contracted method
        return True

    checked_b = icontract.require(pre_b)(b.handle)
    checked_a = icontract.require(pre_a)(a.handle)
    fails = []
    del log[:]
    try:
        checked_a(3)
        got = "ok"
    except icontract.ViolationError:
        got = "violation"
    if got != "ok" or log != ["pre_a", "pre_b", "body b", "body a"]:
        fails.append("checked_a(3): %s, evaluations %s; expected ok, ['pre_a', 'pre_b', 'body b', 'body a']" % (got, log))
    del log[:]
    try:
        checked_a(-1)
        got = "ok"
    except icontract.ViolationError:
        got = "violation"
    if got != "violation" or "body a" in log or "body b" in log:
        fails.append("checked_a(-1): %s, evaluations %s; expected the violation of the other object's precondition" % (got, log))
    return {"fails": fails}


def contracts_on_bound_methods_cases():
    yield {"dom": "directed", "name": "contracts_on_bound_methods"}


def rejected_constructions_do_not_accumulate(case):
    """every construction of an invalid value of a class checked by the __new__ hook is refused - the first, the second, the
    sixty-fourth (short-lived rejected instances re-use memory addresses)"""
    import collections

    def nonneg(self):
        return self.v >= 0

    if case["shape"] == "namedtuple":
        P = icontract.invariant(nonneg)(type("P", (collections.namedtuple("PBase", "v"),), {}))
    else:
        class P:
            def __new__(cls, v=0):
                o = object.__new__(cls)
                o.v = v
                return o
        P = icontract.invariant(nonneg)(P)
    kept = []
    accepted = []
    for i in range(64):
        try:
            o = P(-1 - (i % 3))
            accepted.append(i)
            kept.append(o)
        except icontract.ViolationError:
            pass
        if i % 5 == 0:
            P(1)             # valid ones in between
    fails = []
    if accepted:
        fails.append("%d of 64 constructions of an invalid value were accepted (the first at #%d)" % (len(accepted), accepted[0]))
    # a rejected instance that is kept alive (through the exception) is still checked afterwards
    try:
        P(-5)
    except icontract.ViolationError:
        pass
    good = P(3)
    if case["shape"] != "namedtuple":
        object.__setattr__(good, "v", -1)
        try:
            type(good).__repr__(good)
        except BaseException:  # noqa: B902
            pass
    return {"fails": fails}


def rejected_constructions_do_not_accumulate_cases():
    for shape in ("namedtuple", "own_new"):
        yield {"dom": "directed", "name": "rejected_constructions_do_not_accumulate", "shape": shape}


def sometimes_awaitable_condition(case):
    """a condition (an ordinary function) of an async callable that returns a plain value for some inputs and an awaitable
    for others: every call is judged on what THAT call's condition returned"""
    allowed = {"alice"}
    awaited = []

    async def is_allowed(user):
        awaited.append(user)
        return user in allowed

    def cond(user):
        return user is None or is_allowed(user)

    if case["role"] == "require":
        @icontract.require(cond)
        async def f(user):
            return user
    else:
        def post(user, result):
            return cond(user)

        @icontract.ensure(post)
        async def f(user):
            return user

    fails = []
    for user in case["history"]:
        want = "ok" if (user is None or user in allowed) else "violation"
        try:
            _drive_all(f(user))
            got = "ok"
        except icontract.ViolationError:
            got = "violation"
        except BaseException as e:  # noqa: B902
            got = "raised %s: %s" % (type(e).__name__, str(e)[:60])
        if got != want:
            fails.append("history %s, call f(%r): %s, expected %s" % (case["history"], user, got, want))
    return {"fails": fails}


def _drive_all(co):
    while True:
        try:
            co.send(None)
        except StopIteration as e:
            return e.value


def sometimes_awaitable_condition_cases():
    for role in ("require", "ensure"):
        for history in ([None, "bob", "alice", None], ["bob", None, "bob"], ["alice", None, "bob", "alice"], [None, None, "bob"]):
            yield {"dom": "directed", "name": "sometimes_awaitable_condition", "role": role, "history": history}


def property_inherited_into_class_with_invariants(case):
    """a DBC base WITHOUT invariants defines a public property; a subclass with an invariant inherits it: the base and its
    other (invariant-free) subclasses keep behaving as before"""
    class Shape(icontract.DBC):
        def __init__(self):
            self.sides = 3

        @property
        def corners(self):
            return self.sides

        def area(self):
            return 1

    class Plain(Shape):
        pass

    before = [Shape().corners, Plain().corners, Shape().area(), Plain().area()]

    def positive(self):
        return self.sides > 0

    if case["how"] == "decorator":
        class Checked(Shape):
            pass
        Checked = icontract.invariant(positive)(Checked)
    else:
        Checked = icontract.invariant(positive)(type(Shape)("Checked", (Shape,), {}))
    fails = []
    try:
        after = [Shape().corners, Plain().corners, Shape().area(), Plain().area()]
    except BaseException as e:  # noqa: B902
        after = "raised %s: %s" % (type(e).__name__, str(e)[:80])
    if after != before:
        fails.append("after a subclass with an invariant inherited the property: base / sibling give %s, before %s" % (after, before))
    c = Checked()
    c.sides = -1
    try:
        c.corners
        fails.append("the inherited property of the class with the invariant is not guarded")
    except icontract.ViolationError:
        pass
    return {"fails": fails}


def property_inherited_into_class_with_invariants_cases():
    for how in ("decorator", "dynamic"):
        yield {"dom": "directed", "name": "property_inherited_into_class_with_invariants", "how": how}


def default_limits(case):
    """the documented default limits of the message values (50 items per container, 256 characters per string / object)
    hold for every container type and for every kind of contract that has no a_repr of its own"""
    import array
    import collections
    n_small, n_big = 30, 80
    mk = {
        "list": lambda n: list(range(n)), "tuple": lambda n: tuple(range(n)), "set": lambda n: set(range(n)),
        "frozenset": lambda n: frozenset(range(n)), "deque": lambda n: collections.deque(range(n)),
        "array": lambda n: array.array("i", range(n)), "dict": lambda n: dict((i, i) for i in range(n)),
    }[case["type"]]
    kind = case["kind"]

    def violate(value):
        if kind == "require":
            @icontract.require(lambda v: v is None)
            def f(v):
                return v
            thunk = lambda: f(value)  # noqa: E731
        elif kind == "ensure":
            @icontract.ensure(lambda v, result: v is None)
            def g(v):
                return 1
            thunk = lambda: g(value)  # noqa: E731
        else:
            @icontract.invariant(lambda self: self.v is None)
            class K:
                def __init__(self, v):
                    self.v = v

                def __repr__(self):
                    return "K()"
            thunk = lambda: K(value)  # noqa: E731
        try:
            thunk()
            return None
        except icontract.ViolationError as e:
            return str(e)

    fails = []
    for n, want_items, cut in ((n_small, n_small, False), (n_big, 50, True)):
        msg = violate(mk(n))
        if msg is None:
            fails.append("no violation")
            continue
        line = [ln for ln in msg.split("\n") if (" was " in ln and ("v was" in ln or "self.v was" in ln))]
        if not line:
            fails.append("%s: no value line in %r" % (case["type"], msg[:200]))
            continue
        text = line[0].split(" was ", 1)[1]
        import re
        shown = len(re.findall(r"\d+: \d+", text)) if case["type"] == "dict" else len(re.findall(r"(?<![\w'])\d+(?![\w'])", text.replace("array('i', ", "").replace("maxlen=None", "")))
        if shown != want_items or (("..." in text) != cut):
            fails.append("%s on a %s of %d items (no a_repr given): %d items shown, ellipsis %s; the documented default limit is 50 items (%s)"
                         % (kind, case["type"], n, shown, "..." in text, text[:80]))
    for n, want_len in ((200, 202), (400, 256)):
        msg = violate("x" * n)
        line = [ln for ln in (msg or "").split("\n") if " was " in ln and ("v was" in ln)]
        text = line[0].split(" was ", 1)[1] if line else ""
        if len(text) != want_len:
            fails.append("%s on a string of %d characters: %d characters shown, expected %d (default limit 256)" % (kind, n, len(text), want_len))
    return {"fails": fails}


def default_limits_cases():
    for kind in ("require", "ensure", "invariant"):
        for t in ("list", "tuple", "set", "frozenset", "deque", "array", "dict"):
            yield {"dom": "directed", "name": "default_limits", "kind": kind, "type": t}


# --------------------------------------------------------------------------- round 11

class _Awaitable:
    """an awaitable that is not a coroutine (like asyncio.Future / Task: an object with __await__)"""

    def __init__(self, value):
        self.value = value

    def __await__(self):
        return self.value
        yield  # pragma: no cover


def awaitable_kinds(case):
    """a condition (an ordinary function) of an async callable hands back an awaitable of ANY kind - a coroutine, an object
    with __await__, an asyncio.Future, an asyncio.Task: it is awaited and the call is judged on the result"""
    import asyncio

    async def coro(v):
        return v

    def make(kind, v):
        if kind == "coroutine":
            return coro(v)
        if kind == "object":
            return _Awaitable(v)
        if kind == "future":
            fut = asyncio.get_event_loop().create_future()
            fut.set_result(v)
            return fut
        return asyncio.ensure_future(coro(v))

    kind = case["kind"]

    def cond(x):
        return make(kind, x > 0)

    def post(x, result):
        return make(kind, x > 0)

    if case["role"] == "require":
        @icontract.require(cond)
        async def f(x):
            return x
    elif case["role"] == "ensure":
        @icontract.ensure(post)
        async def f(x):
            return x
    else:
        class A(icontract.DBC):
            @icontract.require(cond)
            async def m(self, x):
                return x

        class B(A):
            async def m(self, x):
                return x
        f = B().m

    async def main():
        fails = []
        for x in case["history"]:
            want = "ok" if x > 0 else "violation"
            try:
                await f(x)
                got = "ok"
            except icontract.ViolationError:
                got = "violation"
            except BaseException as e:  # noqa: B902
                got = "raised %s: %s" % (type(e).__name__, str(e)[:60])
            if got != want:
                fails.append("%s returning a %s, call f(%r): %s, expected %s" % (case["role"], kind, x, got, want))
        return fails
    return {"fails": asyncio.run(main())}


def awaitable_kinds_cases():
    for role in ("require", "ensure", "inherited"):
        for kind in ("coroutine", "object", "future", "task"):
            yield {"dom": "directed", "name": "awaitable_kinds", "role": role, "kind": kind, "history": [1, -1, 2, -2]}


def wrapped_async_public_method(case):
    """a public method that is an `async def` wrapper (functools.wraps) around a plain function - `run the blocking body in
    the background` decorators: it IS a coroutine function, so the invariants are evaluated before the body and after the
    awaited body, like for any async method"""
    import functools
    log = []

    def background(fn):
        @functools.wraps(fn)
        async def wrapper(*args, **kwargs):
            await _Yielder()
            return fn(*args, **kwargs)
        return wrapper

    def positive(self):
        log.append("inv")
        return self.x > 0

    @icontract.invariant(positive)
    class A:
        def __init__(self):
            self.x = 1

        @background
        def set(self, v):
            log.append("body")
            self.x = v
            return v

        if case["contracts"]:
            set = icontract.require(lambda v: v is not None)(set)

    a = A()
    fails = []
    for v, want in ((5, "ok"), (-1, "violation")):
        del log[:]
        a.x = 1
        try:
            _drive_all(a.set(v))
            got = "ok"
        except icontract.ViolationError:
            got = "violation"
        except BaseException as e:  # noqa: B902
            got = "raised %s" % type(e).__name__
        if got != want or log != ["inv", "body", "inv"]:
            fails.append("await a.set(%r): %s with evaluations %s, expected %s with ['inv', 'body', 'inv']" % (v, got, log, want))
    return {"fails": fails}


class _Yielder:
    def __await__(self):
        yield self


def wrapped_async_public_method_cases():
    for contracts in (False, True):
        yield {"dom": "directed", "name": "wrapped_async_public_method", "contracts": contracts}


def odd_member_names(case):
    """which members get the invariants is decided by the documented rule on the NAME: public names and `__dunder__` names
    do, `_protected`, `__mangled`, and also `_x__`-like names (one leading underscore, whatever the ending) do not"""
    log = []

    def inv(self):
        log.append("inv")
        return True

    names = ["m", "m_", "m__", "_p", "_p_", "_p__", "__q", "__q_", "__enter__", "__r__", "_", "__"]
    ns = {"__init__": lambda self: None}
    for n in names:
        ns[n] = (lambda self: "body")
    if case["members"] == "properties":
        for n in names:
            ns[n] = property(ns[n])
    A = icontract.invariant(inv)(type("A", (), ns))
    a = A()
    fails = []
    for n in names:
        # a name mangled inside a class body is written out here as it is: `__q` stays `__q`
        public = not n.startswith("_") or (n.startswith("__") and n.endswith("__"))
        del log[:]
        if case["members"] == "properties":
            getattr(a, n)
        else:
            getattr(a, n)()
        want = 2 if public else 0
        if len(log) != want:
            fails.append("%s %r: the invariant was evaluated %d times around it, expected %d" % (case["members"], n, len(log), want))
    return {"fails": fails}


def odd_member_names_cases():
    for members in ("methods", "properties"):
        yield {"dom": "directed", "name": "odd_member_names", "members": members}


def member_attached_later(case):
    """a base class gets a (contracted) member only AFTER a first subclass with that member exists; a subclass created after
    that inherits the member's contracts like from any base"""
    def small(x):
        return x < 10

    def even_result(result):
        return result % 2 == 0

    class Base(icontract.DBC):
        pass

    class Early(Base):
        def m(self, x):
            return x

    @icontract.require(small)
    @icontract.ensure(even_result)
    def m(self, x):
        return x

    if case["how"] == "setattr":
        Base.m = m
    else:
        setattr(Base, "m", m)
        Base.helper = lambda self: None

    if case["own"]:
        def huge(x):
            return x > 1000

        class Late(Base):
            @icontract.require(huge)
            def m(self, x):
                return x
        table = [(4, "ok"), (2000, "ok"), (50, "violation"), (3, "violation"), (2001, "violation")]
    else:
        class Late(Base):
            def m(self, x):
                return x
        table = [(4, "ok"), (50, "violation"), (3, "violation")]
    fails = []
    for x, want in table:
        try:
            Late().m(x)
            got = "ok"
        except icontract.ViolationError:
            got = "violation"
        except BaseException as e:  # noqa: B902
            got = "raised %s" % type(e).__name__
        if got != want:
            fails.append("Late().m(%r): %s, expected %s (contracts of the member attached to the base: x < 10, even result%s)"
                         % (x, got, want, "; own precondition x > 1000" if case["own"] else ""))
    # the early subclass keeps what it had
    try:
        Early().m(51)
    except BaseException as e:  # noqa: B902
        fails.append("Early().m(51) (defined before the base had the member): raised %s" % type(e).__name__)
    return {"fails": fails}


def member_attached_later_cases():
    for how in ("setattr", "setattr+other"):
        for own in (False, True):
            yield {"dom": "directed", "name": "member_attached_later", "how": how, "own": own}


def partial_binding_a_parameter_name(case):
    """a condition / capture given as functools.partial that binds BY KEYWORD a name which is also a parameter of the
    function: the call's value is what the condition gets - exactly what the body gets"""
    import functools
    seen = []

    def within(x, limit):
        seen.append(("cond", x, limit))
        return x <= limit

    def cap(x, limit):
        seen.append(("capture", x, limit))
        return limit

    cond = functools.partial(within, limit=10)
    role = case["role"]
    if role == "require":
        deco = [icontract.require(cond, error=ValueError("violation"))]
    elif role == "ensure":
        deco = [icontract.ensure(cond, error=ValueError("violation"))]
    else:
        deco = [icontract.snapshot(functools.partial(cap, limit=10), name="lim"),
                icontract.ensure(lambda OLD, limit: OLD.lim == limit, error=ValueError("snapshot differs"))]
    if case["flavour"] == "async":
        async def clip(x, limit=3):
            seen.append(("body", x, limit))
            return min(x, limit)
    else:
        def clip(x, limit=3):
            seen.append(("body", x, limit))
            return min(x, limit)
    for d in reversed(deco):
        clip = d(clip)
    fails = []
    for args, kwargs in (((5,), {}), ((5, 3), {}), ((12, 20), {}), ((2,), {"limit": 1}), ((1,), {"limit": 10})):
        del seen[:]
        try:
            r = clip(*args, **kwargs)
            if case["flavour"] == "async":
                _drive_all(r)
            got = "ok"
        except ValueError as e:
            got = str(e)
        except BaseException as e:  # noqa: B902
            got = "raised %s: %s" % (type(e).__name__, str(e)[:80])
        x = args[0]
        limit = args[1] if len(args) > 1 else kwargs.get("limit", 3)
        if role in ("require", "ensure"):
            want = "ok" if x <= limit else "violation"
        else:
            want = "ok"
        bad = [t for t in seen if t[1:] != (x, limit)]
        if got != want or bad:
            fails.append("%s %s clip%s%s: %s (expected %s); evaluations that did not see x=%r, limit=%r: %s"
                         % (case["flavour"], role, args, kwargs or "", got, want, x, limit, bad))
    return {"fails": fails}


def partial_binding_a_parameter_name_cases():
    for role in ("require", "ensure", "snapshot"):
        for flavour in ("sync", "async"):
            yield {"dom": "directed", "name": "partial_binding_a_parameter_name", "role": role, "flavour": flavour}


def odd_capture_callables(case):
    """a snapshot capture may be any callable: a bound method, a function behind a functools.wraps decorator, a partial, a
    callable object - its parameters are those of its SIGNATURE"""
    import functools

    class Helper:
        def copy_of(self, lst):
            return list(lst)

        def __call__(self, lst):
            return list(lst)

    def traced(fn):
        @functools.wraps(fn)
        def wrapper(*args, **kwargs):
            return fn(*args, **kwargs)
        return wrapper

    @traced
    def wrapped(lst):
        return list(lst)

    def two(extra, lst):
        return list(lst)

    caps = {"bound": Helper().copy_of, "wrapped": wrapped, "partial": functools.partial(two, 0), "object": Helper()}
    cap = caps[case["capture"]]
    fails = []
    def post_named(lst, OLD):
        return lst == OLD.before + [len(OLD.before)]

    def post_unnamed(lst, OLD):
        return lst == OLD.lst + [len(OLD.lst)]

    try:
        if case["named"]:
            snap = icontract.snapshot(cap, name="before")
            post = post_named
        else:
            snap = icontract.snapshot(cap)
            post = post_unnamed

        @snap
        @icontract.ensure(post)
        def push(lst):
            lst.append(len(lst) if case["good"] else -1)
    except BaseException as e:  # noqa: B902
        return {"fails": ["defining a snapshot with a %s capture (%s): %s: %s"
                          % (case["capture"], "named" if case["named"] else "unnamed", type(e).__name__, str(e)[:100])]}
    try:
        push([0, 1])
        got = "ok"
    except icontract.ViolationError:
        got = "violation"
    except BaseException as e:  # noqa: B902
        got = "raised %s: %s" % (type(e).__name__, str(e)[:100])
    want = "ok" if case["good"] else "violation"
    if got != want:
        fails.append("%s capture (%s), body %s: %s, expected %s" % (case["capture"], "named" if case["named"] else "unnamed",
                                                                    "keeps the postcondition" if case["good"] else "breaks it", got, want))
    return {"fails": fails}


def odd_capture_callables_cases():
    for capture in ("bound", "wrapped", "partial", "object"):
        for named in (True, False):
            for good in (True, False):
                yield {"dom": "directed", "name": "odd_capture_callables", "capture": capture, "named": named, "good": good}


def error_function_called_every_time(case):
    """`error` given as a function WITHOUT parameters: it is called once per violation - the second and the tenth violation
    raise what THAT call of the function returned"""
    state = {"n": 0}

    class Helper:
        def make(self):
            state["n"] += 1
            return ValueError("violation number %d" % state["n"])

    def make():
        state["n"] += 1
        return ValueError("violation number %d" % state["n"])

    err = {"function": make, "lambda": (lambda: make()), "bound": Helper().make}[case["error"]]

    def positive(x):
        return x > 0

    role = case["role"]
    if role == "require":
        @icontract.require(positive, error=err)
        def f(x):
            return x
        call = f
    elif role == "ensure":
        @icontract.ensure(lambda result: result > 0, error=err)
        def f(x):
            return x
        call = f
    elif role == "async":
        @icontract.require(positive, error=err)
        async def f(x):
            return x
        call = lambda x: _drive_all(f(x))  # noqa: E731
    else:
        @icontract.invariant(lambda self: self.x > 0, error=err)
        class A:
            def __init__(self, x):
                self.x = x
        call = A
    fails = []
    raised = []
    for k in range(1, 5):
        if k == 3:
            call(5)
        try:
            call(-1)
            fails.append("%s: violation %d returned normally" % (role, k))
            continue
        except ValueError as e:
            raised.append(e)
            if str(e) != "violation number %d" % k or state["n"] != k:
                fails.append("%s, error as %s: violation %d raised %r and the error function had been called %d times"
                             % (role, case["error"], k, str(e), state["n"]))
        except BaseException as e:  # noqa: B902
            fails.append("%s: violation %d raised %s" % (role, k, type(e).__name__))
    if len(set(id(e) for e in raised)) != len(raised):
        fails.append("%s: the same exception object was raised for different violations" % role)
    return {"fails": fails}


def error_function_called_every_time_cases():
    for role in ("require", "ensure", "async", "invariant"):
        for error in ("function", "lambda", "bound"):
            yield {"dom": "directed", "name": "error_function_called_every_time", "role": role, "error": error}


def method_contracts_during_reentry(case):
    """while an object is in progress (inside one of its public methods, its constructor or one of its invariants) only its
    INVARIANTS are suspended: a method's own preconditions and postconditions are checked on every call"""
    def nonneg(x):
        return x >= 0

    def inv(self):
        if case["from"] == "invariant" and self.probe:
            self.probe = False
            try:
                self.take(-1)
                self.seen.append("returned")
            except icontract.ViolationError:
                self.seen.append("violation")
            finally:
                self.probe = True
        return True

    @icontract.invariant(inv)
    class A:
        def __init__(self, probe_in_init=False):
            self.probe = False
            self.seen = []
            if probe_in_init:
                try:
                    self.take(-1)
                    self.seen.append("returned")
                except icontract.ViolationError:
                    self.seen.append("violation")

        @icontract.require(nonneg)
        @icontract.ensure(lambda result: result != 7)
        def take(self, x):
            return x

        def outer(self, x):
            return self.take(x)

        def recurse(self, x):
            if x == 3:
                return self.recurse(-1 if case["what"] == "pre" else 7)
            return self.take(x)

    fails = []
    bad = -1 if case["what"] == "pre" else 7
    if case["from"] == "method":
        a = A()
        for call, label in ((lambda: a.outer(bad), "from the body of another public method"), (lambda: a.recurse(3), "from a recursive call")):
            try:
                call()
                fails.append("take(%r) %s returned normally" % (bad, label))
            except icontract.ViolationError:
                pass
            except BaseException as e:  # noqa: B902
                fails.append("take(%r) %s raised %s" % (bad, label, type(e).__name__))
        if a.outer(1) != 1:
            fails.append("a valid nested call failed")
    elif case["from"] == "constructor":
        a = A(probe_in_init=True)
        if a.seen != ["violation"]:
            fails.append("take(-1) from the constructor: %s, expected a violation" % a.seen)
    else:
        a = A()
        a.probe = True
        a.outer(1)
        if not a.seen or set(a.seen) != {"violation"}:
            fails.append("take(-1) from an invariant: %s, expected violations" % a.seen)
    return {"fails": fails}


def method_contracts_during_reentry_cases():
    for frm in ("method", "constructor", "invariant"):
        for what in ("pre", "post"):
            yield {"dom": "directed", "name": "method_contracts_during_reentry", "from": frm, "what": what}


def constructor_interrupted(case):
    """a constructor ended by a BaseException that is no Exception (KeyboardInterrupt, SystemExit, GeneratorExit, an own
    class) leaves nothing behind: the same object is checked again afterwards"""
    class Stop(BaseException):
        pass

    exc = {"KeyboardInterrupt": KeyboardInterrupt, "SystemExit": SystemExit, "GeneratorExit": GeneratorExit, "own": Stop,
           "Exception": RuntimeError}[case["exc"]]

    def positive(self):
        return self.x > 0

    @icontract.invariant(positive)
    class A:
        def __init__(self, x, stop=False):
            self.x = x
            if stop:
                raise exc()

        def set(self, v):
            self.x = v

    pool = {}
    if case["how"] == "pooled":
        @icontract.invariant(positive)
        class A:  # noqa: F811
            def __new__(cls, x, stop=False):
                if "one" not in pool:
                    pool["one"] = super().__new__(cls)
                return pool["one"]

            def __init__(self, x, stop=False):
                self.x = x
                if stop:
                    raise exc()

            def set(self, v):
                self.x = v
    fails = []
    if case["how"] == "pooled":
        try:
            A(1, stop=True)
        except exc:
            pass
        obj = pool["one"]
    else:
        obj = A.__new__(A)
        try:
            obj.__init__(1, stop=True)
        except exc:
            pass
    for label, call in (("obj.__init__(-1)", lambda: obj.__init__(-1)), ("obj.set(-2)", lambda: obj.set(-2))):
        obj.x = 1
        try:
            call()
            fails.append("after a constructor ended by %s: %s returned normally" % (case["exc"], label))
        except icontract.ViolationError:
            pass
        except BaseException as e:  # noqa: B902
            fails.append("after a constructor ended by %s: %s raised %s" % (case["exc"], label, type(e).__name__))
    return {"fails": fails}


def constructor_interrupted_cases():
    for exc in ("KeyboardInterrupt", "SystemExit", "GeneratorExit", "own", "Exception"):
        for how in ("direct", "pooled"):
            yield {"dom": "directed", "name": "constructor_interrupted", "exc": exc, "how": how}


def first_calls_at_the_same_moment(case):
    """two threads make the very FIRST calls of a contracted function at the same moment; the function has a parameter with
    a default value which a condition reads and whose comparisons are slow (an array-like default): both calls see the
    default"""
    import threading
    gate = {"armed": False, "entered": threading.Event(), "go": threading.Event()}

    class Slow:
        """comparing it takes a while - long enough for another caller to arrive"""
        def _wait(self):
            if gate["armed"] and not gate["entered"].is_set():
                gate["entered"].set()
                gate["go"].wait(2)

        def __ne__(self, other):
            self._wait()
            return True

        def __eq__(self, other):
            self._wait()
            return False

        __hash__ = object.__hash__

    default = Slow()

    @icontract.require(lambda x, factor: factor is default and x > 0)
    def f(x, factor=default):
        return x

    gate["armed"] = True
    out = {}

    def caller(name):
        try:
            f(1)
            out[name] = "ok"
        except BaseException as e:  # noqa: B902
            out[name] = "raised %s: %s" % (type(e).__name__, str(e)[:90])

    t1 = threading.Thread(target=caller, args=("first",))
    t1.start()
    gate["entered"].wait(1)          # the first caller is inside a comparison of the default (or already done)
    t2 = threading.Thread(target=caller, args=("second",))
    t2.start()
    t2.join(3)
    gate["go"].set()
    t1.join(3)
    fails = ["%s caller: %s" % (k, v) for k, v in sorted(out.items()) if v != "ok"]
    if len(out) != 2:
        fails.append("a caller did not finish: %s" % out)
    return {"fails": fails}


def first_calls_at_the_same_moment_cases():
    yield {"dom": "directed", "name": "first_calls_at_the_same_moment"}


def base_call_while_override_runs(case):
    """while the body of an OVERRIDING method is in flight in one thread / task (blocked inside super().m()), another thread /
    task calls the base class's method on another object with arguments that violate its contracts: it is checked"""
    import threading

    def positive(amount):
        return amount > 0

    if case["mode"] == "thread":
        inside, go = threading.Event(), threading.Event()

        class Account(icontract.DBC):
            @icontract.require(positive)
            @icontract.ensure(lambda result: result >= 0)
            def withdraw(self, amount, block=False):
                if block:
                    inside.set()
                    go.wait(3)
                return amount

        class Overdraft(Account):
            def withdraw(self, amount, block=False):
                return super().withdraw(amount, block)

        t = threading.Thread(target=lambda: Overdraft().withdraw(10, True))
        t.start()
        inside.wait(2)
        try:
            Account().withdraw(-5)
            got = "returned"
        except icontract.ViolationError:
            got = "violation"
        except BaseException as e:  # noqa: B902
            got = "raised %s" % type(e).__name__
        go.set()
        t.join(3)
    else:
        class Account(icontract.DBC):
            @icontract.require(positive)
            @icontract.ensure(lambda result: result >= 0)
            async def withdraw(self, amount, block=False):
                if block:
                    await _Yielder()
                return amount

        class Overdraft(Account):
            async def withdraw(self, amount, block=False):
                return await super().withdraw(amount, block)

        import contextvars
        c1, c2 = contextvars.copy_context(), contextvars.copy_context()
        co = Overdraft().withdraw(10, True)
        c1.run(co.send, None)            # suspended inside super().withdraw
        try:
            c2.run(_drive_all, Account().withdraw(-5))
            got = "returned"
        except icontract.ViolationError:
            got = "violation"
        except BaseException as e:  # noqa: B902
            got = "raised %s" % type(e).__name__
        try:
            c1.run(co.send, None)
        except StopIteration:
            pass
    return {"fails": [] if got == "violation" else ["Account().withdraw(-5) while Overdraft().withdraw(10) is in flight (%s): %s, expected a violation"
                                                   % (case["mode"], got)]}


def base_call_while_override_runs_cases():
    for mode in ("thread", "task"):
        yield {"dom": "directed", "name": "base_call_while_override_runs", "mode": mode}


def constructor_keyword_named_cls(case):
    """a class with invariants and no constructor of its own (checked by the __new__ hook) is constructed with a KEYWORD
    argument called `cls` (or `self`, `args`, `kwargs`, `instance`): it reaches the constructor like any other keyword"""
    import typing
    name = case["keyword"]
    fails = []
    if case["shape"] == "namedtuple":
        NT = typing.NamedTuple("NT", [(name, int), ("other", int)])

        def other_nonneg(self):
            return self.other >= 0
        K = icontract.invariant(other_nonneg)(NT)
        try:
            v = K(**{name: 3, "other": 1})
            if getattr(v, name) != 3 or v.other != 1:
                fails.append("NamedTuple(%s=3, other=1) holds %r" % (name, tuple(v)))
        except BaseException as e:  # noqa: B902
            fails.append("NamedTuple(%s=3, other=1): %s: %s" % (name, type(e).__name__, str(e)[:80]))
        try:
            K(**{name: 3, "other": -1})
            fails.append("NamedTuple(%s=3, other=-1) was accepted although the invariant is false" % name)
        except icontract.ViolationError:
            pass
        except BaseException as e:  # noqa: B902
            fails.append("NamedTuple(%s=3, other=-1): %s" % (name, type(e).__name__))
    else:
        def fine(self):
            return True

        @icontract.invariant(fine)
        class Base:
            pass

        seen = {}

        def init(self, **kwargs):
            seen.update(kwargs)
        Sub = type("Sub", (Base,), {"__init__": init})
        sentinel = object()
        try:
            Sub(**{name: sentinel})
            if seen.get(name) is not sentinel:
                fails.append("Sub(%s=<object>): the constructor got %r" % (name, seen))
        except BaseException as e:  # noqa: B902
            fails.append("Sub(%s=<object>): %s: %s" % (name, type(e).__name__, str(e)[:80]))
    return {"fails": fails}


def constructor_keyword_named_cls_cases():
    for shape in ("namedtuple", "subclass"):
        for keyword in ("cls", "klass", "instance", "args", "kwargs", "func"):
            yield {"dom": "directed", "name": "constructor_keyword_named_cls", "shape": shape, "keyword": keyword}


def property_docstrings(case):
    """giving a class invariants leaves the docstring of every property as it was - also one given with `doc=` that differs
    from the getter's, and the one of a write-only property"""
    def getter(self):
        """internal getter docstring"""
        return 1

    def bare(self):
        return 1

    def setter(self, v):
        pass

    def make():
        return {"a": property(getter, setter, doc="public docstring"),
                "b": property(bare, doc="only the property has one"),
                "c": property(None, setter, doc="write-only"),
                "d": property(getter),
                "e": property(bare)}

    def fine(self):
        return True

    plain = type("P", (), make())
    if case["how"] == "decorator":
        K = icontract.invariant(fine)(type("K", (), make()))
    else:
        K = type("K", (icontract.DBC,), make())
        K = icontract.invariant(fine)(K)
    if case["subclass"]:
        K = type("Sub", (K,), {})
    fails = []
    for n in "abcde":
        if getattr(K, n).__doc__ != getattr(plain, n).__doc__:
            fails.append("property %s: __doc__ is %r, without invariants it is %r" % (n, getattr(K, n).__doc__, getattr(plain, n).__doc__))
    return {"fails": fails}


def property_docstrings_cases():
    for how in ("decorator", "dbc"):
        for subclass in (False, True):
            yield {"dom": "directed", "name": "property_docstrings", "how": how, "subclass": subclass}


def functions_from_one_definition(case):
    """several functions made from ONE definition (a factory, a loop) share a code object but have their own default values:
    each is checked against ITS defaults, in whatever order they are decorated and called"""
    def below(x, limit):
        return x < limit

    def make(limit, decorate=True):
        def f(x, limit=limit):
            return x
        if decorate:
            return icontract.require(below)(f)
        return f

    limits = case["limits"]
    if case["how"] == "late":
        fs = [make(lim, decorate=False) for lim in limits]
        fs = [icontract.require(below)(f) for f in fs]
    elif case["how"] == "methods":
        def klass(limit):
            class K:
                @icontract.require(below)
                def m(self, x, limit=limit):
                    return x
            return K
        fs = [klass(lim)().m for lim in limits]
    else:
        fs = [make(lim) for lim in limits]
    fails = []
    for f, lim in zip(fs, limits):
        for x in (lim - 1, lim, 5, 500):
            want = "ok" if x < lim else "violation"
            try:
                f(x)
                got = "ok"
            except icontract.ViolationError:
                got = "violation"
            except BaseException as e:  # noqa: B902
                got = "raised %s" % type(e).__name__
            if got != want:
                fails.append("the function with the default limit=%d (made %s, limits %s): f(%d) %s, expected %s" % (lim, case["how"], limits, x, got, want))
    return {"fails": fails}


def functions_from_one_definition_cases():
    for how in ("factory", "late", "methods"):
        for limits in ([10, 1000], [1000, 10], [10, 10, 100]):
            yield {"dom": "directed", "name": "functions_from_one_definition", "how": how, "limits": limits}


def late_decoration_of_inheriting_accessor(case):
    """a property accessor that overrides a contracted base accessor WITHOUT own contracts is decorated after its class
    exists: the base's accessor and the accessors of sibling classes keep their contracts"""
    def small(value):
        return value < 1000

    class Base(icontract.DBC):
        def __init__(self):
            self._v = 0

        @property
        def level(self):
            return self._v

        @level.setter
        @icontract.require(small)
        def level(self, value):
            self._v = value

        @icontract.require(small)
        def put(self, value):
            self._v = value

    def mk(name):
        def setter(self, value):
            self._v = value

        def put(self, value):
            self._v = value
        return type(name, (Base,), {"level": Base.level.setter(setter), "put": put})

    Restricted, Sibling = mk("Restricted"), mk("Sibling")
    which = case["member"]
    def tiny(value):
        return value < 100

    if which == "setter":
        icontract.require(tiny)(Restricted.level.fset)
    else:
        icontract.require(tiny)(Restricted.put)
    fails = []
    for cls in (Base, Sibling):
        for v, want in ((500, "ok"), (5000, "violation")):
            o = cls()
            try:
                if which == "setter":
                    o.level = v
                else:
                    o.put(v)
                got = "ok"
            except icontract.ViolationError:
                got = "violation"
            except BaseException as e:  # noqa: B902
                got = "raised %s" % type(e).__name__
            if got != want:
                fails.append("%s().%s = %d after the late decoration of Restricted's %s: %s, expected %s"
                             % (cls.__name__, "level" if which == "setter" else "put(..)", v, which, got, want))
    return {"fails": fails}


def late_decoration_of_inheriting_accessor_cases():
    for member in ("setter", "method"):
        yield {"dom": "directed", "name": "late_decoration_of_inheriting_accessor", "member": member}


def reserved_placeholders_without_var_keyword(case):
    """`_ARGS` / `_KWARGS` given as a keyword argument are refused with TypeError BEFORE any condition is evaluated - also by
    a function that has no **kwargs parameter"""
    evaluated = []

    def cond(x):
        evaluated.append("cond")
        return case["holds"]

    def reads(_ARGS, _KWARGS, x):
        evaluated.append("cond")
        return case["holds"]

    c = reads if case["reads"] else cond
    if case["shape"] == "function":
        @icontract.require(c)
        def f(x=1):
            evaluated.append("body")
            return x
        call = f
    elif case["shape"] == "async":
        @icontract.require(c)
        async def af(x=1):
            evaluated.append("body")
            return x
        call = lambda **k: _drive_all(af(**k))  # noqa: E731
    elif case["shape"] == "method":
        class A:
            @icontract.require(c)
            def m(self, x=1):
                evaluated.append("body")
                return x
        call = A().m
    else:
        @icontract.require(c)
        def g(x=1, **kwargs):
            evaluated.append("body")
            return x
        call = g
    fails = []
    for kw in ("_ARGS", "_KWARGS"):
        del evaluated[:]
        try:
            call(**{kw: (1,)})
            got = "accepted"
        except TypeError:
            got = "TypeError"
        except icontract.ViolationError:
            got = "ViolationError"
        except BaseException as e:  # noqa: B902
            got = type(e).__name__
        if got != "TypeError" or evaluated:
            fails.append("%s called with the keyword %s (condition %s): %s, evaluated %s - expected TypeError before anything is evaluated"
                         % (case["shape"], kw, "holds" if case["holds"] else "fails", got, evaluated))
    return {"fails": fails}


def reserved_placeholders_without_var_keyword_cases():
    for shape in ("function", "async", "method", "var_keyword"):
        for holds in (True, False):
            for reads in (False, True):
                yield {"dom": "directed", "name": "reserved_placeholders_without_var_keyword", "shape": shape, "holds": holds, "reads": reads}


def coroutine_invariant_spellings(case):
    """an invariant whose condition is a coroutine function - written as `async def`, as a functools.partial of one (nested
    too), as a bound async method - is refused when the invariant is DEFINED, with ValueError"""
    import functools

    async def check(self, k=0):
        return True

    class H:
        async def check(self, other):
            return True

    def sync_pred(self):
        return True

    @functools.wraps(sync_pred)
    async def asyncified(self):
        return sync_pred(self)

    conds = {"async wrapper of a sync predicate": asyncified, "async def": check, "partial": functools.partial(check, k=1), "nested partial": functools.partial(functools.partial(check), k=2),
             "partial without arguments": functools.partial(check), "bound method": H().check}
    cond = conds[case["spelling"]]
    kwargs = {}
    if case["check_on"]:
        kwargs["check_on"] = icontract.InvariantCheckEvent.ALL
    try:
        icontract.invariant(cond, **kwargs)
        got = "accepted"
    except ValueError:
        got = "ValueError"
    except BaseException as e:  # noqa: B902
        got = type(e).__name__
    return {"fails": [] if got == "ValueError" else ["an invariant whose condition is a coroutine function given as %s: %s at definition, expected ValueError"
                                                     % (case["spelling"], got)]}


def coroutine_invariant_spellings_cases():
    for spelling in ("async def", "partial", "nested partial", "partial without arguments", "bound method", "async wrapper of a sync predicate"):
        for check_on in (False, True):
            yield {"dom": "directed", "name": "coroutine_invariant_spellings", "spelling": spelling, "check_on": check_on}


# --------------------------------------------------------------------------- round 12

def generator_functions(case):
    """a contracted GENERATOR function is checked when it is CALLED, like any other callable - not when the generator is
    first iterated"""
    def positive(x):
        return x > 0

    if case["shape"] == "function":
        @icontract.require(positive)
        def gen(x):
            yield x
            yield x + 1
        call = gen
    elif case["shape"] == "method":
        class A:
            @icontract.require(positive)
            def gen(self, x):
                yield x
                yield x + 1
        call = A().gen
    else:
        class B(icontract.DBC):
            @icontract.require(positive)
            def gen(self, x):
                yield x

        class C(B):
            def gen(self, x):
                yield x
                yield x + 1
        call = C().gen
    fails = []
    try:
        g = call(-1)
        fails.append("%s: the violating call gen(-1) returned %s instead of raising" % (case["shape"], type(g).__name__))
    except icontract.ViolationError:
        pass
    except BaseException as e:  # noqa: B902
        fails.append("%s: gen(-1) raised %s" % (case["shape"], type(e).__name__))
    box = [5]

    def first_positive(xs):
        return xs[0] > 0

    @icontract.require(first_positive)
    def walk(xs):
        yield from xs

    g = walk(box)
    box[0] = -5            # changed AFTER the (satisfying) call: the call was judged on the arguments it was made with
    try:
        got = list(g)
        if got != [-5]:
            fails.append("the generator yielded %s" % got)
    except icontract.ViolationError:
        fails.append("the precondition was evaluated when the generator was iterated, not when the function was called")
    try:
        if list(call(3))[:2] != [3, 4]:
            fails.append("%s: a valid call yields %s" % (case["shape"], list(call(3))))
    except BaseException as e:  # noqa: B902
        fails.append("%s: a valid call raised %s" % (case["shape"], type(e).__name__))
    return {"fails": fails}


def generator_functions_cases():
    for shape in ("function", "method", "inherited"):
        yield {"dom": "directed", "name": "generator_functions", "shape": shape}


def post_init_inherits(case):
    """`__post_init__` is an ordinary method for the library: an override inherits the contracts of the base's (only
    `__init__` and `__new__` are exempt)"""
    import dataclasses
    evaluated = []

    def total_ok(self):
        evaluated.append("post")
        return self.total >= 0

    def price_ok(self):
        evaluated.append("pre")
        return self.price >= 0

    @dataclasses.dataclass
    class Order(icontract.DBC):
        price: int = 0
        total: int = dataclasses.field(default=0, init=False)

        @icontract.require(price_ok)
        @icontract.ensure(total_ok)
        def __post_init__(self):
            self.total = self.price

    if case["own"]:
        def discount_ok(self):
            return self.discount >= 0

        @dataclasses.dataclass
        class Discounted(Order):
            discount: int = 0

            @icontract.ensure(discount_ok)
            def __post_init__(self):
                self.total = self.price - self.discount
    else:
        @dataclasses.dataclass
        class Discounted(Order):
            discount: int = 0

            def __post_init__(self):
                self.total = self.price - self.discount
    fails = []
    for kwargs, want in (({"price": 10, "discount": 3}, "ok"), ({"price": 10, "discount": 30}, "violation"), ({"price": -1, "discount": 0}, "violation")):
        del evaluated[:]
        try:
            Discounted(**kwargs)
            got = "ok"
        except icontract.ViolationError:
            got = "violation"
        except BaseException as e:  # noqa: B902
            got = "raised %s" % type(e).__name__
        if got != want:
            fails.append("Discounted(%s): %s, expected %s (inherited contracts of __post_init__ evaluated: %s)" % (kwargs, got, want, evaluated))
    return {"fails": fails}


def post_init_inherits_cases():
    for own in (False, True):
        yield {"dom": "directed", "name": "post_init_inherits", "own": own}


def descriptor_members(case):
    """public members that reach the class through other descriptors than plain functions and `property` itself -
    functools.partialmethod, sub-classes of property, async generator methods - are guarded (or left working) like
    their plain counterparts"""
    import functools
    log = []

    def inv(self):
        log.append("inv")
        return self.state >= 0

    class documented_property(property):
        """a project-specific flavour of property"""

    class getter_only(property):
        """a read-only flavour whose constructor takes the getter and nothing else"""

        def __init__(self, fget):
            super().__init__(fget)

    @icontract.invariant(inv)
    class A:
        def __init__(self):
            self.state = 0

        def set_state(self, v):
            self.state = v

        kill = functools.partialmethod(set_state, -1)
        revive = functools.partialmethod(set_state, 1)

        @documented_property
        def level(self):
            return self.state

        @level.setter
        def level(self, v):
            self.state = v

        @getter_only
        def ro(self):
            return self.state

        async def ticks(self):
            yield 1
            yield 2

    fails = []
    a = A()
    del log[:]
    a.revive()
    if log != ["inv", "inv"]:
        fails.append("a partialmethod member: the invariant was evaluated %s around it, expected twice" % log)
    try:
        a.kill()
        fails.append("a partialmethod member that breaks the invariant returned normally")
    except icontract.ViolationError:
        pass
    a.state = 0
    del log[:]
    a.level
    if log != ["inv", "inv"]:
        fails.append("the getter of a property sub-class: the invariant was evaluated %s around it, expected twice" % log)
    try:
        a.level = -5
        fails.append("the setter of a property sub-class that breaks the invariant returned normally")
    except icontract.ViolationError:
        pass
    a.state = 0
    try:
        if a.ro != 0:
            fails.append("a read-only property sub-class gives %r" % a.ro)
    except BaseException as e:  # noqa: B902
        fails.append("reading a read-only property sub-class raised %s" % type(e).__name__)

    async def collect():
        return [t async for t in a.ticks()]
    try:
        if _drive_all(collect()) != [1, 2]:
            fails.append("an async generator method no longer yields its items")
    except BaseException as e:  # noqa: B902
        fails.append("iterating an async generator method raised %s: %s" % (type(e).__name__, str(e)[:80]))
    return {"fails": fails}


def descriptor_members_cases():
    yield {"dom": "directed", "name": "descriptor_members"}


def abstract_redeclaration(case):
    """a class in the MIDDLE of a hierarchy re-declares an abstract method without contracts: the concrete class below
    still inherits what the top declared"""
    import abc

    def positive(x):
        return x > 0

    def small(result):
        return result < 100

    kind = case["kind"]

    def deco(f):
        return {"function": lambda g: g, "static": staticmethod, "class": classmethod}[kind](f)

    class Shape(icontract.DBC):
        if kind == "function":
            @abc.abstractmethod
            @icontract.require(positive)
            @icontract.ensure(small)
            def scale(self, x):
                raise NotImplementedError()
        elif kind == "static":
            @staticmethod
            @abc.abstractmethod
            @icontract.require(positive)
            @icontract.ensure(small)
            def scale(x):
                raise NotImplementedError()
        else:
            @classmethod
            @abc.abstractmethod
            @icontract.require(positive)
            @icontract.ensure(small)
            def scale(cls, x):
                raise NotImplementedError()

    class Polygon(Shape):
        if kind == "function":
            @abc.abstractmethod
            def scale(self, x):
                raise NotImplementedError()
        elif kind == "static":
            @staticmethod
            @abc.abstractmethod
            def scale(x):
                raise NotImplementedError()
        else:
            @classmethod
            @abc.abstractmethod
            def scale(cls, x):
                raise NotImplementedError()

    class Square(Polygon):
        if kind == "function":
            def scale(self, x):
                return x * 2
        elif kind == "static":
            @staticmethod
            def scale(x):
                return x * 2
        else:
            @classmethod
            def scale(cls, x):
                return x * 2

    fails = []
    for x, want in ((3, "ok"), (-3, "violation"), (70, "violation")):
        try:
            Square().scale(x)
            got = "ok"
        except icontract.ViolationError:
            got = "violation"
        except BaseException as e:  # noqa: B902
            got = "raised %s" % type(e).__name__
        if got != want:
            fails.append("%s: Square().scale(%d): %s, expected %s (contracts declared two levels up)" % (kind, x, got, want))
    return {"fails": fails}


def abstract_redeclaration_cases():
    for kind in ("function", "static", "class"):
        yield {"dom": "directed", "name": "abstract_redeclaration", "kind": kind}


def base_exception_error_classes(case):
    """`error` given as a class that derives from BaseException but not from Exception (SystemExit, KeyboardInterrupt,
    asyncio.CancelledError, an own class): a violation raises exactly that class, with the violation message"""
    import asyncio

    class Abort(BaseException):
        pass

    cls = {"SystemExit": SystemExit, "KeyboardInterrupt": KeyboardInterrupt, "CancelledError": asyncio.CancelledError, "own": Abort,
           "GeneratorExit": GeneratorExit}[case["error"]]

    def positive(x):
        return x > 0

    role = case["role"]
    if role == "require":
        @icontract.require(positive, error=cls)
        def f(x):
            return x
        call = f
    elif role == "ensure":
        def result_positive(result):
            return result > 0

        @icontract.ensure(result_positive, error=cls)
        def f(x):
            return x
        call = f
    elif role == "async":
        @icontract.require(positive, error=cls)
        async def f(x):
            return x
        call = lambda x: _drive_all(f(x))  # noqa: E731
    else:
        def state_positive(self):
            return self.x > 0

        @icontract.invariant(state_positive, error=cls)
        class A:
            def __init__(self, x):
                self.x = x
        call = A
    try:
        call(-1)
        got = "returned"
    except cls as e:
        got = "ok" if type(e) is cls and "positive" in str(e) else "raised %s with message %r" % (type(e).__name__, str(e)[:60])
    except BaseException as e:  # noqa: B902
        got = "raised %s: %s" % (type(e).__name__, str(e)[:80])
    return {"fails": [] if got == "ok" else ["%s with error=%s: %s, expected the violation raised as %s" % (role, case["error"], got, case["error"])]}


def base_exception_error_classes_cases():
    for role in ("require", "ensure", "async", "invariant"):
        for error in ("SystemExit", "KeyboardInterrupt", "CancelledError", "own", "GeneratorExit"):
            yield {"dom": "directed", "name": "base_exception_error_classes", "role": role, "error": error}


def wrapper_above_inheriting_override(case):
    """an override in a DBC hierarchy carries a foreign functools.wraps decorator ABOVE its own contract: the inherited
    snapshot is captured, the own postcondition can read it and the inherited postcondition is enforced"""
    import functools
    captured = []

    def cap(self):
        captured.append("capture")
        return list(self.items)

    def grows(self, OLD):
        return len(self.items) >= len(OLD.before)

    def traced(fn):
        @functools.wraps(fn)
        def wrapper(*args, **kwargs):
            return fn(*args, **kwargs)
        return wrapper

    class Base(icontract.DBC):
        def __init__(self):
            self.items = [1, 2]

        @icontract.snapshot(cap, name="before")
        @icontract.ensure(grows)
        def change(self, drop):
            pass

    def by_one(self, OLD):
        return abs(len(self.items) - len(OLD.before)) <= 1

    class Derived(Base):
        @traced
        @icontract.ensure(by_one)
        def change(self, drop):
            if drop:
                self.items.pop()
            else:
                self.items.append(0)

    fails = []
    for drop, want in ((False, "ok"), (True, "violation")):
        del captured[:]
        try:
            Derived().change(drop)
            got = "ok"
        except icontract.ViolationError:
            got = "violation"
        except BaseException as e:  # noqa: B902
            got = "raised %s: %s" % (type(e).__name__, str(e)[:80])
        if got != want or captured != ["capture"]:
            fails.append("Derived().change(drop=%s): %s with captures %s, expected %s with exactly one capture" % (drop, got, captured, want))
    return {"fails": fails}


def wrapper_above_inheriting_override_cases():
    yield {"dom": "directed", "name": "wrapper_above_inheriting_override"}


def error_function_bad_returns(case):
    """an error function that does not return an exception - None (a forgotten return), a string, a number, a coroutine -
    makes the violation surface as TypeError, whatever it returned"""
    async def acoro():
        return ValueError("x")

    rets = {"None": (lambda: None), "str": (lambda: "boom"), "int": (lambda: 3), "tuple": (lambda: (ValueError, "x")), "coroutine": (lambda: acoro())}
    ret = rets[case["returns"]]

    def err(x):
        return ret()

    def positive(x):
        return x > 0

    if case["role"] == "require":
        @icontract.require(positive, error=err)
        def f(x):
            return x
        call = f
    elif case["role"] == "ensure":
        @icontract.ensure(lambda x, result: result > 0, error=err)
        def f(x):
            return x
        call = f
    else:
        @icontract.require(positive, error=err)
        async def f(x):
            return x
        call = lambda x: _drive_all(f(x))  # noqa: E731
    import warnings
    with warnings.catch_warnings():
        warnings.simplefilter("ignore")
        try:
            call(-1)
            got = "returned"
        except TypeError:
            got = "TypeError"
        except BaseException as e:  # noqa: B902
            got = type(e).__name__
    return {"fails": [] if got == "TypeError" else ["%s: an error function returning %s: %s, expected TypeError" % (case["role"], case["returns"], got)]}


def error_function_bad_returns_cases():
    for role in ("require", "ensure", "async"):
        for returns in ("None", "str", "int", "tuple", "coroutine"):
            yield {"dom": "directed", "name": "error_function_bad_returns", "role": role, "returns": returns}


def deep_nesting(case):
    """public methods / constructors of MANY different objects with invariants nested in one another (a recursion over a long
    linked structure): every object is verified, however deep it sits"""
    import sys
    checked = []

    def fine(self):
        checked.append(self.index)
        return self.value >= 0

    @icontract.invariant(fine)
    class Node:
        def __init__(self, index, rest=None):
            self.index = index
            self.value = 1
            self.rest = rest

        def total(self):
            return self.value + (self.rest.total() if self.rest is not None else 0)

    n = case["n"]
    old = sys.getrecursionlimit()
    sys.setrecursionlimit(max(old, 20 * n + 200))
    fails = []
    try:
        head = None
        nodes = []
        for i in reversed(range(n)):
            head = Node(i, head)
            nodes.append(head)
        nodes.reverse()
        del checked[:]
        head.total()
        missing = [i for i in range(n) if checked.count(i) != 2]
        if missing:
            fails.append("total() over %d nested objects: the invariants of the objects %s... were not evaluated twice" % (n, missing[:5]))
        for bad in (3, n // 2, n - 1):
            object.__setattr__(nodes[bad], "value", -1)
            try:
                head.total()
                fails.append("the invariant of object %d of %d is broken: total() returned normally" % (bad, n))
            except icontract.ViolationError:
                pass
            object.__setattr__(nodes[bad], "value", 1)
    finally:
        sys.setrecursionlimit(old)
    return {"fails": fails}


def deep_nesting_cases():
    for n in (10, 70, 100):
        yield {"dom": "directed", "name": "deep_nesting", "n": n}


def lenient_objects_as_condition_values(case):
    """what a condition returns is judged by its truth value; an object that answers ANY attribute look-up (a lenient settings
    / mock object) is no awaitable: the async twin judges it like the sync twin"""
    class Lenient:
        def __init__(self, truth):
            self.truth = truth

        def __getattr__(self, name):
            if name.startswith("__") and name not in ("__await__",):
                raise AttributeError(name)
            return 0

        def __bool__(self):
            return self.truth

    def cond(settings):
        return settings

    def post(settings, result):
        return settings

    if case["role"] == "require":
        @icontract.require(cond)
        def f(settings):
            return 1

        @icontract.require(cond)
        async def af(settings):
            return 1
    else:
        @icontract.ensure(post)
        def f(settings):
            return 1

        @icontract.ensure(post)
        async def af(settings):
            return 1
    fails = []
    for truth in (True, False):
        outs = []
        for call in (lambda s: f(s), lambda s: _drive_all(af(s))):
            try:
                call(Lenient(truth))
                outs.append("ok")
            except icontract.ViolationError:
                outs.append("violation")
            except BaseException as e:  # noqa: B902
                outs.append("raised %s" % type(e).__name__)
        want = "ok" if truth else "violation"
        if outs != [want, want]:
            fails.append("%s returning an object that answers every attribute (truth %s): sync %s, async %s - expected %s for both"
                         % (case["role"], truth, outs[0], outs[1], want))
    return {"fails": fails}


def lenient_objects_as_condition_values_cases():
    for role in ("require", "ensure"):
        yield {"dom": "directed", "name": "lenient_objects_as_condition_values", "role": role}


def disabled_invariant_is_absent(case):
    """a DISABLED invariant returns the class it was given and leaves it untouched - also when the class is a plain
    sub-class of a class that has (enabled) invariants"""
    def base_ok(self):
        return self.x >= 0

    def never(self):
        raise AssertionError("the condition of a disabled invariant was called")

    if case["base"] == "invariant":
        @icontract.invariant(base_ok)
        class Base:
            def __init__(self):
                self.x = 0
    elif case["base"] == "dbc":
        @icontract.invariant(base_ok)
        class Base(icontract.DBC):
            def __init__(self):
                self.x = 0
    else:
        class Base:
            def __init__(self):
                self.x = 0

    class Sub(Base):
        def __init__(self):
            super().__init__()
            self.y = 0

        def double_x(self):
            self.x *= 2

        def reset(self):
            self.x = -1          # would break the base's invariant: but Sub's own members are not wrapped by anybody
            self.x = 0

        @property
        def p(self):
            return self.x

    before = dict(vars(Sub))
    out = icontract.invariant(never, enabled=False)(Sub)
    fails = []
    if out is not Sub:
        fails.append("a disabled invariant returned another object than the class it was given")
    changed = [k for k in set(before) | set(vars(Sub)) if before.get(k) is not vars(Sub).get(k)]
    if changed:
        fails.append("a disabled invariant on a sub-class of a class with %s changed the class attributes %s" % (case["base"], sorted(changed)))
    return {"fails": fails}


def disabled_invariant_is_absent_cases():
    for base in ("invariant", "dbc", "plain"):
        yield {"dom": "directed", "name": "disabled_invariant_is_absent", "base": base}


def diamond_orders(case):
    """with several bases the contracts are evaluated in the order of the bases: what the common ancestor demands comes
    before what the first base adds, the first base's postconditions before the second's - a later one may rely on an
    earlier one as a guard"""
    log = []

    def has_items(self):
        log.append("base")
        return self.items is not None

    def first_small(self):
        log.append("left")
        return self.items[0] < 10

    def anything(self):
        log.append("right")
        return True

    @icontract.invariant(has_items)
    class Base(icontract.DBC):
        def __init__(self, items):
            self.items = items

        def touch(self):
            pass

    @icontract.invariant(first_small)
    class Left(Base):
        pass

    @icontract.invariant(anything)
    class Right(Base):
        pass

    class Bottom(Left, Right):
        pass

    fails = []
    del log[:]
    Bottom([1])
    if "base" not in log or "left" not in log or log.index("base") > log.index("left"):
        fails.append("after Bottom(...) the invariants were evaluated in the order %s: the common ancestor's must come before the first base's own" % log)
    try:
        Bottom(None)
        fails.append("Bottom(None) was accepted")
    except icontract.ViolationError:
        pass
    except BaseException as e:  # noqa: B902
        fails.append("Bottom(None): %s escaped from an invariant that relies on the ancestor's as a guard" % type(e).__name__)
    plog = []

    def is_number(result):
        plog.append("readable")
        return isinstance(result, int)

    def bounded(result):
        plog.append("bounded")
        return result < 100

    class Readable(icontract.DBC):
        @icontract.ensure(is_number)
        def read(self):
            return 0

    class Bounded(icontract.DBC):
        @icontract.ensure(bounded)
        def read(self):
            return 0

    class Sensor(Readable, Bounded):
        def __init__(self, v):
            self.v = v

        def read(self):
            return self.v

    del plog[:]
    Sensor(5).read()
    if plog != ["readable", "bounded"]:
        fails.append("the postconditions inherited from (Readable, Bounded) were evaluated in the order %s" % plog)
    try:
        Sensor("x").read()
        fails.append("Sensor('x').read() was accepted")
    except icontract.ViolationError:
        pass
    except BaseException as e:  # noqa: B902
        fails.append("Sensor('x').read(): %s escaped from the second base's postcondition - the first base's is its guard" % type(e).__name__)
    return {"fails": fails}


def diamond_orders_cases():
    yield {"dom": "directed", "name": "diamond_orders"}


def async_message_equals_sync(case):
    """the message of a violated contract of an `async def` function is the message of the same contract on the same `def`
    function: same lines for the condition's values AND for the remaining arguments of the call"""
    src = (
        "import icontract\n"
        "@icontract.%(deco)s(lambda %(params)s: %(cond)s)\n"
        "def f(x, factor=2, *, offset=0):\n"
        "    return x\n"
        "@icontract.%(deco)s(lambda %(params)s: %(cond)s)\n"
        "async def af(x, factor=2, *, offset=0):\n"
        "    return x\n"
    ) % {"deco": case["deco"], "params": case["params"], "cond": case["cond"]}
    import os
    import tempfile
    import importlib.util
    d = tempfile.mkdtemp(prefix="verif_msg_")
    path = os.path.join(d, "verif_msg_mod_%d.py" % abs(hash(src)))
    with open(path, "w") as fh:
        fh.write(src)
    spec = importlib.util.spec_from_file_location(os.path.basename(path)[:-3], path)
    mod = importlib.util.module_from_spec(spec)
    spec.loader.exec_module(mod)
    msgs = []
    for call in (lambda: mod.f(-1, 3, offset=4), lambda: _drive_all(mod.af(-1, 3, offset=4))):
        try:
            call()
            msgs.append("returned")
        except icontract.ViolationError as e:
            text = str(e)
            msgs.append("\n".join(text.split("\n")[1:]))          # (the first line names the line of the decorator)
        except BaseException as e:  # noqa: B902
            msgs.append("raised %s" % type(e).__name__)
    import shutil
    shutil.rmtree(d, ignore_errors=True)
    fails = []
    if msgs[0] != msgs[1]:
        fails.append("%s(lambda %s: %s): the message of the async function differs:\n%s\n--- sync ---\n%s" % (case["deco"], case["params"], case["cond"], msgs[1], msgs[0]))
    for name in ("factor was 3", "offset was 4", "x was -1"):
        if name not in msgs[0]:
            fails.append("the sync message lacks `%s`:\n%s" % (name, msgs[0]))
    return {"fails": fails}


def async_message_equals_sync_cases():
    for deco, params, cond in (("require", "x", "x > 0"), ("ensure", "result", "result > 0"), ("ensure", "x, result", "result > x + 10"),
                               ("require", "x, factor", "x * factor > 0")):
        yield {"dom": "directed", "name": "async_message_equals_sync", "deco": deco, "params": params, "cond": cond}


def method_aliased_as_setattr_in_subclass(case):
    """a sub-class binds an inherited public method under another role (`__setattr__ = Base.store`): the base's method keeps
    checking what it checked before"""
    def level_ok(self):
        return self.__dict__.get("level", 0) >= 0

    def size_ok(self):
        return self.__dict__.get("size", 0) >= 0

    @icontract.invariant(level_ok, check_on=icontract.InvariantCheckEvent.CALL)
    @icontract.invariant(size_ok, check_on=icontract.InvariantCheckEvent.SETATTR)
    class Base(icontract.DBC):
        def __init__(self):
            pass

        def store(self, name, value):
            self.__dict__[name] = value

    def verdicts():
        out = []
        for name in ("level", "size"):
            b = Base()
            try:
                b.store(name, -1)
                out.append("ok")
            except icontract.ViolationError:
                out.append("violation")
            except BaseException as e:  # noqa: B902
                out.append(type(e).__name__)
        return out

    before = verdicts()
    try:
        class Sub(Base):
            __setattr__ = Base.store
    except BaseException as e:  # noqa: B902
        return {"fails": ["defining the sub-class raised %s" % type(e).__name__]}
    after = verdicts()
    return {"fails": [] if before == after else ["Base().store(level=-1 / size=-1) gave %s before the sub-class aliased the method as __setattr__, %s after" % (before, after)]}


def method_aliased_as_setattr_in_subclass_cases():
    yield {"dom": "directed", "name": "method_aliased_as_setattr_in_subclass"}


# --------------------------------------------------------------------------- round 13

def capture_reenters_function(case):
    """a snapshot capture that calls the very function it belongs to (a pure query remembering its own value) re-enters a
    function whose contracts are being evaluated: the nested call is made bare - one capture per outside call, no recursion"""
    evaluated = []

    def cap(self):
        evaluated.append("capture")
        return self.q()

    def same(result, OLD):
        return result == OLD.q

    if case["flavour"] == "sync":
        class A:
            def __init__(self):
                self.v = 3

            @icontract.snapshot(cap, name="q")
            @icontract.ensure(same)
            def q(self):
                return self.v
        call = lambda: A().q()  # noqa: E731
    else:
        async def acap(self):
            evaluated.append("capture")
            return await self.q()

        class A:
            def __init__(self):
                self.v = 3

            @icontract.snapshot(acap, name="q")
            @icontract.ensure(same)
            async def q(self):
                return self.v
        call = lambda: _drive_all(A().q())  # noqa: E731
    fails = []
    try:
        if call() != 3:
            fails.append("the query returned another value")
    except BaseException as e:  # noqa: B902
        fails.append("the query raised %s" % type(e).__name__)
    if evaluated != ["capture"]:
        fails.append("%s: the capture was evaluated %d times for one outside call" % (case["flavour"], len(evaluated)))
    return {"fails": fails}


def capture_reenters_function_cases():
    for flavour in ("sync", "async"):
        yield {"dom": "directed", "name": "capture_reenters_function", "flavour": flavour}


def old_attribute_errors(case):
    """reading a snapshot that was never captured raises an AttributeError that EXPLAINS itself - whatever the name looks like"""
    def cap(lst):
        return list(lst)

    name = case["read"]

    def post(lst, OLD):
        return getattr(OLD, name) is not None

    @icontract.snapshot(cap, name=case["captured"])
    @icontract.ensure(post)
    def f(lst):
        return lst

    try:
        f([1])
        got = "returned"
    except AttributeError as e:
        msg = str(e)
        got = "ok" if (name in msg and "snapshot" in msg.lower()) else "AttributeError without explanation: %r" % msg[:120]
    except BaseException as e:  # noqa: B902
        got = "raised %s" % type(e).__name__
    return {"fails": [] if got == "ok" else ["reading OLD.%s (captured: %s): %s" % (name, case["captured"], got)]}


def old_attribute_errors_cases():
    for captured, read in (("items", "item"), ("_items", "_item"), ("_items", "items"), ("__x", "_x"), ("lst", "_lst")):
        yield {"dom": "directed", "name": "old_attribute_errors", "captured": captured, "read": read}


def async_error_function_on_invariant(case):
    """an `async def` function given as `error` is a function like any other: accepted when the contract is created - by
    `invariant` as by `require` and `ensure` - and, as it does not return an exception, a violation surfaces as TypeError"""
    async def make_error(self):
        return ValueError("x")

    async def make_error_x(x):
        return ValueError("x")

    def positive(self):
        return self.x > 0

    def pos(x):
        return x > 0

    fails = []
    import warnings
    with warnings.catch_warnings():
        warnings.simplefilter("ignore")
        try:
            if case["deco"] == "invariant":
                @icontract.invariant(positive, error=make_error)
                class A:
                    def __init__(self, x):
                        self.x = x
                call = A
            elif case["deco"] == "require":
                @icontract.require(pos, error=make_error_x)
                def f(x):
                    return x
                call = f
            else:
                @icontract.ensure(pos, error=make_error_x)
                def f(x):
                    return x
                call = f
        except BaseException as e:  # noqa: B902
            return {"fails": ["%s with an async def error function was refused at creation: %s: %s" % (case["deco"], type(e).__name__, str(e)[:80])]}
        try:
            call(-1)
            got = "returned"
        except TypeError:
            got = "TypeError"
        except BaseException as e:  # noqa: B902
            got = type(e).__name__
    if got != "TypeError":
        fails.append("%s with an async def error function: a violation gave %s, expected TypeError" % (case["deco"], got))
    return {"fails": fails}


def async_error_function_on_invariant_cases():
    for deco in ("invariant", "require", "ensure"):
        yield {"dom": "directed", "name": "async_error_function_on_invariant", "deco": deco}


def contract_on_builtin_with_callback(case):
    """a contract placed on a C-implemented function that takes a call-back (sorted, bisect, ...): calls of the contracted
    function made by the call-back are calls made by the BODY - fully checked"""
    evaluated = []

    def nonempty(iterable):
        evaluated.append(("pre", len(iterable)))
        return len(iterable) > 0

    checked_sorted = icontract.require(nonempty)(sorted)
    fails = []
    try:
        checked_sorted([[3, 1], [], [2]], key=lambda r: tuple(checked_sorted(r)))
        fails.append("the nested call on the empty row returned normally; preconditions evaluated on %s" % evaluated)
    except icontract.ViolationError:
        pass
    except BaseException as e:  # noqa: B902
        fails.append("raised %s: %s" % (type(e).__name__, str(e)[:80]))
    del evaluated[:]
    try:
        out = checked_sorted([[3, 1], [2]], key=lambda r: tuple(checked_sorted(r)))
        if out != [[3, 1], [2]] and out != [[2], [3, 1]] or len(evaluated) != 3:
            fails.append("valid nested calls: result %s, preconditions evaluated on %s (expected 3 evaluations)" % (out, evaluated))
    except BaseException as e:  # noqa: B902
        fails.append("valid nested calls raised %s" % type(e).__name__)
    return {"fails": fails}


def contract_on_builtin_with_callback_cases():
    yield {"dom": "directed", "name": "contract_on_builtin_with_callback"}


def condition_raising_type_error(case):
    """an exception raised BY a condition surfaces as that very exception - also a TypeError (or a sub-class of it), which
    must not be mistaken for a complaint about the condition's arguments"""
    class UnitMismatch(TypeError):
        pass

    boom = UnitMismatch("metres vs seconds")

    class Metres:
        def __gt__(self, other):
            raise boom

    fails = []
    role = case["role"]
    try:
        if role == "invariant":
            @icontract.invariant(lambda self: self.width > 0)
            class A:
                def __init__(self):
                    self.width = Metres()
            A()
        elif role == "invariant-method":
            @icontract.invariant(lambda self: self.width > 0)
            class B:
                def __init__(self):
                    self.width = 1

                def set(self):
                    self.width = Metres()
            B().set()
        elif role == "require":
            @icontract.require(lambda w: w > 0)
            def f(w):
                return w
            f(Metres())
        else:
            @icontract.ensure(lambda result: result > 0)
            def g():
                return Metres()
            g()
        got = "returned"
    except UnitMismatch as e:
        got = "ok" if e is boom else "another UnitMismatch"
    except BaseException as e:  # noqa: B902
        got = "raised %s: %s" % (type(e).__name__, str(e)[:80])
    return {"fails": [] if got == "ok" else ["%s whose condition raises a TypeError sub-class: %s, expected that very exception" % (role, got)]}


def condition_raising_type_error_cases():
    for role in ("invariant", "invariant-method", "require", "ensure"):
        yield {"dom": "directed", "name": "condition_raising_type_error", "role": role}


def nested_constructor_keeps_outer_marks(case):
    """a constructor of ANOTHER class with invariants called while something is in progress (inside a public method's body,
    inside a condition) leaves the marks of the outer evaluation as they were - whether it succeeds or is refused"""
    def balanced(self):
        return self.balance >= 0

    def nonneg(self):
        return self.amount >= 0

    @icontract.invariant(nonneg)
    class Entry:
        def __init__(self, amount):
            self.amount = amount

    @icontract.invariant(balanced)
    class Ledger:
        def __init__(self):
            self.balance = 0
            self.notes = []

        def note(self, text):
            self.notes.append(text)

        def transfer(self, amount, bad_entry):
            self.balance = -1                       # temporarily broken inside the body
            try:
                Entry(-3 if bad_entry else amount)
            except icontract.ViolationError:
                pass
            self.note("transfer")                   # a nested call on self: unchecked while self is in progress
            self.balance = amount

    fails = []
    for bad_entry in (False, True):
        try:
            Ledger().transfer(5, bad_entry)
        except icontract.ViolationError:
            fails.append("a method that constructs an Entry (%s) in its body and then calls another method of itself got a spurious "
                         "violation: the constructor wiped the mark of the outer object" % ("refused" if bad_entry else "accepted"))
        except BaseException as e:  # noqa: B902
            fails.append("raised %s" % type(e).__name__)
    probes = []

    def builds_token(x):
        Entry(1)
        probes.append(probe(x))                     # re-enters its own function: bare
        return True

    @icontract.require(builds_token)
    def probe(x):
        return x

    try:
        probe(1)
        if probes != [1]:
            fails.append("a precondition that constructs an object and re-enters its function: inner results %s" % probes)
    except RecursionError:
        fails.append("a precondition that constructs an object and then re-enters its own function recursed without bound")
    except BaseException as e:  # noqa: B902
        fails.append("raised %s" % type(e).__name__)
    return {"fails": fails}


def nested_constructor_keeps_outer_marks_cases():
    yield {"dom": "directed", "name": "nested_constructor_keeps_outer_marks"}


def constructor_results(case):
    """what `__init__` returns reaches the caller as without invariants: a direct call hands back the body's object, and a
    constructor that returns something makes instantiation fail with TypeError exactly like the bare class"""
    marker = object()

    def fine(self):
        return True

    def body(self, give=False):
        self.x = 1
        return marker if give else None

    plain = type("P", (), {"__init__": body})
    if case["how"] == "decorator":
        K = icontract.invariant(fine)(type("K", (), {"__init__": body}))
    else:
        K = icontract.invariant(fine)(type("K", (icontract.DBC,), {"__init__": body}))
    fails = []
    for cls in (K,):
        obj = cls.__new__(cls)
        got = cls.__init__(obj, give=True)
        if got is not marker:
            fails.append("%s: __init__ called directly returned %r instead of the object its body returned" % (case["how"], got))
        outs = []
        for c in (plain, cls):
            try:
                c(give=True)
                outs.append("created")
            except TypeError:
                outs.append("TypeError")
            except BaseException as e:  # noqa: B902
                outs.append(type(e).__name__)
        if outs[0] != outs[1]:
            fails.append("%s: instantiating with a constructor that returns an object: %s, the bare class: %s" % (case["how"], outs[1], outs[0]))
    return {"fails": fails}


def constructor_results_cases():
    for how in ("decorator", "dbc"):
        yield {"dom": "directed", "name": "constructor_results", "how": how}


def placeholders_named_but_not_evaluated(case):
    """`_ARGS` / `_KWARGS` are listed whenever the condition NAMES them as parameters - also when it is a named function, when
    the parameter is keyword-only, or when the part of the lambda that reads it was not evaluated"""
    src = (
        "import icontract\n"
        "def named(_ARGS, x):\n"
        "    return x > 0\n"
        "def named_kwonly(x, *, _ARGS, _KWARGS):\n"
        "    return x > 0\n"
        "@icontract.require(named)\n"
        "def f_named(x, y=0):\n"
        "    return x\n"
        "@icontract.require(named_kwonly)\n"
        "def f_named_kwonly(x, y=0):\n"
        "    return x\n"
        "@icontract.require(lambda _ARGS, x: x > 0 and len(_ARGS) == 1)\n"
        "def f_unevaluated(x, y=0):\n"
        "    return x\n"
        "@icontract.require(lambda x, *, _ARGS: x > 0 and len(_ARGS) == 1)\n"
        "def f_kwonly(x, y=0):\n"
        "    return x\n"
        "@icontract.require(lambda _KWARGS, x: len(_KWARGS) > 5 if x > 0 else False)\n"
        "def f_branch(x, y=0):\n"
        "    return x\n"
        "@icontract.require(lambda x: x > 0)\n"
        "def f_plain(x, y=0):\n"
        "    return x\n"
    )
    import os
    import tempfile
    import shutil
    import importlib.util
    d = tempfile.mkdtemp(prefix="verif_ph_")
    path = os.path.join(d, "verif_ph_mod.py")
    with open(path, "w") as fh:
        fh.write(src)
    spec = importlib.util.spec_from_file_location("verif_ph_mod_%d" % os.getpid(), path)
    mod = importlib.util.module_from_spec(spec)
    spec.loader.exec_module(mod)
    fails = []
    want = {"f_named": ["_ARGS was"], "f_named_kwonly": ["_ARGS was", "_KWARGS was"], "f_unevaluated": ["_ARGS was"], "f_kwonly": ["_ARGS was"],
            "f_branch": ["_KWARGS was"], "f_plain": []}
    for name, lines in sorted(want.items()):
        try:
            getattr(mod, name)(-1, y=2)
            fails.append("%s(-1, y=2) returned normally" % name)
            continue
        except icontract.ViolationError as e:
            text = str(e)
        except BaseException as e:  # noqa: B902
            fails.append("%s(-1, y=2) raised %s: %s" % (name, type(e).__name__, str(e)[:80]))
            continue
        for ln in lines:
            if ln not in text:
                fails.append("%s: the condition names the placeholder but the message has no `%s ...` line:\n%s" % (name, ln, text))
        for ph in ("_ARGS was", "_KWARGS was"):
            if ph not in lines and ph in text:
                fails.append("%s: the message shows `%s ...` although the condition does not name it:\n%s" % (name, ph, text))
    shutil.rmtree(d, ignore_errors=True)
    return {"fails": fails}


def placeholders_named_but_not_evaluated_cases():
    yield {"dom": "directed", "name": "placeholders_named_but_not_evaluated"}


SCENARIOS = {"capture_reenters_function": capture_reenters_function, "old_attribute_errors": old_attribute_errors, "async_error_function_on_invariant": async_error_function_on_invariant, "contract_on_builtin_with_callback": contract_on_builtin_with_callback, "condition_raising_type_error": condition_raising_type_error, "nested_constructor_keeps_outer_marks": nested_constructor_keeps_outer_marks, "constructor_results": constructor_results, "placeholders_named_but_not_evaluated": placeholders_named_but_not_evaluated, "generator_functions": generator_functions, "post_init_inherits": post_init_inherits, "descriptor_members": descriptor_members, "abstract_redeclaration": abstract_redeclaration, "base_exception_error_classes": base_exception_error_classes, "wrapper_above_inheriting_override": wrapper_above_inheriting_override, "error_function_bad_returns": error_function_bad_returns, "deep_nesting": deep_nesting, "lenient_objects_as_condition_values": lenient_objects_as_condition_values, "disabled_invariant_is_absent": disabled_invariant_is_absent, "diamond_orders": diamond_orders, "async_message_equals_sync": async_message_equals_sync, "method_aliased_as_setattr_in_subclass": method_aliased_as_setattr_in_subclass, "awaitable_kinds": awaitable_kinds, "wrapped_async_public_method": wrapped_async_public_method, "odd_member_names": odd_member_names, "member_attached_later": member_attached_later, "partial_binding_a_parameter_name": partial_binding_a_parameter_name, "odd_capture_callables": odd_capture_callables, "error_function_called_every_time": error_function_called_every_time, "method_contracts_during_reentry": method_contracts_during_reentry, "constructor_interrupted": constructor_interrupted, "first_calls_at_the_same_moment": first_calls_at_the_same_moment, "base_call_while_override_runs": base_call_while_override_runs, "constructor_keyword_named_cls": constructor_keyword_named_cls, "property_docstrings": property_docstrings, "functions_from_one_definition": functions_from_one_definition, "late_decoration_of_inheriting_accessor": late_decoration_of_inheriting_accessor, "reserved_placeholders_without_var_keyword": reserved_placeholders_without_var_keyword, "coroutine_invariant_spellings": coroutine_invariant_spellings, "default_limits": default_limits, "one_function_in_two_roles": one_function_in_two_roles, "callable_exception_instance": callable_exception_instance, "contracts_on_bound_methods": contracts_on_bound_methods, "rejected_constructions_do_not_accumulate": rejected_constructions_do_not_accumulate, "sometimes_awaitable_condition": sometimes_awaitable_condition, "property_inherited_into_class_with_invariants": property_inherited_into_class_with_invariants, "members_from_invariantless_bases": members_from_invariantless_bases, "invariants_while_another_thread_reports": invariants_while_another_thread_reports, "separation_in_every_interpreter_mode": separation_in_every_interpreter_mode, "falsy_and_truthy_values": falsy_and_truthy_values, "special_results": special_results, "contracts_on_partial": contracts_on_partial, "error_functions_sharing_code": error_functions_sharing_code, "closed_from_another_context": closed_from_another_context, "proxies_and_nested_constructors": proxies_and_nested_constructors, "member_added_between_invariants": member_added_between_invariants, "integrator_snapshot_without_postcondition": integrator_snapshot_without_postcondition, "exception_from_new": exception_from_new, "interrupt_while_message_is_built": interrupt_while_message_is_built, "concurrent_constructors_without_init": concurrent_constructors_without_init, "async_def_spelling": async_def_spelling, "class_keyword_arguments": class_keyword_arguments, "reserved_keyword_after_valid_calls": reserved_keyword_after_valid_calls, "call_while_constructor_runs": call_while_constructor_runs, "constructor_calls_back": constructor_calls_back, "contract_calls_same_method_of_fresh_object": contract_calls_same_method_of_fresh_object, "odd_exception_classes": odd_exception_classes, "sync_layer_over_coroutine": sync_layer_over_coroutine, "keyword_named_self": keyword_named_self, "decorating_another_function": decorating_another_function, "late_decoration_of_inheriting_override": late_decoration_of_inheriting_override, "used_before_override": used_before_override, "rewritten_file": rewritten_file, "shared_decorator": shared_decorator, "construct_inside_contract": construct_inside_contract,
             "cancelled_in_body": cancelled_in_body, "recreated_class": recreated_class}


def run(case):
    return SCENARIOS[case["name"]](case)
