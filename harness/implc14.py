"""Transparency materialiser (C14): decorator stacks with foreign functools.wraps layers, metadata
of decorated callables, and classes given invariants compared with their undecorated twins."""
import abc
import functools
import inspect

import common

icontract = common.assert_repo_import()
import icontract._checkers as _ck  # noqa: E402


def run_stack(case):
    """case: {"decos": ["require"|"ensure"|"snapshot"|"foreign", ...] bottom-up, "async": bool, "kind": "function"|"method"}"""
    log = []
    n = {"cond": 0}

    class ForeignObject:
        """a class-based decorator: a callable object that exposes __wrapped__ and the metadata, but does not copy the
        wrapped function's __dict__ (so none of the library's attributes travel up)"""

        def __init__(self, fn, g):
            self.__wrapped__ = fn
            self.g = g
            for a_ in ("__name__", "__qualname__", "__doc__", "__module__", "__annotations__"):
                try:
                    setattr(self, a_, getattr(fn, a_))
                except AttributeError:
                    pass

        def __call__(self, *a, **k):
            log.append(["foreign", self.g])
            return self.__wrapped__(*a, **k)

    def mk_foreign(g):
        if case.get("foreignKind") == "object" and not case["async"]:
            return lambda fn: ForeignObject(fn, g)

        def deco(fn):
            if inspect.iscoroutinefunction(fn):
                @functools.wraps(fn)
                async def w(*a, **k):
                    log.append(["foreign", g])
                    return await fn(*a, **k)
            else:
                @functools.wraps(fn)
                def w(*a, **k):
                    log.append(["foreign", g])
                    return fn(*a, **k)
            return w
        return deco

    marker = object()
    if case["async"]:
        async def f(x, y=2):
            """doc of f"""
            log.append(["body"])
            return marker
    else:
        def f(x: int, y: int = 2) -> object:
            """doc of f"""
            log.append(["body"])
            return marker
    bare = f
    cur = f
    objs = [f]
    err = None
    cid = 0
    try:
        for i, d in enumerate(case["decos"]):
            if d == "foreign":
                cur = mk_foreign(i)(cur)
            elif d == "require":
                cid += 1
                cur = icontract.require((lambda c: (lambda x: log.append(["cond", c]) or True))(cid))(cur)
            elif d == "ensure":
                cid += 1
                cur = icontract.ensure((lambda c: (lambda result: log.append(["cond", c]) or True))(cid))(cur)
            elif d == "snapshot":
                cid += 1
                cur = icontract.snapshot((lambda c: (lambda x: log.append(["cap", c]) or x))(cid), name="s%d" % cid)(cur)
            objs.append(cur)
    except BaseException as e:  # noqa: B902
        err = [type(e).__name__, str(e)[:80]]
    out = {"define_err": err}
    if err is not None:
        return out
    del log[:]
    try:
        r = cur(1)
        if case["async"]:
            try:
                r.send(None)
            except StopIteration as e:
                r = e.value
        out["result_is_bodys"] = r is marker
        out["call_err"] = None
    except BaseException as e:  # noqa: B902
        out["call_err"] = [type(e).__name__, str(e)[:80]]
    out["log"] = list(log)
    # chain facts
    chain = []
    o = cur
    while True:
        chain.append(o)
        if not hasattr(o, "__wrapped__"):
            break
        o = o.__wrapped__
    out["reaches_bare"] = chain[-1] is bare
    ck = _ck.find_checker(cur)
    out["has_checker"] = ck is not None
    if ck is not None:
        out["npre"] = sum(len(g) for g in ck.__preconditions__)
        out["npost"] = len(ck.__postconditions__)
        out["nsnap"] = len(ck.__postcondition_snapshots__)
    meta = {}
    for a in ("__name__", "__qualname__", "__doc__", "__module__"):
        meta[a] = getattr(cur, a, None) == getattr(bare, a, None)
    meta["__annotations__"] = getattr(cur, "__annotations__", None) == getattr(bare, "__annotations__", None)
    meta["signature"] = str(inspect.signature(cur)) == str(inspect.signature(bare))
    meta["iscoroutinefunction"] = inspect.iscoroutinefunction(cur) == inspect.iscoroutinefunction(bare)
    out["meta"] = meta
    return out


CLASS_SRC = {
    # name -> (source of the class body pieces, constructor args)
}


def build_class(spec, decorated):
    """spec: {"init": none|"plain"|"args", "new": bool, "slots": bool, "dbc": bool, "receiver": "self"|"this",
    "abstract": bool, "sub": none|"init_args"|"plain"|"no_init", "namedtuple": bool}"""
    ns = {"icontract": icontract, "abc": abc}
    lines = []
    base = "icontract.DBC" if (spec["dbc"] and decorated) else ("abc.ABC" if spec["abstract"] else "object")
    r = spec["receiver"]
    if decorated:
        lines.append("@icontract.invariant(lambda self: True)")
    lines.append("class K(%s):" % base)
    if spec["slots"]:
        lines.append("    __slots__ = ('a',)")
    if spec["new"]:
        lines.append("    def __new__(cls, *args, **kwargs):\n        o = super().__new__(cls)\n        return o")
    if spec["init"] == "plain":
        lines.append("    def __init__(%s):\n        %s.a = 1" % (r, r))
    elif spec["init"] == "args":
        lines.append("    def __init__(%s, a, b=2):\n        %s.a = a" % (r, r))
    lines.append("    def m(%s, x=1):\n        return x + 1" % r)
    lines.append("    m.custom_attribute = 'kept'")
    lines.append("    @property\n    def p(%s):\n        return 5" % r)
    # public operations that use other public operations of the same object (sync and async)
    lines.append("    def chain(%s):\n        return %s.m(2) + %s.p" % (r, r, r))
    lines.append("    async def co2(%s):\n        return 10" % r)
    lines.append("    async def co1(%s):\n        return (await %s.co2()) + 1" % (r, r))
    if spec["abstract"]:
        lines.append("    @abc.abstractmethod\n    def am(%s):\n        raise NotImplementedError()" % r)
    sub = spec["sub"]
    if sub:
        lines.append("class S(K):")
        if spec["slots"]:
            lines.append("    __slots__ = ('b',)")
        if sub == "init_args":
            lines.append("    def __init__(self, q, w=3):\n        super().__init__(%s)\n        self.b = q" % ("q" if spec["init"] == "args" else ""))
        elif sub == "plain":
            lines.append("    def __init__(self):\n        super().__init__(%s)\n        self.b = 0" % ("7" if spec["init"] == "args" else ""))
        else:
            lines.append("    pass")
        if spec["abstract"] and not spec.get("sub_leaves_abstract"):
            lines.append("    def am(self):\n        return 1")
        lines.append("    def extra(self):\n        return 2")
    src = "\n".join(lines) + "\n"
    exec(compile(src, "<c14>", "exec"), ns)
    return ns, src


def _try(fn):
    try:
        return ["ok", fn()]
    except BaseException as e:  # noqa: B902
        return ["raise", type(e).__name__]


def _run_co(co):
    try:
        co.send(None)
    except StopIteration as e:
        return e.value
    co.close()
    return "suspended"


def probe_class(ns, spec):
    K = ns["K"]
    out = {}
    args = (7,) if spec["init"] == "args" else ()
    out["isabstract_K"] = inspect.isabstract(K)
    out["abstractmethods_K"] = sorted(getattr(K, "__abstractmethods__", ()))
    out["K()"] = _try(lambda: (lambda o: [o.m(), o.m(x=4), o.p, isinstance(o, K), type(o).__name__, o.chain(), _run_co(o.co1()),
                                            inspect.iscoroutinefunction(type(o).co1)])(K(*args)))
    out["K(bad)"] = _try(lambda: K(1, 2, 3, 4) and None)
    if "S" in ns:
        S = ns["S"]
        sargs = {"init_args": (9,), "plain": (), "no_init": args}[spec["sub"]]
        out["S()"] = _try(lambda: (lambda o: [o.m(), o.p, o.extra(), isinstance(o, K), type(o).__name__])(S(*sargs)))
        out["S(kw)"] = _try(lambda: S(q=9).b) if spec["sub"] == "init_args" else None
        out["isabstract_S"] = inspect.isabstract(S)
    out["name"] = [K.__name__, K.__qualname__, K.__module__]
    out["custom_attribute"] = getattr(inspect.getattr_static(K, "m"), "custom_attribute", None)
    out["isabstractmethod_flags"] = [getattr(inspect.getattr_static(K, n, None), "__isabstractmethod__", False) for n in ("am", "m")]
    return out


def run_diamond(spec):
    """a diamond with cooperative constructors: Base <- Plain (no own constructor), Base <- Mixin (cooperative __init__),
    Joined(Plain, Mixin), Leaf(Joined) - bare twin vs twin with always-true invariants"""
    def build(decorated):
        ns = {"icontract": icontract, "TRACE": []}
        lines = []
        base = "icontract.DBC" if (spec["dbc"] and decorated) else "object"
        if decorated:
            lines.append("@icontract.invariant(lambda self: True)")
        lines.append("class Base(%s):" % base)
        lines.append("    def __init__(self, *a, **k):\n        TRACE.append('Base')\n        self.a = 1")
        lines.append("    def m(self):\n        return self.a")
        if decorated and spec["redecorate"]:
            lines.append("@icontract.invariant(lambda self: True)")
        lines.append("class Plain(Base):")
        lines.append("    def p(self):\n        return 2")
        lines.append("class Mixin(Base):")
        lines.append("    def __init__(self, *a, **k):\n        TRACE.append('Mixin')\n        super().__init__(*a, **k)\n        self.tag = 7")
        if decorated and spec.get("decorate_joined"):
            lines.append("@icontract.invariant(lambda self: True)")
        lines.append("class Joined(Plain, Mixin):")
        lines.append("    pass")
        lines.append("class Leaf(Joined):")
        lines.append("    def extra(self):\n        return 3")
        exec(compile("\n".join(lines) + "\n", "<c14diamond>", "exec"), ns)
        out = {}
        for name in ("Base", "Plain", "Mixin", "Joined", "Leaf"):
            del ns["TRACE"][:]
            cls = ns[name]
            def probe():
                o = cls(*spec.get("args", []))
                return [getattr(o, "a", None), getattr(o, "tag", None), type(o).__name__, o.m(), list(ns["TRACE"]),
                        [c.__name__ for c in type(o).__mro__ if c.__name__ in ('Base', 'Plain', 'Mixin', 'Joined', 'Leaf')]]
            out[name] = _try(probe)
        return out
    try:
        plain = build(False)
    except BaseException as e:  # noqa: B902
        return {"skip": "plain twin cannot be defined: %s" % e}
    try:
        dec = build(True)
    except BaseException as e:  # noqa: B902
        return {"plain": plain, "decorated": {"define": ["raise", type(e).__name__, str(e)[:100]]}, "same_class": True}
    return {"plain": plain, "decorated": dec, "same_class": True}


def run_class(spec):
    try:
        ns_plain, src_p = build_class(spec, False)
    except BaseException as e:  # noqa: B902
        return {"skip": "plain twin cannot be defined: %s" % e}
    plain = probe_class(ns_plain, spec)
    try:
        ns_dec, src_d = build_class(spec, True)
    except BaseException as e:  # noqa: B902
        return {"plain": plain, "decorated": {"define": ["raise", type(e).__name__, str(e)[:100]]}, "same_class": None, "src": src_p}
    dec = probe_class(ns_dec, spec)
    # invariant(...) returns the very class object
    K2 = ns_dec["K"]
    again = icontract.invariant(lambda self: True)(K2)
    return {"plain": plain, "decorated": dec, "same_class": again is K2}
