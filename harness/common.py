"""Shared infrastructure of the correspondence harness.

* locating / building the Lean project and the driver,
* the proof-obligation gate (lake build, axiom audit, forbidden-token grep),
* running batches of cases through the Lean driver,
* evidence files, replay files, known findings, verdict bookkeeping.
"""
import fcntl
import hashlib
import json
import os
import random
import re
import subprocess
import sys
import time

VERIF = os.path.dirname(os.path.dirname(os.path.abspath(__file__)))
LEAN_DIR = os.environ.get("VERIF_LEAN_DIR") or os.path.join(VERIF, "lean")      # (override: developer use only)
BUILD_DIR = os.path.join(VERIF, "build")
EVIDENCE_DIR = os.environ.get("VERIF_EVIDENCE_DIR") or os.path.join(VERIF, "evidence")
REPLAY_DIR = os.path.join(VERIF, "replays")
CORPUS_DIR = os.path.join(VERIF, "corpus")
KNOWN_FINDINGS = os.path.join(VERIF, "known_findings.json")
REPO = os.environ.get("VERIF_REPO", "/repo")

ALLOWED_AXIOMS = {"propext", "Classical.choice", "Quot.sound"}
FORBIDDEN = re.compile(
    r"\bsorry\b|\badmit\b|^\s*axiom\s|native_decide|bv_decide|implemented_by|\bunsafe\s|maxHeartbeats\s+0"
)

TRUSTED_BASE = [
    "Lean 4.33 kernel (lake build; leanchecker in the thorough tier)",
    "axioms propext, Classical.choice, Quot.sound only (audited per theorem by Audit.lean; no native_decide, no bv_decide, no axioms of ours)",
    "the hand-written Lean model; its tie to /repo is the differential correspondence run by this harness on every run",
    "the Python harness (generators, instrumentation, canonicalisation), CPython 3.12 in /venv, the Lean compiler running the driver",
]


class Infra(Exception):
    """An infrastructure failure (exit code 2, never a verdict)."""


def seed_from_env() -> int:
    try:
        return int(os.environ.get("VERIF_SEED", "0"))
    except ValueError:
        return 0


def rng_for(prop: str, seed: int) -> random.Random:
    h = hashlib.sha256(("%s/%d" % (prop, seed)).encode()).digest()
    return random.Random(int.from_bytes(h[:8], "big"))


def _run(cmd, cwd=None, timeout=1800, input_=None):
    return subprocess.run(
        cmd, cwd=cwd, stdout=subprocess.PIPE, stderr=subprocess.STDOUT, timeout=timeout, input=input_
    )


# --------------------------------------------------------------------------
# proof obligations


def lean_sources():
    out = []
    for root, _dirs, files in os.walk(LEAN_DIR):
        if ".lake" in root:
            continue
        for f in files:
            if f.endswith(".lean"):
                out.append(os.path.join(root, f))
    return sorted(out)


def strip_comments(text: str) -> str:
    # block comments (non-nested is enough for our sources, nested handled iteratively)
    prev = None
    while prev != text:
        prev = text
        text = re.sub(r"/-(?:(?!/-|-/).)*?-/", "", text, flags=re.S)
    text = re.sub(r"--.*", "", text)
    return text


def grep_forbidden():
    hits = []
    for path in lean_sources():
        with open(path) as fh:
            body = strip_comments(fh.read())
        for i, line in enumerate(body.splitlines(), 1):
            if FORBIDDEN.search(line):
                hits.append("%s: %s" % (os.path.relpath(path, VERIF), line.strip()))
    return hits


def build_lean(force_audit=False):
    """`lake build` (library + driver) under a file lock, then the axiom audit.

    Returns dict(ok, log, audit) where audit maps theorem name -> list of axioms.
    """
    os.makedirs(BUILD_DIR, exist_ok=True)
    lock = open(os.path.join(BUILD_DIR, ".lock"), "w")
    fcntl.flock(lock, fcntl.LOCK_EX)
    try:
        t0 = time.time()
        p = _run(["lake", "build", "IcontractModel", "driver"], cwd=LEAN_DIR, timeout=3000)
        log = p.stdout.decode(errors="replace")
        if p.returncode != 0:
            return {"ok": False, "log": log, "audit": {}, "wall": time.time() - t0}
        audit_txt = os.path.join(BUILD_DIR, "audit.txt")
        stamp = _sources_stamp()
        stamp_file = os.path.join(BUILD_DIR, "audit.stamp")
        need = force_audit or not os.path.exists(audit_txt) or not os.path.exists(stamp_file)
        if not need:
            with open(stamp_file) as fh:
                need = fh.read().strip() != stamp
        if need:
            audit_src = os.path.join(BUILD_DIR, "Audit.lean")
            with open(audit_src, "w") as fh:
                fh.write(audit_source())
            p = _run(["lake", "env", "lean", audit_src], cwd=LEAN_DIR, timeout=3000)
            txt = p.stdout.decode(errors="replace")
            if p.returncode != 0:
                return {"ok": False, "log": log + "\nAUDIT FAILED\n" + txt, "audit": {}, "wall": time.time() - t0}
            with open(audit_txt, "w") as fh:
                fh.write(txt)
            with open(stamp_file, "w") as fh:
                fh.write(stamp)
        with open(audit_txt) as fh:
            audit = parse_audit(fh.read())
        return {"ok": True, "log": log, "audit": audit, "wall": time.time() - t0}
    finally:
        fcntl.flock(lock, fcntl.LOCK_UN)
        lock.close()


def all_property_theorems():
    d = os.path.join(LEAN_DIR, "IcontractModel", "Props")
    out = []
    for f in sorted(os.listdir(d)):
        if f.endswith(".lean"):
            out.extend(theorems_of(f[:-5]))
    return out


def audit_source() -> str:
    """`#print axioms` for every theorem stated under Props/ (regenerated on every build)."""
    lines = ["import IcontractModel"]
    for n in all_property_theorems():
        lines.append("#print axioms %s" % n)
    return "\n".join(lines) + "\n"


def _sources_stamp() -> str:
    h = hashlib.sha256()
    for path in lean_sources():
        h.update(path.encode())
        with open(path, "rb") as fh:
            h.update(fh.read())
    return h.hexdigest()


def parse_audit(txt: str):
    """Parse the output of `#print axioms` commands."""
    audit = {}
    # "'Icontract.C01_safe' depends on axioms: [propext, Quot.sound]" (possibly wrapped)
    txt = re.sub(r"\n\s+", " ", txt)
    for m in re.finditer(r"'([^']+)' depends on axioms: \[([^\]]*)\]", txt):
        audit[m.group(1)] = [a.strip() for a in m.group(2).split(",") if a.strip()]
    for m in re.finditer(r"'([^']+)' does not depend on any axioms", txt):
        audit[m.group(1)] = []
    return audit


def theorems_of(prop: str):
    """Fully qualified names of the theorems stated in lean/IcontractModel/Props/<prop>.lean
    (namespaces are tracked; `private` helper declarations are skipped)."""
    path = os.path.join(LEAN_DIR, "IcontractModel", "Props", prop + ".lean")
    if not os.path.exists(path):
        return []
    with open(path) as fh:
        body = strip_comments(fh.read())
    out = []
    ns = []
    for line in body.splitlines():
        m = re.match(r"^\s*namespace\s+([A-Za-z0-9_.]+)", line)
        if m:
            ns.append(m.group(1))
            continue
        m = re.match(r"^\s*end\s+([A-Za-z0-9_.]+)", line)
        if m and ns and ns[-1] == m.group(1):
            ns.pop()
            continue
        m = re.match(r"^\s*theorem\s+([A-Za-z0-9_'.]+)", line)
        if m:
            out.append(".".join(ns + [m.group(1)]))
    return out


def proof_gate(prop: str, thorough: bool):
    """Proof obligations for `prop`: build, audit, grep. Returns (ok, info)."""
    info = {"theorems": [], "problems": []}
    b = build_lean()
    info["build_wall_s"] = round(b["wall"], 2)
    if not b["ok"]:
        info["problems"].append("lake build failed:\n" + b["log"][-4000:])
        return False, info
    hits = grep_forbidden()
    if hits:
        info["problems"].append("forbidden tokens in Lean sources: " + "; ".join(hits[:10]))
    names = theorems_of(prop)
    for n in names:
        full = n
        ax = b["audit"].get(full)
        if ax is None:
            info["problems"].append("theorem %s not found in audit output" % full)
            continue
        bad = [a for a in ax if a not in ALLOWED_AXIOMS]
        if bad:
            info["problems"].append("theorem %s depends on %s" % (full, bad))
        info["theorems"].append({"name": full, "axioms": ax})
    if not names:
        info["problems"].append("no theorems found for %s" % prop)
    if thorough and not info["problems"]:
        mods = ["IcontractModel.Props." + prop]
        p = _run(["lake", "env", "leanchecker"] + mods, cwd=LEAN_DIR, timeout=3000)
        info["leanchecker"] = p.returncode
        if p.returncode != 0:
            info["problems"].append("leanchecker failed: " + p.stdout.decode(errors="replace")[-2000:])
    return not info["problems"], info


# --------------------------------------------------------------------------
# driver


def driver_cmd():
    exe = os.path.join(LEAN_DIR, ".lake", "build", "bin", "driver")
    if os.path.exists(exe):
        return [exe]
    return ["lake", "env", "lean", "--run", "Driver.lean"]


def run_driver(cases, timeout=1800):
    """Pipe the cases (dicts) through the Lean driver; returns list of dicts."""
    if not cases:
        return []
    data = "\n".join(json.dumps(c, separators=(",", ":")) for c in cases) + "\n"
    p = subprocess.run(
        driver_cmd(), cwd=LEAN_DIR, input=data.encode(), stdout=subprocess.PIPE, stderr=subprocess.PIPE, timeout=timeout
    )
    if p.returncode != 0:
        raise Infra("driver failed: " + p.stderr.decode(errors="replace")[-2000:])
    lines = [l for l in p.stdout.decode().splitlines() if l.strip()]
    if len(lines) != len(cases):
        raise Infra("driver returned %d lines for %d cases" % (len(lines), len(cases)))
    return [json.loads(l) for l in lines]


# --------------------------------------------------------------------------
# evidence / replays / known findings


def write_evidence(prop, tier, seed, coverage, wall_s, violations, assumptions=None):
    os.makedirs(EVIDENCE_DIR, exist_ok=True)
    ev = {
        "property_id": prop,
        "tier": tier,
        "seed": seed,
        "level": "proof",
        "coverage": coverage,
        "assumptions": assumptions or [],
        "wall_s": round(wall_s, 2),
        "violations": violations,
    }
    path = os.path.join(EVIDENCE_DIR, prop + ".json")
    with open(path, "w") as fh:
        json.dump(ev, fh, indent=1, sort_keys=True, default=str)
    return path


def write_replay(prop, payload) -> str:
    d = os.path.join(REPLAY_DIR, prop)
    os.makedirs(d, exist_ok=True)
    blob = json.dumps(payload, sort_keys=True, default=str)
    name = hashlib.sha256(blob.encode()).hexdigest()[:16] + ".json"
    path = os.path.join(d, name)
    with open(path, "w") as fh:
        json.dump(payload, fh, indent=1, sort_keys=True, default=str)
    return path


def load_known_findings(prop):
    if not os.path.exists(KNOWN_FINDINGS):
        return []
    with open(KNOWN_FINDINGS) as fh:
        data = json.load(fh)
    return [e for e in data.get("findings", []) if e.get("property") == prop and e.get("status") == "known"]


def load_corpus(prop):
    d = os.path.join(CORPUS_DIR, prop)
    out = []
    if os.path.isdir(d):
        for f in sorted(os.listdir(d)):
            if f.endswith(".json"):
                with open(os.path.join(d, f)) as fh:
                    out.append((f, json.load(fh)))
    return out


def assert_repo_import():
    """Make sure `icontract` is imported from the repository's working tree."""
    if REPO not in sys.path:
        sys.path.insert(0, REPO)
    import icontract  # noqa

    f = os.path.realpath(icontract.__file__)
    if not f.startswith(os.path.realpath(REPO) + os.sep):
        raise Infra("icontract imported from %s, not from %s" % (f, REPO))
    return icontract
