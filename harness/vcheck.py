#!/venv/bin/python
"""Entry point of the checks registered in MANIFEST.json.

  vcheck.py --property Cxx --tier quick|thorough
  vcheck.py --property Cxx --replay <path>

Exit 0: the property held on everything explored.  Exit 1: a violation
(`VIOLATION property=<id> replay=<path>` on stdout).  Exit 2: infrastructure.
Verdict logic: DESIGN.md section 6.
"""
import argparse
import importlib
import json
import os
import sys
import time
import traceback

HERE = os.path.dirname(os.path.abspath(__file__))
sys.path.insert(0, HERE)

import common  # noqa: E402


def load_property(pid):
    return importlib.import_module("props." + pid)


def main():
    ap = argparse.ArgumentParser()
    ap.add_argument("--property", required=True)
    ap.add_argument("--tier", default=os.environ.get("VERIF_TIER", "quick"), choices=["quick", "thorough"])
    ap.add_argument("--replay")
    ap.add_argument("--no-build", action="store_true", help="developer flag: skip the proof gate")
    a = ap.parse_args()
    pid = a.property
    seed = common.seed_from_env()
    try:
        P = load_property(pid)
        import engine

        if a.replay:
            code = engine.replay(P, pid, a.replay)
        else:
            code = engine.run(P, pid, a.tier, seed, skip_gate=a.no_build)
    except common.Infra as e:
        print("INFRA: %s" % e)
        sys.exit(2)
    except (ImportError, AttributeError) as e:
        import engine
        lost = engine.hook_lost(e)
        if not lost:
            traceback.print_exc()
            print("INFRA: harness crashed")
            sys.exit(2)
        # an internal name of the library which the materialisers are built on is gone: the implementation side of the
        # correspondence cannot even be loaded.  No input can be searched for: the property is no longer shown to hold.
        path = os.path.join(common.VERIF, "replays", pid, "correspondence_lost.json")
        os.makedirs(os.path.dirname(path), exist_ok=True)
        with open(path, "w") as fh:
            json.dump({"property": pid, "correspondence": "the materialisers of harness/props/%s.py cannot be loaded: %s" % (pid, lost),
                       "traceback": traceback.format_exc()[-2000:]}, fh, indent=1)
        print("VIOLATION property=%s replay=%s no-failing-input-found" % (pid, path))
        sys.exit(1)
    except Exception:  # noqa: B902
        traceback.print_exc()
        print("INFRA: harness crashed")
        sys.exit(2)
    sys.exit(code)


if __name__ == "__main__":
    main()
