#!/venv/bin/python
"""Entry point of the checks registered in MANIFEST.json.

  vcheck.py --property Cxx --tier quick|thorough
  vcheck.py --property Cxx --replay <path>

Exit 0: the property held on everything explored.  Exit 1: a violation
(`VIOLATION property=<id> replay=<path>` on stdout).  Exit 2: infrastructure.
Verdict logic: DESIGN.md section 6.
"""
import argparse
import importlib
import json
import os
import sys
import time
import traceback

HERE = os.path.dirname(os.path.abspath(__file__))
sys.path.insert(0, HERE)

import common  # noqa: E402


def load_property(pid):
    return importlib.import_module("props." + pid)


def main():
    ap = argparse.ArgumentParser()
    ap.add_argument("--property", required=True)
    ap.add_argument("--tier", default=os.environ.get("VERIF_TIER", "quick"), choices=["quick", "thorough"])
    ap.add_argument("--replay")
    ap.add_argument("--no-build", action="store_true", help="developer flag: skip the proof gate")
    a = ap.parse_args()
    pid = a.property
    seed = common.seed_from_env()
    try:
        P = load_property(pid)
        import engine

        if a.replay:
            code = engine.replay(P, pid, a.replay)
        else:
            code = engine.run(P, pid, a.tier, seed, skip_gate=a.no_build)
    except common.Infra as e:
        print("INFRA: %s" % e)
        sys.exit(2)
    except Exception:  # noqa: B902
        traceback.print_exc()
        print("INFRA: harness crashed")
        sys.exit(2)
    sys.exit(code)


if __name__ == "__main__":
    main()
