#!/venv/bin/python
"""Developer tool (not a registered check): apply a seeded change to /repo, confirm the
baseline suite still passes and the demonstration fails, run the given quick checks,
report which ones raise a VIOLATION, and undo the change.

  seedtest.py <patch.diff> <demo.py|-> <property> [<property> ...]
"""
import os
import subprocess
import sys

REPO = os.environ.get("VERIF_REPO", "/repo")     # (seedall.py runs several of these in parallel on scratch worktrees)
VERIF = os.path.dirname(os.path.dirname(os.path.abspath(__file__)))


def sh(cmd, **kw):
    return subprocess.run(cmd, stdout=subprocess.PIPE, stderr=subprocess.STDOUT, **kw)


def demo(path):
    if path == "-":
        return None
    p = sh(["/venv/bin/python", os.path.abspath(path)], cwd=REPO, env=dict(os.environ, PYTHONPATH=REPO))
    return p.returncode


def main():
    patch, demo_path, props = sys.argv[1], sys.argv[2], sys.argv[3:]
    st = sh(["git", "-C", REPO, "status", "--porcelain", "--untracked-files=no"]).stdout.decode().strip()
    if st:
        print("refusing: /repo has uncommitted changes:\n" + st)
        return 2
    res = {"patch": patch}
    res["demo_clean"] = demo(demo_path)
    a = sh(["git", "-C", REPO, "apply", os.path.abspath(patch)])
    if a.returncode != 0:
        print("patch does not apply:", a.stdout.decode())
        return 2
    try:
        res["demo_patched"] = demo(demo_path)
        if not os.environ.get("VERIF_SKIP_BASELINE"):      # (developer shortcut for re-runs of already confirmed changes)
            b = sh([os.path.join(VERIF, "harness", "baseline.sh")])
            res["baseline"] = b.stdout.decode().strip().splitlines()[0] if b.stdout else "?"
            res["baseline_rc"] = b.returncode
        for p in props:
            env = dict(os.environ, VERIF_EVIDENCE_DIR=os.environ.get("VERIF_SEEDTEST_EVIDENCE", "/tmp/seedtest_evidence"))
            extra = ["--no-build"] if os.environ.get("VERIF_NO_BUILD") else []      # (developer shortcut while proofs are being reworked)
            r = sh(["/venv/bin/python", os.path.join(VERIF, "harness", "vcheck.py"), "--property", p, "--tier", "quick"] + extra, cwd=VERIF, env=env)
            out = r.stdout.decode()
            vio = [l for l in out.splitlines() if l.startswith("VIOLATION") or l.startswith("KNOWN-FINDING") or l.startswith("INFRA")]
            res[p] = {"rc": r.returncode, "lines": vio, "tail": out.strip().splitlines()[-1] if out.strip() else ""}
    finally:
        sh(["git", "-C", REPO, "checkout", "--", "."])
    for k, v in res.items():
        print(k, "=", v)
    return 0


if __name__ == "__main__":
    sys.exit(main())
