"""Generic run of one property: proof gate, corpus, correspondence + direct oracle,
decision, evidence (DESIGN.md section 6)."""
import collections
import importlib
import json
import multiprocessing
import os
import sys
import time

import common

_P = None


def _init(pid):
    global _P
    import importlib

    _P = importlib.import_module("props." + pid)


def hook_lost(e):
    """The harness reaches a few INTERNAL names of the library (find_checker, the re-computation visitor, inspect_decorator,
    ...).  When one of them is gone - renamed or moved by a rewrite that may be perfectly harmless - the implementation side
    of the correspondence cannot run: that is a correspondence which no longer checks, not an observation about behaviour."""
    msg = str(e)
    if isinstance(e, (AttributeError, ImportError)):
        if "module 'icontract" in msg or "from 'icontract" in msg or "No module named 'icontract" in msg:
            return msg
    if isinstance(e, TypeError):
        # an internal function which the harness itself calls got another signature
        import re
        m = re.match(r"(?:\w+\.)*(\w+)\(\) (?:got an unexpected keyword|got multiple values|missing \d+ required|takes )", msg)
        if m and m.group(1) in HOOKS:
            return msg
    return None


HOOKS = {"find_checker", "select_condition_kwargs", "select_capture_kwargs", "generate_message", "_register_for_hypothesis",
         "inspect_decorator", "decorate_with_checker", "add_precondition_to_checker", "add_postcondition_to_checker",
         "add_snapshot_to_checker", "Visitor", "Old"}


def _run_impl_guarded(P, case):
    try:
        return P.run_impl(case)
    except common.Infra as e:
        return {"infra": str(e)}
    except BaseException as e:  # noqa: B902
        if hook_lost(e):
            return {"hook_lost": hook_lost(e)}
        # the materialisers run to their end on the unchanged tree (every check runs them on every run): an exception
        # escaping from one - typically raised by the library while a well-formed program is DEFINED - is an observation
        # about the implementation, not an infrastructure problem
        import traceback

        return {"crash": "%r" % (e,), "traceback": traceback.format_exc()[-1500:]}


def _work(case):
    return _run_impl_guarded(_P, case)


def impl_batch(P, pid, cases, workers):
    if getattr(P, 'WORKERS', None) == 1 or workers <= 1 or len(cases) < 200:
        return [_run_impl_guarded(P, c) for c in cases]
    ctx = multiprocessing.get_context("fork")
    with ctx.Pool(workers, initializer=_init, initargs=(pid,)) as pool:
        return pool.map(_work, cases, chunksize=max(1, len(cases) // (workers * 8)))


def _run_directed(P, case):
    try:
        return P.run_directed(case)
    except common.Infra:
        raise
    except BaseException as e:  # noqa: B902
        if hook_lost(e):
            return {"fails": [], "hook_lost": hook_lost(e)}
        # the scenarios are deterministic programs that run to their end on the unchanged tree (they are run on every
        # check): one that is cut short by an exception of the library is a failed scenario, not an infrastructure problem
        import traceback
        return {"fails": ["the scenario did not run to its end: %r" % (e,)], "traceback": traceback.format_exc()[-1500:]}


def evaluate(P, pid, tagged_cases, workers, acc):
    """Run model + implementation on the cases. Returns (violations, tie_breaks)."""
    # directed scenarios: hand-written programs run on the implementation only, judged directly against the property's
    # statement (no model counterpart: they cover shapes the executable models do not express)
    directed = [(t, c) for t, c in tagged_cases if isinstance(c, dict) and c.get("dom") == "directed"]
    tagged_cases = [(t, c) for t, c in tagged_cases if not (isinstance(c, dict) and c.get("dom") == "directed")]
    dviol, dties = [], []
    for tag, case in directed:
        res = _run_directed(P, case)
        acc["evaluations"] += 1
        acc["by_tag"][tag] += 1
        acc["keys"].add(("directed", case.get("name"), repr(sorted((k, repr(v)) for k, v in case.items()))))
        acc["dist"]["directed:" + str(case.get("name"))] += 1
        if res.get("hook_lost"):
            dties.append({"tag": tag, "case": case, "impl": "the harness's hook into the library is gone: " + res["hook_lost"], "model": "scenario not run"})
        if res.get("fails"):
            dviol.append({"tag": tag, "case": case, "fails": res["fails"], "cls": res.get("cls", "unclassified"), "impl": res,
                          "model": None, "tie_ok": True})
    if not tagged_cases:
        return dviol, dties
    v_, t_ = _evaluate_modelled(P, pid, tagged_cases, workers, acc)
    return dviol + v_, dties + t_


def _evaluate_modelled(P, pid, tagged_cases, workers, acc):
    cases = [c for _t, c in tagged_cases]
    expand = getattr(P, "driver_inputs", None)
    flat, spans = [], []
    for c in cases:
        xs = expand(c) if expand else [c]
        spans.append((len(flat), len(xs)))
        flat.extend(xs)
    fmos = []
    B = 20000
    for i in range(0, len(flat), B):
        fmos.extend(common.run_driver(flat[i:i + B]))
    for m in fmos:
        if "error" in m:
            raise common.Infra("driver rejected a case: %s" % m["error"])
    mos = [fmos[a:a + n] if expand else fmos[a] for a, n in spans]
    ios = impl_batch(P, pid, cases, workers)
    violations, tie_breaks = [], []
    for (tag, case), mo, io in zip(tagged_cases, mos, ios):
        if "infra" in io:
            raise common.Infra(io["infra"])
        acc["evaluations"] += 1
        acc["by_tag"][tag] += 1
        if "hook_lost" in io:
            tie_breaks.append({"tag": tag, "case": case, "impl": "the harness's hook into the library is gone: " + io["hook_lost"], "model": "not compared"})
            continue
        if "crash" in io:
            violations.append({"tag": tag, "case": case, "fails": ["running the case on the implementation did not complete: %s" % io["crash"]],
                               "cls": "unclassified", "impl": io, "model": mo, "tie_ok": False})
            continue
        key = P.nontrivial_key(case, mo)
        if key is not None:
            acc["keys"].add(key)
        P.stats(case, mo, io, acc["dist"])
        if len(acc["samples"]) < 3 and key is not None and acc["evaluations"] % 97 == 1:
            acc["samples"].append({"case": case, "model": P.project(case, P.model_view(case, mo)),
                                   "impl": P.project(case, io)})
        fails = P.spec(case, mo, io)
        if fails:
            try:
                tie_ok = P.project(case, io) == P.project(case, P.model_view(case, mo))
            except Exception:  # noqa: B902
                tie_ok = False
            violations.append({"tag": tag, "case": case, "fails": fails, "cls": P.classify(case, mo, io, fails),
                               "impl": io, "model": mo, "tie_ok": tie_ok})
            continue
        pi, pm = P.project(case, io), P.project(case, P.model_view(case, mo))
        acc["validated"] += 1
        if pi != pm:
            tie_breaks.append({"tag": tag, "case": case, "impl": pi, "model": pm})
    return violations, tie_breaks


def _new_acc():
    return {"evaluations": 0, "validated": 0, "keys": set(), "by_tag": collections.Counter(),
            "dist": collections.Counter(), "samples": []}


def still_fails(P, case):
    if isinstance(case, dict) and case.get("dom") == "directed":
        res = _run_directed(P, case)
        if res.get("fails"):
            return {"case": case, "fails": res["fails"], "cls": res.get("cls", "unclassified"), "impl": res, "model": None}
        return None
    expand = getattr(P, "driver_inputs", None)
    mos = common.run_driver(expand(case) if expand else [case])
    if any("error" in m for m in mos):
        return None
    mo = mos if expand else mos[0]
    io = _run_impl_guarded(P, case)
    if "infra" in io:
        return None
    if "hook_lost" in io:
        return None
    if "crash" in io:
        return {"case": case, "fails": ["running the case on the implementation did not complete: %s" % io["crash"]], "cls": "unclassified",
                "impl": io, "model": mo}
    fails = P.spec(case, mo, io)
    if fails:
        return {"case": case, "fails": fails, "cls": P.classify(case, mo, io, fails), "impl": io, "model": mo}
    return None


def shrink(P, v, budget=150):
    """Greedy shrinking: keep any smaller case that still violates the property with the same class."""
    cand_fn = getattr(P, "shrink_candidates", None)
    if cand_fn is None:
        return v
    cur = v
    improved = True
    while improved and budget > 0:
        improved = False
        for cand in cand_fn(cur["case"]):
            budget -= 1
            if budget <= 0:
                break
            try:
                r = still_fails(P, cand)
            except Exception:  # noqa: B902
                r = None
            if r is not None and r["cls"] == cur["cls"]:
                r["tag"] = cur.get("tag")
                cur = r
                improved = True
                break
    return cur


def _listed(cls, known):
    """a violation showing several listed findings at once (class `a+b`) is listed when every one of them is"""
    return bool(cls) and all(part in known for part in cls.split("+"))


def run(P, pid, tier, seed, skip_gate=False):
    t0 = time.time()
    thorough = tier == "thorough"
    rng = common.rng_for(pid, seed)
    workers = min(16, os.cpu_count() or 4) if thorough else min(8, os.cpu_count() or 4)

    gate_ok, gate = (True, {"theorems": [], "problems": ["gate skipped"]}) if skip_gate else common.proof_gate(pid, thorough)

    known = common.load_known_findings(pid)
    known_classes = dict((k["class"], k) for k in known)

    acc = _new_acc()
    tagged = [("corpus:" + name, c["case"] if "case" in c else c) for name, c in common.load_corpus(pid)]
    tagged += list(P.cases(tier, rng))
    exhaustive = bool(getattr(P, "EXHAUSTIVE_STREAM", False))

    violations, tie_breaks = evaluate(P, pid, tagged, workers, acc)
    extra = getattr(P, "extra_checks", None)
    extra_info = None
    if extra is not None:
        extra_info = extra(tier, rng)
        for f in extra_info.get("failures", []):
            violations.append(f)
        acc["evaluations"] += extra_info.get("evaluations", 0)

    # neighbour streams: a sample of the cases of related properties, run with the neighbour's model tie and judged by the
    # neighbour's oracle (DESIGN.md 12.7).  Only oracle failures count here (a broken tie of the neighbour is reported
    # by the neighbour's own check); the neighbour's listed findings are skipped (its own check prints them).
    neighbour_info = {}
    for nb in getattr(P, "NEIGHBOURS", []):
        lender = nb["from"]
        L = importlib.import_module("props." + lender)
        lrng = common.rng_for(pid + "/neighbour/" + lender, seed)
        pool = [(t, c) for t, c in L.cases("quick", lrng) if not nb.get("tags") or any(t.startswith(x) for x in nb["tags"])]
        limit = nb.get("limit", 400) * (5 if thorough else 1)
        if len(pool) > limit:
            keep = set(lrng.sample(range(len(pool)), limit))
            # hand-written streams of the neighbour (corner forms, layouts, scenarios) are always taken in full: the sample
            # is drawn from its generated streams only
            always = tuple(nb.get("always", ("special", "directed", "tricky", "shape", "late-decoration-shapes", "hostile")))
            pool = [x for i, x in enumerate(pool) if i in keep or (isinstance(x[1], dict) and x[1].get("dom") == "directed")
                    or str(x[0]).startswith(always)]
        pool = [("corpus:" + name, c["case"] if "case" in c else c) for name, c in common.load_corpus(lender)] + pool
        lacc = _new_acc()
        lvs, _ltb = evaluate(L, lender, pool, workers, lacc)
        lknown = set(k["class"] for k in common.load_known_findings(lender))
        skipped = 0
        for v in lvs:
            if _listed(v["cls"], lknown):
                skipped += 1
                continue
            v["lender"] = lender
            v["tag"] = "neighbour:%s:%s" % (lender, v.get("tag"))
            violations.append(v)
        acc["evaluations"] += lacc["evaluations"]
        acc["validated"] += lacc["validated"]
        for t, n in lacc["by_tag"].items():
            acc["by_tag"]["neighbour:%s:%s" % (lender, t)] += n
        neighbour_info[lender] = {"cases": lacc["evaluations"], "why": nb.get("why", ""), "listed_findings_of_neighbour_skipped": skipped,
                                  "distinct_nontrivial": len(lacc["keys"])}

    code = 0
    lines = []
    reported = set()
    unknown = []
    for v in violations:
        if v.get("lender"):
            unknown.append(v)
        elif _listed(v["cls"], known_classes):
            if not v.get("tie_ok", True):
                # a listed finding, but the implementation no longer behaves as the model of the code says
                tie_breaks.append({"tag": v.get("tag"), "case": v["case"], "impl": "see replay", "model": "known-finding class %s" % v["cls"]})
            for part in v["cls"].split("+"):
                if part not in reported:
                    reported.add(part)
                    lines.append("KNOWN-FINDING: property=%s %s" % (pid, known_classes[part]["what"]))
        else:
            unknown.append(v)

    searched = None
    if not unknown and (not gate_ok or tie_breaks):
        # the proof or the correspondence no longer checks: search for a failing input
        searched = 0
        budget_t = time.time() + (240 if thorough else 90)
        srng = common.rng_for(pid + "/search", seed)
        hint = tie_breaks[0]["case"] if tie_breaks else None
        while time.time() < budget_t and not unknown:
            batch = list(P.search_cases(srng, hint, 2000)) if hasattr(P, "search_cases") else list(P.cases("thorough", srng))[:4000]
            if not batch:
                break
            sacc = _new_acc()
            vs, _tb = evaluate(P, pid, batch, workers, sacc)
            searched += sacc["evaluations"]
            acc["evaluations"] += sacc["evaluations"]
            unknown = [v for v in vs if not _listed(v["cls"], known_classes)]
            if not hasattr(P, "search_cases"):
                break

    replay_path = None
    if unknown:
        try:
            v = shrink(importlib.import_module("props." + unknown[0]["lender"]) if unknown[0].get("lender") else P, unknown[0])
            if unknown[0].get("lender"):
                v["lender"] = unknown[0]["lender"]
        except Exception:  # noqa: B902 - shrinking is best effort
            v = unknown[0]
        replay_path = common.write_replay(pid, {
            "property": pid, "kind": "failing-input", "class": v["cls"], "fails": v["fails"], "case": v["case"],
            "impl": v.get("impl"), "model": v.get("model"), "seed": seed, "tier": tier,
            "also": len(unknown) - 1, "lender": v.get("lender"),
        })
        lines.append("VIOLATION property=%s replay=%s" % (pid, replay_path))
        code = 1
    elif not gate_ok or tie_breaks:
        payload = {"property": pid, "kind": "no-failing-input-found", "seed": seed, "tier": tier,
                   "searched_cases": searched}
        if not gate_ok:
            payload["proof_obligations"] = gate["problems"]
        if tie_breaks:
            payload["correspondence"] = {"projection": getattr(P, "PROJECTION", "see props/%s.py" % pid),
                                         "diverging": tie_breaks[:3], "count": len(tie_breaks)}
        replay_path = common.write_replay(pid, payload)
        lines.append("VIOLATION property=%s replay=%s no-failing-input-found" % (pid, replay_path))
        code = 1

    wall = time.time() - t0
    coverage = {
        "obligations": len(gate["theorems"]) + len([p for p in gate["problems"] if "theorem" in p]),
        "discharged": len(gate["theorems"]) if gate_ok else 0,
        "checker_cmd": "cd lean && lake build IcontractModel driver && lake env lean ../build/Audit.lean   # #print axioms of every Props/ theorem"
                       + (" && lake env leanchecker IcontractModel.Props.%s" % pid if thorough else ""),
        "trusted_base": common.TRUSTED_BASE,
        "theorems": gate["theorems"],
        "proof_gate_problems": gate["problems"],
        "evaluations": acc["evaluations"],
        "distinct_nontrivial": len(acc["keys"]),
        "rule": getattr(P, "RULE", ""),
        "samples": acc["samples"] or [{"case": tagged[0][1]}] if tagged else [],
        "traces_validated_against_impl": acc["validated"],
        "exhaustive": exhaustive,
        "streams": dict(acc["by_tag"]),
        "distribution": dict(acc["dist"]),
        "known_findings_hit": sorted(reported),
        "tie_breaks": len(tie_breaks),
        "explanation": getattr(P, "DESCRIPTION", ""),
    }
    if extra_info is not None:
        coverage["extra"] = extra_info.get("info")
    if neighbour_info:
        coverage["neighbour_streams"] = neighbour_info
    common.write_evidence(pid, tier, seed, coverage, wall, len(unknown),
                          assumptions=getattr(P, "ASSUMPTIONS", []))
    for l in lines:
        print(l)
    print("%s %s seed=%d: %d cases (%d distinct non-trivial), %d theorems, %d violations, %d known, %d tie breaks, %.1fs"
          % (pid, tier, seed, acc["evaluations"], len(acc["keys"]), len(gate["theorems"]), len(unknown),
             len(violations) - len(unknown), len(tie_breaks), wall))
    return code


def replay(P, pid, path):
    with open(path) as fh:
        payload = json.load(fh)
    if payload.get("kind") == "no-failing-input-found":
        print(json.dumps(payload, indent=1)[:4000])
        print("replay names a proof obligation / correspondence that no longer checks; re-run the check")
        cases = [d["case"] for d in payload.get("correspondence", {}).get("diverging", [])]
        bad = 0
        for c in cases:
            expand = getattr(P, "driver_inputs", None)
            mos = common.run_driver(expand(c) if expand else [c])
            mo = mos if expand else mos[0]
            io = P.run_impl(c)
            pi, pm = P.project(c, io), P.project(c, P.model_view(c, mo))
            print("impl :", json.dumps(pi))
            print("model:", json.dumps(pm))
            bad += pi != pm
        return 1 if bad or not cases else 0
    case = payload["case"]
    if payload.get("lender"):
        P = importlib.import_module("props." + payload["lender"])     # a case of a neighbour stream: its module runs and judges it
    r = still_fails(P, case)
    if r is None:
        print("replay does not fail on the current tree")
        return 0
    print(json.dumps({"fails": r["fails"], "class": r["cls"], "impl": r["impl"], "model": r["model"]}, indent=1, default=str)[:6000])
    print("VIOLATION property=%s replay=%s" % (pid, path))
    return 1
