"""Type-directed generator of lambda condition bodies over the supported expression forms,
with environments that make them falsy (rejection-sampled by CPython itself)."""
import ast

ARGS = ["x", "y", "xs", "s", "o", "d", "n"]


def random_env(rng):
    return {
        "x": rng.choice([-2, -1, 0, 1, 2, 3, 5]),
        "y": rng.choice([-1, 0, 1, 2, 4]),
        "xs": [rng.randint(-2, 4) for _ in range(rng.choice([0, 0, 1, 2, 3]))],
        "s": rng.choice(["", "a", "ab", "hello"]),
        "oa": rng.choice([0, 1, 2, -1]),
        "ob": [rng.randint(0, 3) for _ in range(rng.choice([0, 1, 2]))],
        "d": dict((k, rng.randint(0, 3)) for k in rng.sample(["a", "b", "c"], rng.randint(0, 3))),
        "n": rng.choice([None, None, 0, 1, 3]),
    }


class Gen:
    def __init__(self, rng, max_depth=3, features=None):
        self.rng = rng
        self.max_depth = max_depth
        self.loopvars = []
        self.f = features or {"comp": True, "all": True, "fstring": True, "walrus": True, "star": False, "guard": True,
                              "chain": True, "ifexp": True, "dict": True, "v2": True}
        self.v2 = bool(self.f.get("v2", True))

    def pick(self, opts):
        return self.rng.choice(opts)

    def int_(self, d):
        r = self.rng
        leaves = ["x", "y", "GL", "cl", "o.a", "%d" % r.randint(0, 3)] + [v for v in self.loopvars]
        if d <= 0:
            return self.pick(leaves)
        if self.v2 and r.random() < 0.15:
            return self.pick([
                "len(%s)" % self.tuple_(d - 1),
                "max(%s, default=%s)" % (self.list_(d - 1), self.int_(0)),
                "min(%s, default=%s)" % (self.list_(d - 1), self.int_(0)),
                "sum(%s, start=%s)" % (self.list_(d - 1), self.int_(0)),
                "%s[%s]" % (self.tuple_(d - 1), self.pick(["0", "-1", "1"])),
                "max(*%s)" % self.pick(["[%s, %s]" % (self.int_(0), self.int_(0)), "xs", "(%s, %s, %s)" % (self.int_(0), self.int_(0), self.int_(0))]),
                "min(%s, *%s)" % (self.int_(0), self.list_(0)),
                "{'k': %s, **d}['k']" % self.int_(d - 1),
                "{**d, 'k': %s}['k']" % self.int_(d - 1),
                "dict(d, k=%s)['k']" % self.int_(d - 1),
                "len({%s, %s})" % (self.int_(0), self.int_(0)),
                "len(f'{%s}')" % self.int_(d - 1),
            ])
        k = r.randint(0, 15)
        if k <= 3:
            return self.pick(leaves)
        if k == 4:
            return "len(%s)" % self.list_(d - 1)
        if k == 5:
            return "abs(%s)" % self.int_(d - 1)
        if k == 6:
            return "(%s %s %s)" % (self.int_(d - 1), self.pick(["+", "-", "*"]), self.int_(d - 1))
        if k == 7:
            return "(%s %s %s)" % (self.int_(d - 1), self.pick(["//", "%"]), self.int_(d - 1))
        if k == 8:
            return "%s[%s]" % (self.list_(d - 1), self.pick(["0", "-1", "1", self.int_(0)]))
        if k == 9:
            return "(-%s)" % self.int_(d - 1)
        if k == 10:
            return "%s(%s, %s)" % (self.pick(["min", "max"]), self.int_(d - 1), self.int_(d - 1))
        if k == 11 and self.f["ifexp"]:
            return "(%s if %s else %s)" % (self.int_(d - 1), self.bool_(d - 1), self.int_(d - 1))
        if k == 12:
            return "o.m(%s)" % self.int_(d - 1)
        if k == 13 and self.f["dict"]:
            return "d[%r]" % self.pick(["a", "b", "c"])
        if k == 14:
            return "sum(%s)" % self.list_(d - 1)
        if k == 15 and self.f["walrus"] and not self.loopvars:
            return "(w := %s)" % self.int_(d - 1)
        return self.pick(leaves)

    def tuple_(self, d):
        return self.pick([
            "(%s, %s)" % (self.int_(max(0, d - 1)), self.int_(0)),
            "(%s,)" % self.int_(0),
            "(*%s, %s)" % (self.list_(0), self.int_(0)),
            "(%s, *%s, *%s)" % (self.int_(0), self.list_(0), self.list_(0)),
            "tuple(%s)" % self.list_(max(0, d - 1)),
            "(%s, %s)[%s:]" % (self.int_(0), self.int_(0), self.pick(["0", "1", "-1"])),
        ])

    def bool_(self, d):
        r = self.rng
        if d <= 0:
            return "%s %s %s" % (self.int_(0), self.pick(["<", ">", "==", "!=", "<=", ">="]), self.int_(0))
        if self.v2 and r.random() < 0.15:
            return self.pick([
                "%s %s %s" % (self.tuple_(d - 1), self.pick(["==", "<", "!=", ">="]), self.tuple_(d - 1)),
                "%s in %s" % (self.int_(d - 1), self.tuple_(d - 1)),
                "%s in {%s, %s}" % (self.int_(d - 1), self.int_(0), self.int_(0)),
                "{'a': %s, **d} == d" % self.int_(d - 1),
                "{**d, 'a': %s, 'b': %s} == d" % (self.int_(0), self.int_(0)),
                "dict(a=%s) == d" % self.int_(d - 1),
                "%s in d" % self.pick(["'a'", "s", "'zz'"]),
                "%s == %s" % (self.str_(d - 1), self.str_(0)),
                "%s[%s:%s:%s] == %s" % (self.list_(d - 1), self.pick(["", "0", "1", "-2"]), self.pick(["", "2", "-1"]), self.pick(["", "2", "-1"]), self.list_(0)),
                "s[%s:%s] == %s" % (self.pick(["", "0", "1"]), self.pick(["", "2", "-1"]), self.pick(["s", "'a'", "''"])),
                "sorted(%s, reverse=%s) == %s" % (self.list_(d - 1), self.pick(["True", "False", "x"]), self.list_(0)),
                "[*%s, %s] == %s" % (self.list_(d - 1), self.int_(0), self.list_(0)),
                "[%s, *%s, *%s] == %s" % (self.int_(0), self.list_(0), self.tuple_(0), self.list_(0)),
            ])
        k = r.randint(0, 16)
        if k <= 2:
            return "%s %s %s" % (self.int_(d - 1), self.pick(["<", ">", "==", "!=", "<=", ">="]), self.int_(d - 1))
        if k == 3 and self.f["chain"]:
            return "%s %s %s %s %s" % (self.int_(d - 1), self.pick(["<", "<=", "=="]), self.int_(d - 1), self.pick(["<", "<=", "!="]), self.int_(d - 1))
        if k == 4:
            return "(not %s)" % self.bool_(d - 1)
        if k in (5, 6):
            return "(%s and %s)" % (self.bool_(d - 1), self.bool_(d - 1))
        if k in (7, 8):
            return "(%s or %s)" % (self.bool_(d - 1), self.bool_(d - 1))
        if k == 9 and self.f["guard"]:
            # guard-style: later operands are only defined when earlier ones hold
            return self.pick([
                "(xs and xs[0] > %s)" % self.int_(0),
                "(n is None or n > %s)" % self.int_(0),
                "(0 < x < 10 // x)",
                "(d and d['a'] > %s)" % self.int_(0),
                "(len(xs) > 1 and xs[1] == %s)" % self.int_(0),
                "(n is not None and n + 1 > %s)" % self.int_(0),
                "(o.b and o.b[0] < %s)" % self.int_(0),
                "(x != 0 and y // x > %s)" % self.int_(0),
                "(not xs or xs[-1] >= %s)" % self.int_(0),
            ])
        if k == 10:
            return "%s in %s" % (self.int_(d - 1), self.list_(d - 1))
        if k == 11 and self.f["all"] and not self.loopvars:
            return self.all_(d)
        if k == 12:
            return "bool(%s)" % self.list_(d - 1)
        if k == 13:
            return "n is None"
        if k == 14 and self.f["fstring"]:
            return "%s == %s" % (self.str_(d - 1), self.str_(d - 1))
        if k == 15 and self.f["comp"] and not self.loopvars:
            return "%s == %s" % (self.comp_(d - 1), self.list_(0))
        if k == 16 and self.f["ifexp"]:
            return "(%s if %s else %s)" % (self.bool_(d - 1), self.bool_(d - 1), self.bool_(d - 1))
        return "%s %s %s" % (self.int_(d - 1), self.pick(["<", ">", "=="]), self.int_(d - 1))

    def list_(self, d):
        leaves = ["xs", "o.b", "[%s, %s]" % (self.int_(0), self.int_(0)), "[]"]
        if d <= 0:
            return self.pick(leaves)
        k = self.rng.randint(0, 7)
        if k <= 2:
            return self.pick(leaves)
        if k == 3:
            return "%s[%s:%s]" % (self.list_(d - 1), self.pick(["", "0", "1"]), self.pick(["", "2", "-1"]))
        if k == 4:
            return "sorted(%s)" % self.list_(d - 1)
        if k == 5 and self.f["comp"] and not self.loopvars:
            return self.comp_(d)
        if k == 6:
            return "(%s + %s)" % (self.list_(d - 1), self.list_(d - 1))
        if k == 7:
            return "list(d.values())" if self.f["dict"] else "xs"
        return self.pick(leaves)

    def str_(self, d):
        k = self.rng.randint(0, 4)
        if k == 0 or d <= 0:
            return self.pick(["s", "'a'", "''"])
        if k == 1 and self.f["fstring"]:
            if self.v2 and self.rng.random() < 0.6:
                return self.pick([
                    "f'{%s!r}'" % self.int_(d - 1),
                    "f'{%s!r}|{s!s}'" % self.list_(max(0, d - 1)),
                    "f'{%s:03d}'" % self.int_(d - 1),
                    "f'{%s:>{y}}'" % self.int_(d - 1),
                    "f'{s!r}={%s}'" % self.int_(d - 1),
                    "f'{s:>4}{s:^5}{s:<3}|'",
                    "f'{%s:*^7d}'" % self.int_(d - 1),
                    "f'{%s}{%s!r}'" % (self.tuple_(0), self.pick(["n", "d", "x"])),
                    "f'{s:{y}}'",
                ])
            return "f'{%s}%s'" % (self.int_(d - 1), self.pick(["", "!", "-{s}", "{x!r}", "{y:>3}"]))
        if k == 2:
            return "str(%s)" % self.int_(d - 1)
        if k == 3:
            return "(%s + %s)" % (self.str_(d - 1), self.str_(d - 1))
        return "s"

    def comp_(self, d):
        v = "e%d" % len(self.loopvars)
        it = self.list_(d - 1)
        self.loopvars.append(v)
        elt = self.int_(max(0, d - 1))
        cond = (" if %s" % self.bool_(0)) if self.rng.random() < 0.5 else ""
        self.loopvars.pop()
        return "[%s for %s in %s%s]" % (elt, v, it, cond)

    def all_(self, d):
        v = "e%d" % len(self.loopvars)
        it = self.list_(max(0, d - 1))
        fn = self.pick(["all", "all", "any"])
        self.loopvars.append(v)
        second = ""
        if self.rng.random() < 0.25:
            v2 = "e%d" % len(self.loopvars)
            it2 = self.pick(["o.b", "[1, 2]", "xs"])
            self.loopvars.append(v2)
            second = " for %s in %s" % (v2, it2)
        body = self.bool_(max(0, d - 2))
        cond = (" if %s" % self.bool_(0)) if self.rng.random() < 0.3 else ""
        if cond and self.rng.random() < 0.4:
            cond += " if %s" % self.bool_(0)
        if second:
            self.loopvars.pop()
        self.loopvars.pop()
        return "%s(%s for %s in %s%s%s)" % (fn, body, v, it, second, cond)


def falsifying_case(rng, max_depth=3, features=None, tries=40, glob=None, closure=None):
    """(expr, env) such that CPython evaluates expr falsy (without raising) in env; None if not found."""
    glob = glob or {"GL": 7}
    closure = closure or {"cl": 5}
    from implexpr import make_env
    for _ in range(6):
        g = Gen(rng, max_depth, features)
        expr = g.bool_(max_depth)
        try:
            code = compile(ast.parse(expr, mode="eval"), "<gen>", "eval")
        except SyntaxError:
            continue
        for _t in range(tries):
            envd = random_env(rng)
            env = make_env(envd)
            scope = dict(glob)
            scope.update(closure)
            try:
                v = eval(code, scope, dict(env))
            except Exception:  # noqa: B902
                continue
            if not v:
                return {"expr": expr, "env": envd}
    return None


SPECIAL = [
    # display elements whose class overrides == (equal to everything; a comparison result without a truth value)
    (["a", "x"], "len([a, x]) > 5", {"a": "ANYEQ", "x": 1}),
    (["a", "x"], "len((a, x)) > 5 or [x, a] is None", {"a": "ANYEQ", "x": 1}),
    (["a", "x"], "len([a, x]) > 5", {"a": "NOTRUTHEQ", "x": 1}),
    (["a", "xs"], "len((xs, a)) + len([a]) > 5", {"a": "NOTRUTHEQ", "xs": [1]}),
    # a module-level variable read only from a generator expression nested in another one
    (["rows"], "all(all(v < GL for v in row) for row in rows)", {"rows": [[1, 2], [8, 9]]}),
    (["rows"], "all(all(v < cl + GL for v in row) for row in rows)", {"rows": [[1, 2], [80, 9]]}),
    (["rows"], "[[v for v in row if v > GL] for row in rows] == []", {"rows": [[1, 2], [8, 9]]}),
    # a value whose class overrides __format__: a plain replacement field goes through format(value, ""), not through str(value)
    (["m"], "len(f'{m}') > 100", {"m": "MONEY"}),
    (["m"], "f'{m}' == ''", {"m": "MONEY"}),
    (["m"], "f'{m!s}' == f'{m}'", {"m": "MONEY"}),
    (["m"], "f'{m!r}' == f'{m}' or f'{m:>12}' == ''", {"m": "MONEY"}),
    (["m", "x"], "f'{x}{m}{x}' == str(m)", {"m": "MONEY", "x": 1}),
    # a call that hands back an awaitable which the condition merely inspects
    (["job", "x"], "job(x).done()", {"job": "GETJOB", "x": 1}),
    (["job", "x"], "job(x).done() or job(x + 1).cancelled()", {"job": "GETJOB", "x": 1}),
    (["job", "x"], "[j.k for j in [job(x)]] == []", {"job": "GETJOB", "x": 1}),
    # chained comparisons whose inner operands have an effect: evaluated once by the check, once for the message
    (["x"], "0 < tick(x) < 3", {"x": 5}),
    (["x", "y"], "0 <= tick(x) <= tick(y) < 3", {"x": 1, "y": 7}),
    (["xs", "n"], "0 < tick(len(xs)) < n", {"xs": [1, 2, 3], "n": 2}),
    (["x", "y"], "tick(x) < tick(y) < tick(x + y) < 0", {"x": 1, "y": 2}),
    # (params, expr, env overrides) - corner forms of the supported grammar
    (None, "max(*xs) > 10", {"xs": [1, 2]}),
    (None, "min(x, *xs) > 10", {"xs": [1, 2]}),
    (None, "sum([*xs, y]) > 100", {"xs": [1, 2]}),
    (None, "len({**d, 'z': 1}) > 10", {"d": {"a": 1}}),
    (None, "[x for x in xs if x > 0] == [99]", {"xs": [1, -1, 2]}),
    (None, "[x + y for x in xs] == [99]", {"xs": [1, 2]}),
    (None, "{**d, 'a': x}['a'] > 100", {"d": {"a": 50, "b": 1}, "x": 1}),
    (None, "list({**d, 'z': y}) == []", {"d": {"a": 1, "b": 2}}),
    (None, "{'a': x, **d}['a'] > 100", {"d": {"a": 50, "b": 1}, "x": 1}),
    (None, "sum({**d, 'b': 100, **{'c': y}}.values()) < 0", {"d": {"a": 1, "b": 2, "c": 3}}),
    (["xs"], "all(10 % e == 1 for e in xs if e != 0 if 10 % e == 0)", {"xs": [0, 5]}),
    (["items"], "all(e.a > 100 for e in items if e is not None if e.a >= 0)", {"items": "OBJLIST"}),
    (["items", "x"], "all(e.a > x for e in items if e if e.a if e.a > 0)", {"items": "OBJLIST", "x": 100}),
    (["xs", "s"], "all(s[e] == 'z' for e in xs if e >= 0 if e < len(s))", {"xs": [-1, 7, 1], "s": "ab"}),
    (None, "[xs[e] + o.a for e in [0, 1]] == [99]", {"xs": [1, 2]}),
    (None, "[o.b[e] * cl + GL + len(xs) for e in [0, 1]] == []", {"ob": [3, 4], "xs": [1]}),
    (None, "[[xs, o.b][e][0] + abs(y) for e in [0, 1] if xs[e] > cl - 100] == [1]", {"xs": [1, 2], "ob": [5]}),
    (None, "all(x > 0 for x in xs) and y > 100", {"xs": [1, 2]}),
    (None, "all(e > 0 for e in xs) is True", {"xs": [1, -2]}),
    (None, "(all(e > 0 for e in xs) == True)", {"xs": [1, -2]}),
    (None, "xs[all(e > 5 for e in xs)] > 10", {"xs": [1, 2]}),
    (None, "not all(e > 0 for e in xs) and y > 100", {"xs": [1, -2]}),
    (None, "all(e > xs[0] for e in o.b) and len(o.b) > 0", {"xs": [], "ob": []}),
    (None, "any(e > 10 for e in xs)", {"xs": [1, 2]}),
    (None, "all(e > 0 for e in xs if e != y)", {"xs": [1, -1, 0], "y": 1}),
    (None, "all(a + b > 2 for a in xs for b in o.b)", {"xs": [1, 2], "ob": [0, 1]}),
    (None, "(w := x + 1) > 10 and w > 0", {}),
    (None, "(GL := x * 2) > 1000 or abs(GL) > 100", {"x": 5}),
    (None, "(cl := x + 1) > 1000 or max(cl, 0) > 100", {"x": 5}),
    (None, "(w := x) > 100 or (w := y) > 100 or abs(w) > 50", {"x": 1, "y": 2}),
    (None, "((w := x) + (w := y)) > 100 or [w, w][0] > 50", {"x": 1, "y": 2}),
    (None, "[x for x in xs] == [99] or abs(x) > 100", {"xs": [1, 2], "x": 5}),
    (None, "len([n for n in xs if n > 0]) == 0 or (n is not None and abs(n) > 100)", {"xs": [1, 2], "n": 3}),
    (None, "all(y > 0 for y in xs) and max(y, 0) > 100", {"xs": [1, 2], "y": 5}),
    (None, "{s: 1 for s in ['k']} == {} or len(s) > 100", {"s": "ab"}),
    (None, "[o.m(k=e) for e in xs] == [99]", {"xs": [1, 2], "oa": 1}),
    (None, "all(len(dict(name=e)) > 5 for e in xs)", {"xs": [1, 2]}),
    (None, "[dict(name=e, other=y) for e in xs] == []", {"xs": [1]}),
    (None, "all(o.m(k=e) < y for e in xs)", {"xs": [5, 6], "oa": 1, "y": 0}),
    (["x", "wc"], "(0 <= x < wc) is None", {"x": 1, "wc": "WEIRDCMP"}),
    (["x", "wc"], "(wc > x >= 0 < wc) is None or x > 100", {"x": 1, "wc": "WEIRDCMP"}),
    (None, "s != 'ab' and s != '#'", {"s": "ab"}),
    (None, "not s.startswith('ab') or s == \"# not a comment\"", {"s": "ab"}),
    (None, "all(not t.startswith('#') for t in [s, '#x'])", {"s": "ab"}),
    (["x", "st"], "[st, x][1] > 100", {"x": 1, "st": "STRICTEQ"}),
    (["x", "st"], "(st, x)[1] > 100", {"x": 1, "st": "STRICTEQ"}),
    (["x", "st"], "len([x, st, x]) > 100 and (x, st) is None", {"x": 1, "st": "STRICTEQ"}),
    (["x", "we"], "[we, x][1] > 100", {"x": 1, "we": "WEIRDEQ"}),
    (["x", "we"], "len((x, we, [we])) > 100", {"x": 1, "we": "WEIRDEQ"}),
    # a module-level variable named like a built-in is a variable
    (None, "x > format", {"x": 1}),
    (None, "format < 0 or GL + format < x", {"x": 1}),
    # a part of a comprehension that Python never evaluates (nothing is iterated) and that cannot be re-computed
    (["h", "xs", "y"], "any(h(y) > e for e in xs)", {"h": "RAISER:custom", "xs": [], "y": 1}),
    (["h", "xs", "y"], "[e for e in xs if h(y)] == [99]", {"h": "RAISER:assertion", "xs": [], "y": 1}),
    (["h", "xs", "y"], "not all(h(e) for e in xs if e > 100)", {"h": "RAISER:oserror", "xs": [1, 2], "y": 1}),
    (["h", "xs", "y"], "len({e for e in xs if e > 100 if h(y)}) > 0", {"h": "RAISER:stopiteration", "xs": [1], "y": 1}),
    (["h", "xs", "y"], "any(e > h(y) for e in xs)", {"h": "RAISER:violation", "xs": [], "y": 1}),
    (["h", "xs", "y"], "{e: h(y) for e in xs} != {}", {"h": "RAISER:keyerror", "xs": [], "y": 1}),
    # calls / subscripts whose value is None are values like any other
    (None, "d.get('zz') is not None and x > 100", {"d": {"a": 1}}),
    (["xs", "x"], "xs[0] is not None and xs[1] > 100", {"xs": [None, 1], "x": 1}),
    (["nf", "x"], "nf(x) is not None", {"nf": "NONEFUNC", "x": 1}),
    (["d"], "d['k'] is not None or d.get('k') == 1", {"d": {"k": None}}),
    # non-ASCII text in the condition (offsets in bytes and in characters differ)
    (None, "s == 'k\u016f\u0148' and x > 100", {"s": "k\u016f\u0148", "x": 1}),
    (None, "'\u00ab' + s == s or len(xs) > 100 or o.a > 100", {"s": "a", "xs": [1], "oa": 1}),
    (["gr\u00f6\u00dfe", "x"], "gr\u00f6\u00dfe > 100 and x > gr\u00f6\u00dfe", {"gr\u00f6\u00dfe": 5, "x": 1}),
    # the target of an assignment expression bound to something that is not representable
    (None, "(k := len) is None or x > 100", {"x": 1}),
    (None, "(k := type(x)) is str", {"x": 1}),
    (["xs"], "(c := xs.count)(0) == 99", {"xs": [1, 0]}),
    # C-level callables that are neither functions, methods nor built-in functions ARE values
    (["x", "key"], "x > 100", {"x": 1, "key": "METHDESC"}),
    (["x", "op"], "op is None and x > 100", {"x": 1, "op": "SLOTWRAP"}),
    (["x", "ln"], "ln() > 100 or x > 100", {"x": 1, "ln": "METHWRAP"}),
    (["x", "settings"], "x > 100", {"x": 1, "settings": "MODULESUB"}),
    (["x", "settings"], "settings is None or x > 100", {"x": 1, "settings": "MODULESUB"}),
    # a generator the condition consumes lazily
    (["g", "xs"], "next(g(10, xs)) > 3", {"g": "GENFUNC", "xs": [5, 0]}),
    (["g", "xs"], "any(e > 100 for e in g(10, xs)) or next(g(7, xs)) > 100", {"g": "GENFUNC", "xs": [5, 2]}),
    # `all` is what the name resolves to, not how it is spelled
    (["xs", "all"], "all(e > 0 for e in xs)", {"xs": [1, 2], "all": "OWNALL"}),
    (["xs", "all"], "all(e > 0 for e in xs) or len(xs) > 100", {"xs": [], "all": "OWNALL"}),
    (["xs", "all"], "all(e for e in xs)", {"xs": [None, 0, 3], "all": "OWNALL_SKIPNONE"}),
    (["xs", "every"], "every(e > 0 for e in xs)", {"xs": [1, -1, -2], "every": "BUILTIN_ALL"}),
    (["xs", "every"], "not every(e > 0 for e in xs) and len(xs) > 100", {"xs": [1, -1], "every": "BUILTIN_ALL"}),
    (["xs", "all", "every"], "every(e > 0 for e in xs) and all(e > 0 for e in xs)", {"xs": [3, -1], "every": "BUILTIN_ALL", "all": "OWNALL"}),
    # a comprehension target that shadows an argument which is needed again afterwards
    (["s"], "all(len(s) > 5 for s in s.split())", {"s": "ab cd"}),
    (["xs", "n"], "all(n > 0 for n in xs) or all(m > n for m in xs)", {"xs": [-1, 2], "n": 3}),
    (["xs", "n"], "any(n > 5 for n in xs) or [m for m in xs if m > n] == [99]", {"xs": [-1, 2], "n": 3}),
    (["xs", "n"], "len([n for n in xs]) > 5 or any(m > n for m in xs)", {"xs": [-1, 2], "n": 3}),
    (["xs", "n"], "{n for n in xs} == {99} or any(m > n for m in xs)", {"xs": [-1, 2], "n": 3}),
    (["xs", "n"], "{n: 1 for n in xs} == {} or any(m > n for m in xs)", {"xs": [-1, 2], "n": 3}),
    # expression texts one of which is a prefix of the other, continued by a space (the lines are sorted by TEXT)
    (None, "xs [0] > 100 or len(xs) > 100", {"xs": [1, 2]}),
    (None, "abs (x) > 100 and abs(x) > 0 or abs (x) + abs( y) > 100", {"x": 1, "y": 2}),
    (None, "o .a > 100 or o.b == 5 or o .b == [99]", {"oa": 1, "ob": [2]}),
    (None, "d ['a'] > 100 or len(d) > 100", {"d": {"a": 1}}),
    # built-in constants are built-ins too: no line for them
    (None, "x is not NotImplemented and x > 100", {"x": 1}),
    (None, "x is not Ellipsis and x is not ... and x > 100", {"x": 1}),
    (None, "__debug__ and x > 100", {"x": 1}),
    (None, "(x, NotImplemented, Ellipsis, __debug__)[0] > 100", {"x": 1}),
    (["x", "id", "max"], "id is not None and max is None and x > 100", {"x": 1, "id": 5, "max": None}),
    (None, "f'{x:>{y}}' == 'zzz'", {"x": 1, "y": 3}),
    (None, "f'{s!r}-{x}' == 'zzz'", {}),
    (None, "{e for e in xs} == {99}", {"xs": [1, 2]}),
    (None, "{e: e + 1 for e in xs} == {}", {"xs": [1, 2]}),
    (None, "(x, y) == (99, 98)", {}),
    (None, "{x, y} == {99}", {}),
    (None, "xs[0:2] == [99]", {"xs": [1, 2, 3]}),
    (None, "xs[::2] == [99]", {"xs": [1, 2, 3]}),
    (["x", "id"], "id is not None and x > 100", {"x": 1, "id": None}),
    (["x", "len"], "str(len) == 'nope' and x > 100", {"x": 1, "len": None}),
    (["x", "id"], "x > 100", {"x": 1, "id": None}),
    # the last operand of and/or and the last link of a chain are never truth-tested by Python
    (["x", "wb"], "(x > 100 or wb) is None", {"x": 1, "wb": "WEIRDBOOL"}),
    (["x", "wb"], "(x < 100 and wb) is None", {"x": 1, "wb": "WEIRDBOOL"}),
    (["x", "wb"], "(wb if x < 100 else x) is None", {"x": 1, "wb": "WEIRDBOOL"}),
]
