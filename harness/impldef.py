"""Definition-time materialiser: build real decorators from (possibly malformed) input
and record where/with what they are rejected.  Case format = Lean `DefineCase` (dom="define")."""
import functools

import common

icontract = common.assert_repo_import()


class _PlainClass:
    pass


class _Callable:
    def __call__(self, *a, **k):
        return ValueError("x")


class _Holder:
    def meth(self):
        return ValueError("from method")


def err_object(kind, variant=0):
    if kind == "none":
        return None
    if kind == "excClass":
        return [ValueError, KeyboardInterrupt, type("MyErr", (Exception,), {})][variant % 3]
    if kind == "otherClass":
        return [int, _PlainClass, object, str][variant % 4]
    if kind == "excInstance":
        return [ValueError("boom"), KeyboardInterrupt()][variant % 2]
    if kind == "function":
        return [lambda: ValueError("f"), _named_factory][variant % 2]
    if kind == "method":
        return _Holder().meth
    if kind == "callableObject":
        return [functools.partial(ValueError, "p"), _Callable(), len][variant % 3]
    if kind == "otherValue":
        # truthy and falsy values that are no exception class / instance / callable
        return [5, "some string", 0, ""][variant % 4] if variant < 4 else [(), [], False, 0.0, 3.5, ["list"]][variant % 6]
    raise AssertionError(kind)


def _named_factory():
    return ValueError("named")


def _cond_fn(args, mandatory, coro_fn, variadic=None):
    variadic = variadic or {}
    params = ", ".join(("*" + a) if variadic.get(a) == "varPos" else ("**" + a) if variadic.get(a) == "varKw"
                       else a if a in mandatory else "%s=None" % a for a in args)
    ns = {}
    exec("%sdef cond(%s):\n    return True" % ("async " if coro_fn else "", params), ns)
    return ns["cond"]


def _sig_src(sig):
    import implck

    return implck._params_src([dict(p, default=None) for p in sig])


def run(case):
    """Returns {"out": ["ok"] | ["raise", ClassName], "phase": ...}."""
    what = case["what"]
    v = case.get("variant", 0)
    phase = "construct"
    try:
        if what == "error_arg":
            err = err_object(next(iter(case["err"])) if isinstance(case["err"], dict) else case["err"], v)
            deco = case["deco"]
            if deco == "require":
                d = icontract.require(lambda x: True, error=err, enabled=case["enabled"])
            elif deco == "ensure":
                d = icontract.ensure(lambda result: True, error=err, enabled=case["enabled"])
            else:
                d = icontract.invariant(lambda self: True, error=err, enabled=case["enabled"])
            phase = "apply"
            if deco == "invariant":
                d(type("K", (), {}))
            else:
                d(lambda x: x)
        elif what == "invariant_cond":
            cond = _cond_fn(case["condArgs"], case["condMandatory"], case["coroFn"], case.get("variadic"))
            ek = next(iter(case["err"])) if isinstance(case["err"], dict) else case["err"]
            if ek != "none":
                d = icontract.invariant(cond, enabled=case["enabled"], error=err_object(ek, v))
            else:
                d = icontract.invariant(cond, enabled=case["enabled"])
            phase = "apply"
            d(type("K", (), {}))
        elif what == "snapshot_name":
            cap = _cond_fn(case["captureArgs"], case["captureArgs"], False)
            icontract.snapshot(cap, name=case["name"], enabled=case["enabled"])
        elif what == "snapshot_apply":
            below = case["below"]

            def f(x):
                return x

            g = f
            if below["hasChecker"]:
                if below["nPosts"] == 0:
                    g = icontract.require(lambda x: True)(g)
                for _ in range(below["nPosts"]):
                    g = icontract.ensure(lambda result: True)(g)
                for n in below["snapNames"]:
                    g = icontract.snapshot(lambda x: x, name=n)(g)
            cap = _cond_fn(case["captureArgs"], case["captureArgs"], False)
            d = icontract.snapshot(cap, name=case["name"], enabled=case["enabled"])
            phase = "apply"
            r = d(g)
            if not case["enabled"] and r is not g:
                return {"out": ["ok"], "phase": phase, "note": "disabled snapshot did not return its argument"}
        elif what == "reserved_param":
            ns = {"icontract": icontract}
            src = "def f(%s):\n    return 1" % _sig_src(case["sig"])
            exec(src, ns)
            phase = "apply"
            deco = case["deco"]
            if deco == "require":
                icontract.require(lambda: True)(ns["f"])
            elif deco == "ensure":
                icontract.ensure(lambda result: True)(ns["f"])
            else:
                # through the metaclass: a method overriding a contracted one gets its checker from DBCMeta
                src2 = ("class A(icontract.DBC):\n    @icontract.require(lambda: True)\n    def m(self, *a, **k):\n        return 1\n"
                        "class B(A):\n    def m(%s):\n        return 1\n" % _sig_src([{"name": "self", "kind": "posOnly" if any(p["kind"] == "posOnly" for p in case["sig"]) else "posOrKw"}] + case["sig"]))
                exec(src2, ns)
        else:
            raise common.Infra("unknown define case %s" % what)
    except common.Infra:
        raise
    except BaseException as e:  # noqa: B902
        return {"out": ["raise", type(e).__name__], "phase": phase, "msg": str(e)[:100]}
    return {"out": ["ok"], "phase": phase}
