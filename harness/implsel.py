"""Member-selection materialiser (C03a): real classes with members of every kind and name,
invariants with every check_on; each operation on a constructed instance is probed for the
invariants evaluated around it (behavioural channel only: a counting invariant per contract)."""
import common

icontract = common.assert_repo_import()

OPS = {
    "pub": ("function", lambda o: o.pub()),
    "other_pub": ("function", lambda o: o.other_pub()),
    "_prot": ("function", lambda o: o._prot()),
    "__priv": ("function", lambda o: o._call_priv()),
    "__unm": ("function", lambda o: getattr(o, "__unm")()),      # a name with two leading underscores that was NOT mangled
    "__len__": ("function", lambda o: len(o)),
    "__call__": ("function", lambda o: o()),
    "__eq__": ("function", lambda o: o == 3),
    "__getattr__": ("function", lambda o: o.missing_attribute),
    "__repr__": ("function", lambda o: repr(o)),
    "__str__": ("function", lambda o: str(o)),
    "prop": ("property", lambda o: o.prop),
    "prop_set": ("property", lambda o: setattr(o, "prop", 1)),
    "_prot_prop": ("property", lambda o: o._prot_prop),
    "wo_prop": ("property", lambda o: setattr(o, "wo_prop", 1)),          # write-only property
    "ro_prop": ("property", lambda o: o.ro_prop),
    "ro_prop_setter": ("property", lambda o: setattr(o, "ro_prop", 1)),   # setter added by the subclass to an inherited getter
    "del_prop": ("property", lambda o: delattr(o, "del_prop")),
    "static": ("staticmethod", lambda o: o.static()),
    "static0": ("staticmethod", lambda o: (o.static0(5), type(o).static0(6))),     # inherited, takes an argument
    "classm0": ("classmethod", lambda o: (o.classm0(), type(o).classm0())),
    "apub": ("function", lambda o: _run_co(o.apub())),
    "alias_pub": ("function", lambda o: o.alias_pub()),               # `alias_pub = pub` in the class body
    "__radd__": ("function", lambda o: 1 + o),                        # `__radd__ = __add__`                             # an `async def` public method
    "classm": ("classmethod", lambda o: o.classm()),
    "__delattr__": ("function", lambda o: delattr(o, "whatever")),     # deleting is a public operation like any other dunder
    "__getitem__": ("function", lambda o: o[0]),
    "__contains__": ("function", lambda o: 3 in o),
    "_odd__": ("function", lambda o: o._odd__()),               # ONE leading underscore: not public, whatever the ending
    "odd__": ("function", lambda o: o.odd__()),                 # public, whatever the ending
    "_odd_prop__": ("property", lambda o: o._odd_prop__),
    "__setattr__": ("function", lambda o: setattr(o, "y", 2)),
    "assign": ("assign", lambda o: setattr(o, "z", 3)),          # attribute assignment without own __setattr__
}

SRC = {
    "pub": "def pub(self): return 1",
    "other_pub": "def other_pub(self): return 1",
    "_prot": "def _prot(self): return 1",
    "__priv": "def __priv(self): return 1\ndef _call_priv(self): return self.__priv()",
    "__unm": "def _unm_impl(self): return 1\nlocals()['__unm'] = _unm_impl",
    "__len__": "def __len__(self): return 3",
    "__call__": "def __call__(self): return 1",
    "__eq__": "def __eq__(self, other): return False\n__hash__ = None",
    "__getattr__": "def __getattr__(self, name):\n    if name.startswith('__') or name in ('iid',): raise AttributeError(name)\n    return 7",
    "__repr__": "def __repr__(self): return 'R'",
    "__str__": "def __str__(self): return 'S'",
    "prop": "@property\ndef prop(self): return 1\n@prop.setter\ndef prop(self, v): pass",
    "prop_set": "",
    "_prot_prop": "@property\ndef _prot_prop(self): return 1",
    "wo_prop": "def _wo_set(self, v): pass\nwo_prop = property(fset=_wo_set)",
    "ro_prop": "@property\ndef ro_prop(self): return 1",
    "ro_prop_setter": "@L0.ro_prop.setter\ndef ro_prop(self, v): pass",
    "del_prop": "def _dp_get(self): return 1\ndef _dp_del(self): pass\ndel_prop = property(fget=_dp_get, fdel=_dp_del)",
    "static": "@staticmethod\ndef static(): return 1",
    "static0": "@staticmethod\ndef static0(v): return v",
    "classm0": "@classmethod\ndef classm0(cls): return 1",
    "apub": "async def apub(self): return 1",
    "alias_pub": "def _al_impl_pub(self): return 1\nalias_pub = _al_impl_pub\nalias_pub.__name__ = 'al_impl_pub'",
    "__radd__": "def __add__(self, other): return 5\n__radd__ = __add__",
    "classm": "@classmethod\ndef classm(cls): return 1",
    "__delattr__": "def __delattr__(self, k): pass",
    "__getitem__": "def __getitem__(self, k): return 1",
    "__contains__": "def __contains__(self, k): return False",
    "_odd__": "def _odd__(self): return 1",
    "odd__": "def odd__(self): return 1",
    "_odd_prop__": "@property\ndef _odd_prop__(self): return 1",
    "__setattr__": "def __setattr__(self, k, v): object.__setattr__(self, k, v)",
    "assign": "",
}


def _run_co(co):
    try:
        co.send(None)
    except StopIteration as e:
        return e.value
    co.close()
    raise RuntimeError("coroutine suspended")


def _indent(src, n=4):
    return "\n".join(" " * n + l for l in src.splitlines() if l.strip())


def run(case):
    """case: {"levels": [{"mode": "dbc"|"plain", "members": [names], "invs": [[call, setattr], ...], "init": bool}]}
    Returns per probed operation the invariant ids evaluated before and after."""
    counts = []
    ns = {"icontract": icontract}
    lines = []
    inv_id = 0
    inv_ids = []
    for li, lv in enumerate(case["levels"]):
        base = ("icontract.DBC" if lv["mode"] == "dbc" else "object") if li == 0 else "L%d" % (li - 1)
        if li == 0 and case.get("builtin_base"):
            # a subclass of a built-in container / exception that relies on the C-level constructor
            base = case["builtin_base"] + (", icontract.DBC" if lv["mode"] == "dbc" else "")
        decos = []
        for call, sa in lv["invs"]:
            co = []
            if call:
                co.append("icontract.InvariantCheckEvent.CALL")
            if sa:
                co.append("icontract.InvariantCheckEvent.SETATTR")
            decos.append("@icontract.invariant(lambda self, _k=%d: H_inv(_k), check_on=%s)"
                         % (inv_id, " | ".join(co) if co else "icontract.InvariantCheckEvent(0)"))
            inv_ids.append([inv_id, call, sa])
            inv_id += 1
        # decorators apply bottom-up: the first invariant of the list is the innermost
        for d in reversed(decos):
            lines.append(d)
        lines.append("class L%d(%s):" % (li, base))
        body = []
        if lv.get("init", True):
            if case.get("aliases"):
                # the constructor is an alias of a function with another name
                body.append("def _ctor_impl(self):\n    object.__setattr__(self, 'x', 1)\n__init__ = _ctor_impl")
            else:
                body.append("def __init__(self):\n    object.__setattr__(self, 'x', 1)")
        for name in lv["members"]:
            if name == "__setattr__" and case.get("aliases"):
                body.append("def _sa_impl(self, k, v): object.__setattr__(self, k, v)\n__setattr__ = _sa_impl")
            elif SRC[name]:
                body.append(SRC[name])
        if not body:
            body.append("pass")
        for b in body:
            lines.append(_indent(b))
    src = "\n".join(lines) + "\n"
    ns["H_inv"] = lambda k: (counts.append(k), True)[1]
    try:
        exec(compile(src, "<select>", "exec"), ns)
    except BaseException as e:  # noqa: B902
        return {"define": ["raise", type(e).__name__, str(e)[:120]], "src": src}
    cls = ns["L%d" % (len(case["levels"]) - 1)]
    out = {"define": ["ok"], "ops": {}, "inv_ids": inv_ids}
    try:
        del counts[:]
        o = cls()
        out["construct"] = list(counts)
    except BaseException as e:  # noqa: B902
        out["construct"] = ["raise", type(e).__name__, str(e)[:100]]
        return out
    members = set(m for lv in case["levels"] for m in lv["members"])
    probes = set(members)
    if "prop" in members:
        probes.add("prop_set")
    if "__setattr__" not in members:
        probes.add("assign")
    for name in sorted(probes):
        del counts[:]
        try:
            OPS[name][1](o)
            out["ops"][name] = list(counts)
        except BaseException as e:  # noqa: B902
            out["ops"][name] = ["raise", type(e).__name__, str(e)[:100]]
    return out
